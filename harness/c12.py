"""C12 - the session answers any bytes safely, once, and keeps going.

Model: coq/theories/Session/{Framing,Encode,Session}.v; theorems: coq/props/C12.v.
Tie K: the real KmipSession._handle_message_loop behind a scripted connection and in front of a real engine
(harness/sessdrv.py); Coq (Session/SessionCases.v check_conn) recomputes framing, recv sizes, engine entry,
error responses, the maximum-response-size rule and compares with what was observed.
Direct oracle: evaluated on the connection record alone (independent TTLV reader, independent framing).
"""
import copy
import itertools
import json
import os
import shutil
import struct

import kdrv
import sessdrv
from kmip.core import enums, primitives, attributes as cattrs, objects as cobjects
from kmip.core.messages import payloads

E = enums
HEADER = sessdrv.CASE_HEADER
DEFAULT_MAX = 1048576


# ============================================================================================ store and engines
def make_seed_db(work):
    """A store with one object of every stored type, an active AES key (1), a pre-active AES key (2) and an RSA pair."""
    path = os.path.join(str(work), 'seed-%d.db' % os.getpid())      # pid: two runs of the same check must not share a store
    eng = kdrv.Engine(path=path)
    M = E.CryptographicUsageMask
    eng.request([kdrv.create(mask=(M.ENCRYPT, M.DECRYPT, M.MAC_GENERATE, M.DERIVE_KEY), names=('k1',))])     # 1
    eng.request([kdrv.activate('1')])
    eng.request([kdrv.create(names=('k2',))])                                                                  # 2
    eng.request([kdrv.create_key_pair()])                                                                      # 3 pub?, 4
    for t in kdrv.STORED_TYPES:                                                                                # 5..11
        eng.request([kdrv.register(t)])
    info = {'uids': eng.uids()}
    for r in eng.dump().get('managed_objects', []):
        if r['class_type'] == 'PrivateKey' and r['uid'] in (3, 4):
            info['private'] = str(r['uid'])
        if r['class_type'] == 'PublicKey' and r['uid'] in (3, 4):
            info['public'] = str(r['uid'])
    eng.request([kdrv.activate(info['private'])])
    eng.request([kdrv.activate(info['public'])])
    eng.engine._data_store.dispose()
    return path, info


class Pool:
    """Engines on private copies of the seed store."""

    def __init__(self, ctx, seed_path):
        self.ctx, self.seed, self.n, self.live = ctx, seed_path, 0, []

    def fresh(self):
        self.n += 1
        p = os.path.join(str(self.ctx.work), 'e%05d-%d.db' % (self.n, os.getpid()))
        shutil.copyfile(self.seed, p)
        px = sessdrv.EngineProxy(kdrv.Engine(path=p))
        self.live.append(px)
        return px

    def release(self, px):
        px.eng.close()
        if px in self.live:
            self.live.remove(px)

    def close(self):
        for px in list(self.live):
            self.release(px)


def masked(dump):
    """Store dump with generated key material reduced to its length (two engines generate different keys)."""
    out = copy.deepcopy(dump)
    for r in out.get('managed_objects', []):
        if isinstance(r.get('value'), str):
            r['value'] = '<key material>'
    for t in out:
        out[t].sort(key=lambda r: repr(sorted(r.items())))
    return out


# ============================================================================================ valid requests
def catalogue(info):
    """[(label, items)] - one request of every operation the parser knows (engine-supported or not)."""
    A = E.CryptographicAlgorithm
    cp = kdrv.crypto_params(block_cipher_mode=E.BlockCipherMode.CBC, padding_method=E.PaddingMethod.PKCS5,
                            cryptographic_algorithm=A.AES)
    sp = kdrv.crypto_params(digital_signature_algorithm=E.DigitalSignatureAlgorithm.SHA256_WITH_RSA_ENCRYPTION,
                            padding_method=E.PaddingMethod.PKCS1v15, hashing_algorithm=E.HashingAlgorithm.SHA_256,
                            cryptographic_algorithm=A.RSA)
    mp = kdrv.crypto_params(cryptographic_algorithm=A.HMAC_SHA256)
    out = [
        ('create', [kdrv.create(names=('n',))]),
        ('create_key_pair', [kdrv.create_key_pair()]),
        ('get', [kdrv.get('1')]),
        ('get_missing', [kdrv.get('999')]),
        ('get_attributes', [kdrv.get_attributes('1')]),
        ('get_attribute_list', [kdrv.get_attribute_list('1')]),
        ('activate', [kdrv.activate('2')]),
        ('revoke', [kdrv.revoke('2')]),
        ('destroy', [kdrv.destroy('2')]),
        ('locate', [kdrv.locate()]),
        ('locate_name', [kdrv.locate([kdrv.attr('NAME', kdrv.name_value('k1'))])]),
        ('query', [kdrv.query()]),
        ('discover_versions', [kdrv.discover_versions()]),
        ('encrypt', [kdrv.encrypt('1', cp, b'0123456789abcdef', iv=b'\x01' * 16)]),
        ('decrypt', [kdrv.decrypt('1', cp, b'\x07' * 32, iv=b'\x01' * 16)]),
        ('sign', [kdrv.sign(info['private'], sp, b'data')]),
        ('signature_verify', [kdrv.signature_verify(info['public'], sp, b'data', b'\x00' * 128)]),
        ('mac', [(E.Operation.MAC, payloads.MACRequestPayload(unique_identifier=cattrs.UniqueIdentifier('1'),
                                                               cryptographic_parameters=mp, data=cobjects.Data(b'data')))]),
        ('derive_key', [kdrv.derive_key(['1'], params=None)]),
        ('modify_attribute', [kdrv.modify_attribute_v1('1', kdrv.attr('NAME', kdrv.name_value('k1b'), 0))]),
        ('delete_attribute', [kdrv.delete_attribute_v1('1', 'Name', 0)]),
        ('batch2', [kdrv.get_attribute_list('1'), kdrv.get('5')]),
        ('batch3', [kdrv.create(), kdrv.get(), kdrv.destroy()]),
        ('batch_create_activate', [kdrv.create(), kdrv.activate()]),
        ('batch_register_get_attrs', [kdrv.register(kdrv.OT.SECRET_DATA), kdrv.get_attribute_list(), kdrv.get()]),
        ('rekey', [(E.Operation.REKEY, payloads.RekeyRequestPayload(unique_identifier='1'))]),
        ('check', [(E.Operation.CHECK, payloads.CheckRequestPayload(unique_identifier='1'))]),
        ('rekey_key_pair', [(E.Operation.REKEY_KEY_PAIR, payloads.RekeyKeyPairRequestPayload())]),
    ]
    for t in kdrv.STORED_TYPES:
        out.append(('register_' + t.name.lower(), [kdrv.register(t)]))
    return out


def catalogue_v2(info):
    return [
        ('set_attribute', [kdrv.set_attribute('1', kdrv.attr_value('SENSITIVE', True))]),
        ('modify_attribute2', [kdrv.modify_attribute_v2('1', kdrv.attr_value('SENSITIVE', False))]),
        ('delete_attribute2', [kdrv.delete_attribute_v2('1', reference=kdrv.attr_ref2('Name'))]),
        # the result has no attribute at all: GetAttributesResponsePayload.write raises under 2.0 (repaired session answers
        # GENERAL_FAILURE instead of nothing, /repo commit d6c2cec)
        ('get_attributes_unset', [kdrv.get_attributes('1', ['Bogus Name'])]),
        ('get_attributes_unset2', [kdrv.get_attributes('5', ['Contact Information', 'Application Specific Information'])]),
    ]


def valid_requests(info):
    """[(label, version, max_size, bytes)] - every catalogue request under every version it can be written in."""
    builder = kdrv.Engine.build
    out = []
    for v in kdrv.VERSIONS:
        cat = catalogue(info) + (catalogue_v2(info) if v >= (2, 0) else [])
        for label, items in cat:
            try:
                req = builder(None, copy.deepcopy(items), version=v)
                out.append((label, v, None, sessdrv.encode_request(req, v)))
            except Exception:
                continue                      # this operation/field does not exist under this version
    return out


def with_max_size(info, label, v, m):
    items = dict(catalogue(info))[label]
    req = kdrv.Engine.build(None, copy.deepcopy(items), version=v, max_size=m)
    return sessdrv.encode_request(req, v)


# ============================================================================================ independent framing / walking
def frames_py(stream):
    """Frames of a byte stream by the specification: 8-byte TTLV header, 4-byte big-endian length at offset 4."""
    out, pos = [], 0
    while len(stream) - pos >= 8:
        ln = struct.unpack('>I', stream[pos + 4:pos + 8])[0]
        if len(stream) - pos - 8 < ln:
            break
        out.append(stream[pos:pos + 8 + ln])
        pos += 8 + ln
    return out


def walk(buf, base=0, depth=0, out=None):
    """Lenient item walk: [(offset, tag, type, length, depth)] of every item reachable through structures."""
    if out is None:
        out = []
    pos = 0
    while len(buf) - pos >= 8 and len(out) < 400 and depth < 30:
        tag = int.from_bytes(buf[pos:pos + 3], 'big')
        typ = buf[pos + 3]
        ln = struct.unpack('>I', buf[pos + 4:pos + 8])[0]
        out.append((base + pos, tag, typ, ln, depth))
        padded = ln + (-ln) % 8
        if pos + 8 + padded > len(buf):
            break
        if typ == 1:
            walk(buf[pos + 8:pos + 8 + ln], base + pos + 8, depth + 1, out)
        pos += 8 + padded
    return out


FIXED_LEN = {2: 4, 3: 8, 5: 4, 9: 8, 10: 4}      # Integer, Long Integer, Enumeration, Date-Time, Interval


def primitive_overrun(buf, values=True):
    """Independent of PyKMIP (own walk over the TTLV tree, rules from KMIP 1.x section 9.1): the first primitive item
    (document order, standard/extension tag) that no reader can decode, as (offset, type, declared length, bytes left,
    rule) - or None.  Rules:
      overrun   the declared value (plus padding) does not fit into what is left of the enclosing structure
      length    Integer/Enumeration/Interval not 4 bytes, Long Integer/Date-Time not 8, Big Integer not a positive multiple of 8
      padding   a padding byte is not zero
      boolean   a Boolean whose 8 bytes are neither 0 nor 1
      utf-8     a Text String whose bytes are not valid UTF-8 (judged by CPython's strict decoder, in this oracle only)
    (the last three only with values=True).  Not reported: structures that overrun their container (PyKMIP reads 'up
    to the end of the container', every field is still present; upstream's own test vectors carry such lengths) and the
    Boolean LENGTH field, which PyKMIP ignores."""
    def go(pos, end, depth=0):
        while end - pos >= 8 and depth < 100:
            typ = buf[pos + 3]
            ln = struct.unpack('>I', buf[pos + 4:pos + 8])[0]
            padded = ln + (-ln) % 8
            fits = pos + 8 + padded <= end
            if typ == 1:
                r = go(pos + 8, min(pos + 8 + ln, end), depth + 1)
                if r:
                    return r
                if not fits:
                    return None                      # lenient reading: the structure ends with its container
            else:
                known = buf[pos] in (0x42, 0x54) and 2 <= typ <= 10
                left = end - pos - 8
                if not fits:
                    if known and not (typ == 6 and left >= 8):
                        return (pos, typ, ln, left, 'overrun')
                    return None
                if known:
                    if typ in FIXED_LEN and ln != FIXED_LEN[typ] or typ == 4 and (ln == 0 or ln % 8):
                        return (pos, typ, ln, left, 'length')
                    if values:
                        body = buf[pos + 8:pos + 8 + ln]
                        if typ != 6 and any(buf[pos + 8 + ln:pos + 8 + padded]):
                            return (pos, typ, ln, left, 'padding')
                        if typ == 6 and int.from_bytes(buf[pos + 8:pos + 16], 'big') not in (0, 1):
                            return (pos, typ, ln, left, 'boolean')
                        if typ == 7:
                            try:
                                bytes(body).decode('utf-8')
                            except UnicodeDecodeError:
                                return (pos, typ, ln, left, 'utf-8')
            pos += 8 + padded
        return None
    if len(buf) < 8 or buf[3] != 1:
        return None
    return go(8, len(buf))


def message_level(buf):
    """Independent of PyKMIP, message level (KMIP 1.x section 6/7.1): a Request Message is a Request Header followed by
    exactly Batch Count batch items.  Reported (-> the request cannot be decoded):
      header       the first item of the message is not a Request Header structure, or the header lacks its Protocol
                   Version (first field) or its Batch Count
      batch-count  the header promises MORE batch items than directly follow it (frame cut behind an item, count
                   corrupted upwards, a later item re-tagged)
    Not reported: more items than promised, or anything else behind the promised items - PyKMIP stops reading after
    Batch Count items, like it ignores bytes behind the message (lenient, nothing promised is missing)."""
    if len(buf) < 8 or buf[:4] != b'\x42\x00\x78\x01':
        return None                                   # not a request message at all: any reader refuses it
    end = min(len(buf), 8 + struct.unpack('>I', buf[4:8])[0])
    kids, pos = [], 8
    while end - pos >= 8:
        ln = struct.unpack('>I', buf[pos + 4:pos + 8])[0]
        kids.append((pos, buf[pos:pos + 3], buf[pos + 3], ln))
        pos += 8 + ln + (-ln) % 8
    if not kids or kids[0][1] != b'\x42\x00\x77' or kids[0][2] != 1:
        return ('header', 'the message does not start with a Request Header')
    hpos, _, _, hln = kids[0]
    hend = min(end, hpos + 8 + hln)
    fields, pos = [], hpos + 8
    while hend - pos >= 8:
        ln = struct.unpack('>I', buf[pos + 4:pos + 8])[0]
        fields.append((pos, buf[pos:pos + 3], buf[pos + 3], ln))
        pos += 8 + ln + (-ln) % 8
    if not fields or fields[0][1] != b'\x42\x00\x69':
        return ('header', 'the Request Header does not start with a Protocol Version')
    counts = [f for f in fields if f[1] == b'\x42\x00\x0d' and f[2] == 2 and f[3] == 4 and f[0] + 12 <= hend]
    if not counts:
        return ('header', 'the Request Header has no Batch Count')
    count = struct.unpack('>i', buf[counts[0][0] + 8:counts[0][0] + 12])[0]
    present = 0
    for k in kids[1:]:
        if k[1] == b'\x42\x00\x0f' and k[2] == 1:
            present += 1
        else:
            break
    if count > present:
        return ('batch-count', 'Batch Count %d but only %d batch item(s) follow the header' % (count, present))
    return None


SUPPORTED_VERSIONS = {(1, 0), (1, 1), (1, 2), (1, 3), (1, 4), (2, 0)}


def version_rule(buf):
    """Independent of PyKMIP: the (major, minor) the Request Header announces, when it is not one of the six protocol
    versions the server supports - such a request must be refused as a whole.  None when supported or when the header
    has no readable Protocol Version (the message-level rule speaks then)."""
    if len(buf) < 40 or buf[:4] != b'\x42\x00\x78\x01' or buf[8:12] != b'\x42\x00\x77\x01' or buf[16:20] != b'\x42\x00\x69\x01':
        return None
    if buf[24:32] != b'\x42\x00\x6a\x02\x00\x00\x00\x04' or len(buf) < 56 or buf[40:48] != b'\x42\x00\x6b\x02\x00\x00\x00\x04':
        return None
    v = (struct.unpack('>i', buf[32:36])[0], struct.unpack('>i', buf[48:52])[0])
    return None if v in SUPPORTED_VERSIONS else v


def version_space():
    minors = list(range(10)) + [10, 11, 20, 30, 40, 100, 255, 2 ** 31 - 1, -1, -2 ** 31]
    return [(ma, mi) for ma in (0, 1, 2, 3, -1, 2 ** 31 - 1) for mi in minors if (ma, mi) not in SUPPORTED_VERSIONS]


def with_version(b, v):
    """The same request announcing protocol version v (header layout as written by PyKMIP: version first)."""
    assert b[24:28] == b'\x42\x00\x6a\x02' and b[40:44] == b'\x42\x00\x6b\x02'
    return b[:32] + struct.pack('>i', v[0]) + b[36:48] + struct.pack('>i', v[1]) + b[52:]


def message_corruptions(b):
    """Cut a request exactly behind each of its batch items (frame length recomputed), raise / lower its Batch Count,
    re-tag a later batch item - the message-level counterpart of the length inflations."""
    out = []
    kids = [it for it in walk(b) if it[4] == 1]                  # children of the message
    items = [it for it in kids if it[1] == 0x42000F]
    n = len(items)
    for k in range(1, n):                                        # keep items 1..k
        out.append(('cut-behind-item%d' % k, reframe(b[:items[k][0]])))
    for off, tag, typ, ln, d in walk(b):
        if tag == 0x42000D and typ == 2:
            for new in (n + 1, n + 2, 2 ** 31 - 1, n - 1, 0):
                if new != n and new >= 0:
                    out.append(('count%+d' % (new - n) if new < 2 ** 31 - 1 else 'count-max', b[:off + 8] + struct.pack('>i', new) + b[off + 12:]))
    for j in range(1, n):
        for newtag in (0x42000D, 0x42000E, 0x420010, 0x54000F):
            out.append(('retag-item%d' % (j + 1), b[:items[j][0]] + newtag.to_bytes(3, 'big') + b[items[j][0] + 3:]))
    return out


def _ttlv(tag, typ, body, length=None):
    ln = len(body) if length is None else length
    return tag.to_bytes(3, 'big') + bytes([typ]) + struct.pack('>I', ln) + body + b'\x00' * ((-len(body)) % 8)


def envelope_corruptions(b):
    """Optional envelope fields of the request header and of the first batch item, present with a body that is not
    well-formed TTLV, while every enclosing length (batch item / header, message, frame) is consistent: Message
    Extension at the end of the batch item, Authentication / Batch Error Continuation Option / Time Stamp / Maximum
    Response Size / Asynchronous Indicator in the header.  Bodies: raw garbage, an inner item that overruns the field, a
    structure cut in the middle of an inner header, an inner primitive with an impossible length."""
    bodies = [('garbage', b'\xff' * 16), ('garbage-odd', bytes(range(1, 14))),
              ('inner-overrun', b'\x42\x00\x7d\x07\x00\x00\x01\x00' + b'abcdefgh'),
              ('cut-header', _ttlv(0x42007D, 7, b'vendor') + b'\x42\x00\x7d\x07'),
              ('bad-int', b'\x42\x00\x0d\x02\x00\x00\x00\x03\x00\x00\x00\x00\x00\x00\x00\x00'),
              ('nested-overrun', _ttlv(0x420063, 1, _ttlv(0x42007D, 7, b'x'), length=64))]
    kids = [it for it in walk(b) if it[4] == 1]
    header = [it for it in kids if it[1] == 0x420077]
    items = [it for it in kids if it[1] == 0x42000F]
    out = []

    def insert(at, container_off, field):
        """insert `field` at offset `at` inside the structure at container_off; fix that structure's and the message's length"""
        m = bytearray(b[:at] + field + b[at:])
        for off in {container_off, 0}:
            ln = struct.unpack('>I', m[off + 4:off + 8])[0]
            m[off + 4:off + 8] = struct.pack('>I', ln + len(field))
        return bytes(m)
    if items:
        off, tag, typ, ln, d = items[0]
        end = off + 8 + ln
        for name, body in bodies:
            out.append(('envelope-extension-' + name, insert(end, off, _ttlv(0x420051, 1, body))))
    if header:
        off, tag, typ, ln, d = header[0]
        fields = [it for it in walk(b) if it[4] == 2 and off < it[0] < off + 8 + ln]
        count = [it for it in fields if it[1] == 0x42000D]
        if count:
            at = count[0][0]
            for name, body in bodies[:4]:
                out.append(('envelope-authentication-' + name, insert(at, off, _ttlv(0x42000C, 1, body))))
            out.append(('envelope-timestamp-len4', insert(at, off, _ttlv(0x420092, 9, b'\x00\x00\x00\x01'))))
            out.append(('envelope-maxsize-len8', insert(at, off, _ttlv(0x420050, 2, b'\x00' * 8))))
            out.append(('envelope-async-value2', insert(at, off, _ttlv(0x420007, 6, b'\x00' * 7 + b'\x02'))))     # (the Boolean LENGTH field is ignored by PyKMIP: not used)
            out.append(('envelope-batchoption-garbage', insert(at, off, _ttlv(0x42000E, 5, b'\xff\xff\xff\xff\xff\xff'))))
    return out


BAD_UTF8 = [b'\xff', b'\xfe', b'\x80', b'\xbf', b'\xc3', b'\xc0\xaf', b'\xed\xa0\x80', b'\xf8', b'\xe2\x82', b'\xf4\x90\x80\x80']


def value_corruptions(b):
    """The structure stays intact (all tags, types, lengths, padding right); single VALUE bytes are replaced so that
    the primitive breaks a rule of its type: text strings get bytes that are not UTF-8 (0xFF/0xFE, a stray continuation
    byte, a lead byte without continuation at the end, an overlong form, a surrogate, a 5-byte lead, a code point above
    U+10FFFF), Booleans get the value 2 / 2^63, padding gets a non-zero byte."""
    out = []
    for off, tag, typ, ln, d in walk(b):
        if off == 0:
            continue
        v0 = off + 8
        if typ == 7 and ln >= 1:
            for bad in BAD_UTF8:
                if len(bad) <= ln:
                    for at in sorted({0, ln - len(bad), (ln - len(bad)) // 2}):
                        if bad in (b'\xc3', b'\xe2\x82') and at != ln - len(bad):
                            continue                  # a lead byte is only certainly wrong when nothing can follow it
                        out.append(('badutf8', b[:v0 + at] + bad + b[v0 + at + len(bad):]))
        if typ == 6:
            out.append(('badbool', b[:v0] + b'\x00' * 7 + b'\x02' + b[v0 + 8:]))
            out.append(('badbool', b[:v0] + b'\x80' + b'\x00' * 7 + b[v0 + 8:]))
        if typ in (2, 5, 10):
            out.append(('badpad', b[:v0 + 7] + b'\x01' + b[v0 + 8:]))
        if typ in (7, 8) and ln % 8:
            out.append(('badpad', b[:v0 + ln] + b'\x07' + b[v0 + ln + 1:]))
    return out


def inflations(b, structures=False):
    """One INNER length field raised by +8, +16 or to 0x7ffffff8; every outer length and the frame length stay
    correct (the frame is exactly these bytes): the item then claims more than its enclosing structure holds."""
    out = []
    for off, tag, typ, ln, d in walk(b):
        if off == 0 or (typ == 1 and not structures):
            continue
        for new in (ln + 8, ln + 16, 0x7ffffff8):
            out.append(('inflate-t%d+%s' % (typ, 'max' if new == 0x7ffffff8 else new - ln), b[:off + 4] + struct.pack('>I', new) + b[off + 8:]))
    return out


def reframe(b):
    """Make the outer length field tell the truth (the frame is then exactly these bytes)."""
    if len(b) < 8:
        b = b + b'\x00' * (8 - len(b))
    return b[:4] + struct.pack('>I', len(b) - 8) + b[8:]


def mutations(b, rng, per_kind):
    """Grammar-aware corruptions of one valid request: [(kind, frame bytes)], every frame honestly framed."""
    items = walk(b)
    inner = [it for it in items if it[0] > 0]
    out = []

    def put(kind, m):
        out.append((kind, reframe(bytes(m))))

    def pick(xs, n):
        xs = list(xs)
        return xs if len(xs) <= n else rng.sample(xs, n)

    for off, tag, typ, ln, d in pick(inner, per_kind):
        for delta_kind, new in (('len+1', ln + 1), ('len-1', ln - 1), ('len+8', ln + 8), ('len-8', ln - 8), ('len0', 0),
                                ('len2^31', 2 ** 31), ('len2^32-1', 2 ** 32 - 1)):
            if 0 <= new < 2 ** 32 and new != ln:
                put(delta_kind, b[:off + 4] + struct.pack('>I', new) + b[off + 8:])
    for off, tag, typ, ln, d in pick(items, per_kind):
        for newtag in (0x000000, 0xFFFFFF, 0x420001, 0x540001, tag ^ 1):
            put('tag', b[:off] + newtag.to_bytes(3, 'big') + b[off + 3:])
        for newtyp in [t for t in (0, 1, 2, 5, 7, 8, 11, 12, 255) if t != typ][:5]:
            put('type', b[:off + 3] + bytes([newtyp]) + b[off + 4:])
    for off, tag, typ, ln, d in pick(inner, per_kind * 2):
        put('trunc@item', b[:off])
        put('trunc@value', b[:off + 8])
    for off, tag, typ, ln, d in items:
        if tag == 0x42000D and typ == 2:                                      # Batch Count
            for n in (0, 2, 7, 2 ** 31 - 1, -1):
                put('batchcount', b[:off + 8] + struct.pack('>i', n) + b[off + 12:])
        if tag == 0x42006A and typ == 2:                                      # Protocol Version Major (Minor follows)
            for ma, mi in ((0, 9), (1, 5), (1, 9), (2, 1), (3, 0), (-1, 0), (2 ** 31 - 1, 0), (1, -1)):
                m = bytearray(b)
                m[off + 8:off + 12] = struct.pack('>i', ma)
                m[off + 24:off + 28] = struct.pack('>i', mi)
                put('version', m)
    for off, tag, typ, ln, d in pick([it for it in items if it[2] == 5], per_kind):
        for val in (0, 0x7FFFFFFF, 0xFFFFFFFF, 0x80000000):
            put('enum', b[:off + 8] + struct.pack('>I', val) + b[off + 12:])
    for _ in range(per_kind):
        m = bytearray(b)
        k = rng.choice((1, 1, 2, 5))
        for _ in range(k):
            m[rng.randrange(8, len(m))] = rng.randrange(256)
        put('byteflip' if k == 1 else 'byteflips', m)
    # extra bytes after the message, duplicated item, item removed
    put('trailing', b + b'\x00' + bytes(rng.randrange(256) for _ in range(7)))     # junk that cannot be taken for an item
    if len(inner) > 2:
        off, tag, typ, ln, d = rng.choice(inner)
        end = off + 8 + ln + (-ln) % 8
        put('dup-item', b[:end] + b[off:end] + b[end:])
        put('drop-item', b[:off] + b[end:])
    return out


def heavy(frame):
    """A frame that is (or may decode as) a request for an absurdly large key: a Cryptographic Length above 4096 bits.
    The engine would start generating it (RSA 2^24 bits does not finish); that is resource use of a *valid* request,
    not this property's subject, so the generator leaves such frames out."""
    for off, tag, typ, ln, d in walk(frame):
        if tag == 0x42002A and typ == 2 and len(frame) >= off + 12:
            if not 0 <= struct.unpack('>i', frame[off + 8:off + 12])[0] <= 4096:
                return True
    return False


def nested(depth, tag=0x420078, leaf=b''):
    body = leaf
    for _ in range(depth):
        body = tag.to_bytes(3, 'big') + b'\x01' + struct.pack('>I', len(body)) + body
    return body


def special_frames(rng, valid):
    out = [('empty-struct', reframe(b'\x42\x00\x78\x01\x00\x00\x00\x00')),
           ('zero-header', b'\x00' * 8),
           ('deep-1000', nested(1000)),
           ('deep-200-attr', nested(200, 0x420008)),
           ('response-as-request', reframe(b'\x42\x00\x7b\x01\x00\x00\x00\x00' + b'\x00' * 16))]
    # a valid request whose payload is replaced by deep nesting
    b = valid[0][3]
    its = walk(b)
    pay = [it for it in its if it[1] == 0x420079]
    if pay:
        off = pay[0][0]
        out.append(('deep-payload', reframe(b[:off] + nested(300, 0x420079))))
    for n in (0, 1, 7, 8, 9, 64, 333):
        out.append(('raw-random', reframe(b'\x42\x00\x78\x01\x00\x00\x00\x00' + bytes(rng.randrange(256) for _ in range(n)))))
        out.append(('raw-random-hdr', reframe(bytes(rng.randrange(256) for _ in range(8 + n)))))
    return out


def compositions(n):
    """Every way to cut n bytes into non-empty chunks."""
    for mask in range(1 << (n - 1)) if n > 0 else []:
        sizes, cur = [], 1
        for i in range(n - 1):
            if mask >> i & 1:
                sizes.append(cur)
                cur = 1
            else:
                cur += 1
        sizes.append(cur)
        yield sizes


def random_chunking(n, rng):
    style = rng.randrange(6)
    if style == 0 or n == 0:
        return [n] if n else []
    if style == 1:
        k = rng.choice((1, 2, 3, 7, 8, 9))
        return [k] * (n // k) + ([n % k] if n % k else [])
    if style == 2:                                   # header split off, body whole
        return [min(8, n)] + ([n - 8] if n > 8 else [])
    if style == 3:
        k = rng.choice((4095, 4096, 4097, 5000))
        return [k] * (n // k) + ([n % k] if n % k else [])
    sizes, left = [], n
    while left:
        s = min(left, rng.choice((1, 1, 2, 3, 5, 8, 13, 40, 200, 1000, 4096, 9000)))
        sizes.append(s)
        left -= s
    return sizes


# frame kinds made by changing ONE place of a valid request: every item of the original is read by any reader, so a
# primitive that breaks a rule of its type makes the request undecodable.  (Other kinds - several flips, duplicated or
# re-tagged items, junk after the message - can put a broken value where PyKMIP legitimately never looks.)
STRICT_KINDS = ('badutf8', 'badbool', 'badpad', 'byteflip', 'tag', 'type', 'enum', 'version', 'batchcount', 'good', 'valid', 'max', 'maxsmall', 'refused') + \
    tuple('inflate-t%d+%s' % (t, x) for t in range(1, 11) for x in ('8', '16', 'max')) + \
    ('len+1', 'len-1', 'len+8', 'len-8', 'len0', 'len2^31', 'len2^32-1', 'trunc@item', 'trunc@value')


# ============================================================================================ direct oracle
def oracle_connection(ctx, spec, obs, calls, meta, expect_frames=None):
    """The property, evaluated on what the connection record shows (no model).  meta[i] (optional) =
    {'max': requested maximum response size or None, 'kind': ...} for frame i."""
    hits = []

    def hit(sig, what, extra=None):
        w = {'stream_hex': spec['stream'].hex() if len(spec['stream']) <= 4096 else spec['stream'][:4096].hex() + '...',
             'stream_len': len(spec['stream']), 'chunk_sizes': spec['sizes'][:64], 'cert': spec['cert'], 'tls': spec['tls'],
             'plugins': spec['plugins'], 'what': what, 'meta': meta}
        w.update(extra or {})
        hits.append(ctx.violation(sig, w, what))

    want = frames_py(spec['stream']) if expect_frames is None else expect_frames
    got = [f['frame'] for f in obs['frames']]
    if got != want:
        hit({'kind': 'framing'}, 'the session framed the stream differently from the 8-byte-header/length rule',
            {'frames_seen': len(got), 'frames_expected': len(want)})
    if obs['end'] != 'closed' or obs['stray_sent'] or obs['tail_calls']:
        hit({'kind': 'loop-end'}, 'the message loop did not end cleanly with ConnectionClosed after the last complete frame')
    ci = 0
    for i, f in enumerate(obs['frames']):
        m = meta[i] if meta and i < len(meta) else {}
        fx = {'frame_index': i, 'frame_hex': (f['frame'] or b'')[:2048].hex(), 'frame_kind': m.get('kind')}
        if m.get('no_oracle'):
            continue
        if f['escaped'] is not None:
            hit({'kind': 'escaped', 'exc': f['escaped']}, 'exception %s left _handle_message_loop' % f['escaped'], fx)
            continue
        if len(f['sent']) != 1:
            hit({'kind': 'responses-per-frame', 'n': len(f['sent'])}, '%d responses for one framed request' % len(f['sent']), fx)
            continue
        try:
            env = sessdrv.check_response_envelope(f['sent'][0])
        except sessdrv.TTLVError as e:
            hit({'kind': 'malformed-response'}, 'response is not a well-formed ResponseMessage: %s' % e,
                dict(fx, sent_hex=f['sent'][0][:1024].hex()))
            continue
        f['env'] = env
        decodable = obs['parse'][i] is not None
        changed = f['dump_before'] != f['dump_after']
        # an independent notion of "cannot be decoded".  Frames with several random byte flips may break a value inside a
        # region PyKMIP never reads (behind an item whose tag was also hit): only the overrun rule is applied to those.
        ov = primitive_overrun(f['frame'])
        if ov is not None and ov[4] != 'overrun' and not (m.get('kind') or '').split(':')[0] in STRICT_KINDS:
            ov = None
        if (m.get('kind') or '').startswith('envelope-'):
            # a valid request plus ONE defined envelope field whose body is broken: every reader has to read that field, so
            # 'not one well-formed TTLV item' (independent strict parser harness/ttlvparse.py) means 'cannot be decoded'
            import ttlvparse
            probs = ttlvparse.check(f['frame'])
            if probs:
                ok = (len(env['items']) == 1 and env['items'][0]['status'] == 1
                      and env['items'][0]['reason'] == sessdrv.REASON_INVALID_MESSAGE)
                if not ok or f['engine'] is not None or changed:
                    hit({'kind': 'undecodable-envelope-field-accepted', 'field': m['kind'].split(':')[0]},
                        'an envelope field with a malformed body (%s), yet the request was %s'
                        % (probs[0][:120], 'executed' if f['engine'] is not None else 'not answered with INVALID_MESSAGE'),
                        dict(fx, answer=env, store_changed=changed, engine_entered=f['engine'] is not None))
        uv = version_rule(f['frame'])
        if uv is not None:
            ok = (len(env['items']) == 1 and env['items'][0]['status'] == 1
                  and env['items'][0]['reason'] == sessdrv.REASON_INVALID_MESSAGE)
            executed = f['engine'] is not None and f['engine']['kind'] != 'kmiperr'       # entered AND not refused at the header
            if not ok or executed or changed:
                hit({'kind': 'unsupported-version-accepted', 'version': '%d.%d' % uv},
                    'the request announces protocol version %d.%d, which the server does not support, yet it was %s'
                    % (uv[0], uv[1], 'executed' if executed else 'not answered with INVALID_MESSAGE'),
                    dict(fx, answer=env, store_changed=changed, engine_entered=f['engine'] is not None))
        ml = message_level(f['frame'])
        if ml is not None:
            ok = (len(env['items']) == 1 and env['items'][0]['status'] == 1
                  and env['items'][0]['reason'] == sessdrv.REASON_INVALID_MESSAGE)
            if not ok or f['engine'] is not None or changed:
                hit({'kind': 'undecodable-message-accepted', 'rule': ml[0]},
                    '%s, yet the request was %s' % (ml[1], 'executed' if f['engine'] is not None else 'not answered with INVALID_MESSAGE'),
                    dict(fx, answer=env, store_changed=changed, engine_entered=f['engine'] is not None))
        if ov is not None:
            ok = (len(env['items']) == 1 and env['items'][0]['status'] == 1
                  and env['items'][0]['reason'] == sessdrv.REASON_INVALID_MESSAGE)
            if not ok or f['engine'] is not None or changed:
                hit({'kind': 'undecodable-item-accepted', 'rule': ov[4], 'item_type': ov[1]},
                    'the item of type %d at offset %d (declared length %d, %d bytes left in its structure) breaks the %s rule, yet the '
                    'request was %s' % (ov[1], ov[0], ov[2], ov[3], ov[4],
                                        'executed' if f['engine'] is not None else 'not answered with INVALID_MESSAGE'),
                    dict(fx, answer=env, store_changed=changed, engine_entered=f['engine'] is not None))
        if not decodable:
            ok = (len(env['items']) == 1 and env['items'][0]['status'] == 1
                  and env['items'][0]['reason'] == sessdrv.REASON_INVALID_MESSAGE)
            if not ok:
                hit({'kind': 'undecodable-not-invalid-message'}, 'undecodable request not answered with INVALID_MESSAGE',
                    dict(fx, answer=env))
            if f['engine'] is not None or changed:
                hit({'kind': 'undecodable-executed'}, 'a request that could not be decoded reached the engine or changed the store', fx)
        if f['engine'] is not None and f['engine']['kind'] == 'resp' and f['engine'].get('bytes') is not None:
            rb = f['engine']['bytes']
            asked = m.get('max', None) if 'max' in m else None
            limit = DEFAULT_MAX if asked is None else asked
            too_large = (len(env['items']) == 1 and env['items'][0]['status'] == 1
                         and env['items'][0]['reason'] == sessdrv.REASON_RESPONSE_TOO_LARGE)
            if len(rb) > limit and not too_large:
                hit({'kind': 'max-size-not-enforced', 'max': asked},
                    'response of %d bytes sent although the client asked for at most %r' % (len(rb), asked), fx)
            if len(rb) <= limit and f['sent'][0] != rb:
                hit({'kind': 'response-replaced', 'max': asked},
                    'response of %d bytes fits the maximum %r but something else was sent' % (len(rb), asked), fx)
    return hits


# ============================================================================================ case production
class Runner:
    def __init__(self, ctx, pool, info):
        self.ctx, self.pool, self.info = ctx, pool, info
        self.cases, self.meta = [], []

    def connection(self, px, spec, meta=None, kind='', dumps=True, expect_frames=None):
        calls0 = len(px.calls)
        obs, conn = sessdrv.run_spec(px, spec, dumps=dumps)
        calls = px.calls[calls0:]
        oracle_connection(self.ctx, spec, obs, calls, meta, expect_frames)
        try:
            self.cases.append(sessdrv.coq_case(spec, obs, calls))
            self.meta.append({'kind': kind, 'stream_len': len(spec['stream']), 'sizes': spec['sizes'][:40],
                              'stream_hex': spec['stream'][:600].hex(), 'frames': len(obs['frames'])})
        except ValueError as e:
            self.ctx.disagreement('session', {'kind': kind, 'unprintable': str(e), 'stream_hex': spec['stream'][:600].hex()})
        self.ctx.count('conn.' + kind)
        for i, f in enumerate(obs['frames']):
            cls = 'undecodable' if obs['parse'][i] is None else (f['engine']['kind'] if f['engine'] else 'not-entered')
            self.ctx.count('frame.' + cls)
            self.ctx.case_seen((f['frame'], tuple(spec['sizes']) if len(spec['sizes']) < 50 else len(spec['sizes'])),
                               nontrivial=True)
        return obs


def run(ctx):
    quick = ctx.tier == 'quick'
    ctx.cov['rule'] = (
        'one case = one scripted connection against the real KmipSession with a real engine behind it: '
        '(a) every catalogue request (26 operations incl. batches and engine-unsupported ones, 7 Register types) under every '
        'version 1.0-2.0 it encodes in; (b) grammar-aware corruptions of those (every length field +-1/+-8/0/2^31/2^32-1, '
        'tag and type flips, truncation at item boundaries, batch count != items, unsupported versions, unknown enum values, '
        'byte flips, duplicated/dropped items, deep nesting, raw random; every INNER length field of Register/Create/DeriveKey '
        'requests raised by +8/+16/to 0x7ffffff8 with outer lengths kept right; single value bytes of text strings replaced by '
        'bytes that are not UTF-8, Booleans set to 2, padding set non-zero, structure intact; multi-item requests cut behind each '
        'batch item, Batch Count raised/lowered, later items re-tagged; state-changing requests announcing every version of '
        '{0,1,2,3,-1,2^31-1} x {0..9,10,11,20,30,40,100,255,2^31-1,-1,-2^31} outside the six supported) in sequences bad*-then-good, each also replayed one '
        'frame per connection on a twin engine; (c) every composition of every stream of <= 12 bytes (quick: 8..12 bytes, 1-2 '
        'streams per length) and random chunkings (1..9000-byte chunks) of long streams incl. frames > 4096 bytes; '
        '(d) maximum response size in {absent, 0, 1, size-1, size, size+1, 2^31-1, -1} for five operations, plus sequences '
        'mixing small / absent / garbage on one connection (the limit must not outlive its request); (e) requests '
        'the engine refuses as a whole (stale/future time stamp, asynchronous, undo, version 9.9) and injected engine '
        'behaviours (crash, KmipError with ASCII/non-ASCII/unencodable text, reported maximum, unencodable response); (g) long histories on one connection (runs of 33/64/100/257 '
        'undecodable frames then good ones, 300 good requests, alternating); optional envelope fields (Message Extension, Authentication, '
        'Time Stamp, ...) with malformed bodies under consistent outer lengths; (f) a second '
        'connection (other thread, same engine) after a connection that sent refused and undecodable requests must be answered. '
        'Distinct = distinct (frame bytes, chunking); every case involves a real parse or a real framing decision.')
    ctx.regen(only=['enums'])
    ctx.prove('props/C12.v')

    rng = ctx.subrng('c12')
    seed_path, info = make_seed_db(ctx.work)
    pool = Pool(ctx, seed_path)
    R = Runner(ctx, pool, info)
    valid = valid_requests(info)
    ctx.count('valid.requests', len(valid))
    by_label = {}
    for lab, v, m, b in valid:
        by_label.setdefault(lab, []).append((v, b))

    try:
        # ---------------------------------------------------------------- (a) valid requests, several per connection
        px = pool.fresh()
        order = list(valid)
        rng.shuffle(order)
        for k in range(0, len(order), 6):
            group = order[k:k + 6]
            stream = b''.join(g[3] for g in group)
            spec = sessdrv.default_spec(stream, random_chunking(len(stream), rng))
            R.connection(px, spec, [{'kind': 'valid:' + g[0]} for g in group], kind='valid')
            if k % 60 == 54:
                pool.release(px)
                px = pool.fresh()
        pool.release(px)

        # ---------------------------------------------------------------- (b) bad* then good, with a twin engine
        n_src = 40 if quick else len(valid)
        per_kind = 2 if quick else 6
        sources = valid if len(valid) <= n_src else rng.sample(valid, n_src)
        bad = []
        for lab, v, m, b in sources:
            for kind, fr in mutations(b, rng, per_kind):
                bad.append((kind + ':' + lab, fr))
        bad += special_frames(rng, valid)
        # inner length fields that promise more than the enclosing structure holds, on requests with effects
        eff = [x for x in valid if (x[0].startswith('register_') or x[0] in ('create', 'create_key_pair', 'derive_key', 'modify_attribute'))
               and x[1] in (((1, 2), (2, 0)) if quick else kdrv.VERSIONS)]
        inflated = [(kind + ':' + lab, fr) for lab, v, m, b in eff for kind, fr in inflations(b, structures=not quick)]
        ctx.count('mutation.inflate-inner-length', len(inflated))
        # values that break the rule of their type inside an intact structure (text not UTF-8, Boolean not 0/1, padding not 0)
        texty = [x for x in valid if x[0] in ('create', 'register_symmetric_key', 'register_opaque_data', 'get', 'get_attributes', 'locate_name',
                                              'destroy', 'modify_attribute', 'set_attribute', 'activate')
                 and x[1] in (((1, 0), (1, 2), (2, 0)) if quick else kdrv.VERSIONS)]
        corrupted = [(kind + ':' + lab, reframe(fr)) for lab, v, m, b in texty for kind, fr in value_corruptions(b)]
        if quick and len(corrupted) > 900:
            corrupted = rng.sample(corrupted, 900)
        ctx.count('mutation.value-rule-broken', len(corrupted))
        # message level: cut behind a batch item, Batch Count up/down, later item re-tagged - first item changes state
        msgy = [x for x in valid if x[0] in ('create', 'batch3', 'batch_create_activate', 'batch_register_get_attrs', 'batch2', 'register_opaque_data')
                and x[1] in (((1, 0), (1, 2), (2, 0)) if quick else kdrv.VERSIONS)]
        msgbad = [(kind + ':' + lab, fr) for lab, v, m, b in msgy for kind, fr in message_corruptions(b)]
        ctx.count('mutation.message-level', len(msgbad))
        envy = [x for x in valid if (x[0], x[1]) in (('create', (1, 0)), ('create', (1, 2)), ('register_opaque_data', (1, 4)), ('create', (2, 0)),
                                                      ('batch_create_activate', (1, 2)), ('destroy', (1, 1)))]
        envbad = [(kind + ':' + lab, fr) for lab, v, m, b in envy for kind, fr in envelope_corruptions(b)]
        ctx.count('mutation.envelope-field', len(envbad))
        corrupted = corrupted + envbad
        # the version space: state-changing requests, otherwise valid, announcing a version the server does not support
        vbase = [x for x in valid if (x[0], x[1]) in (('create', (1, 1)), ('create', (1, 2)), ('register_opaque_data', (1, 3)),
                                                      ('batch_create_activate', (1, 4)), ('create', (2, 0)), ('destroy', (1, 0)))]
        vspace = version_space()
        vbad = [('version%d.%d:%s' % (v[0], v[1], lab), with_version(b, v)) for v in vspace
                for lab, bv, m, b in (vbase if not quick else [vbase[(v[1] + v[0]) % len(vbase)], vbase[(v[1] // 10) % len(vbase)]])]
        if quick:          # the collisions of a decimal reading (1.10 = 1.1, 1.20 = 1.2, ...) on the request encoded for that version
            for lab, bv, m, b in valid:
                if lab in ('create', 'batch_create_activate') and bv[0] == 1:
                    vbad += [('version1.%d:%s' % (mi, lab), with_version(b, (1, mi))) for mi in (bv[1] * 10, bv[1] * 100) if mi not in (0,)]
        ctx.count('mutation.unsupported-version', len(vbad))
        corrupted = corrupted + vbad
        corrupted = corrupted + msgbad
        inflated = inflated + corrupted
        small = [('maxsmall:%s' % lab, with_max_size(info, lab, v, m), m)
                 for lab in ('query', 'get', 'locate') for v in ((1, 0), (1, 4), (2, 0)) for m in (1, 64, -1)]
        small_max = {fr: m for _, fr, m in small}
        bad += [(k, fr) for k, fr, _ in small] * (2 if quick else 6)
        cap = 1500 if quick else 8000
        if len(bad) > cap:
            keep = special_frames(rng, valid) + [(k, fr) for k, fr, _ in small] * 2
            bad = rng.sample(bad, cap - len(keep)) + keep
        bad += inflated if quick or len(inflated) < 6000 else rng.sample(inflated, 6000)
        dropped = len(bad)
        bad = [x for x in bad if not heavy(x[1])]
        ctx.count('mutation.dropped-huge-key-length', dropped - len(bad))
        rng.shuffle(bad)
        probes = [x for x in valid if x[0] in ('get', 'create', 'locate', 'query', 'get_attributes', 'encrypt', 'batch2', 'get_attributes_unset')]
        pa, pb = pool.fresh(), pool.fresh()
        group_n = 0
        for k in range(0, len(bad), 4):
            group = bad[k:k + 4]
            good = rng.choice(probes)
            frames = [g[1] for g in group] + [good[3]]
            meta = [dict({'kind': g[0]}, **({'max': small_max[g[1]]} if g[1] in small_max else {})) for g in group] + [{'kind': 'good:' + good[0]}]
            stream = b''.join(frames)
            spec = sessdrv.default_spec(stream, random_chunking(len(stream), rng))
            obs = R.connection(pa, spec, meta, kind='bad-then-good', expect_frames=frames)
            # the twin serves the same frames, each on a connection of its own
            twin = []
            for fr in frames:
                o2, _ = sessdrv.run_spec(pb, sessdrv.default_spec(fr), dumps=False)
                twin.append(o2['frames'][0] if o2['frames'] else None)
            for i, (fa, fb) in enumerate(zip(obs['frames'], twin)):
                same = fb is not None and len(fa['sent']) == len(fb['sent']) == 1
                if same:
                    try:
                        ea, eb = sessdrv.check_response_envelope(fa['sent'][0]), sessdrv.check_response_envelope(fb['sent'][0])
                        same = ea == eb
                    except sessdrv.TTLVError:
                        same = fa['sent'] == fb['sent']
                if not same:
                    ctx.violation({'kind': 'next-request-affected', 'position': 'good' if i == len(frames) - 1 else 'bad'},
                                  {'frames_hex': [x[:1024].hex() for x in frames], 'index': i, 'kinds': [m['kind'] for m in meta]},
                                  'frame %d of a connection is answered differently from the same frame on a fresh connection' % i)
            if masked(pa.eng.dump()) != masked(pb.eng.dump()):
                ctx.violation({'kind': 'store-diverged'}, {'frames_hex': [x[:1024].hex() for x in frames], 'kinds': [m['kind'] for m in meta]},
                              'store after bad*-then-good differs from the store after the same frames on fresh connections')
            group_n += 1
            if group_n % 25 == 0:
                pool.release(pa), pool.release(pb)
                pa, pb = pool.fresh(), pool.fresh()
        pool.release(pa), pool.release(pb)

        # ---------------------------------------------------------------- (c) chunkings
        px = pool.fresh()
        g0 = by_label['get'][0][1]
        shorts = []
        for n in (range(8, 13) if quick else range(1, 13)):
            # n bytes: as many honest tiny frames as fit, then a truncated rest
            s1 = (b'\x42\x00\x78\x01' + struct.pack('>I', max(0, n - 8)) + bytes(range(max(0, n - 8))))[:n]
            s2 = (b'\x42\x00\x78\x01\x00\x00\x00\x00' + g0)[:n]
            s3 = (b'\x42\x00\x78\x01\x00\x00\x00\x01\x99' + b'\x42\x00\x78')[:n]
            shorts += ([s1] + ([s2] if n == 10 else []) + ([s3] if n == 11 else [])) if quick else [s1, s2, s3]
        for s in shorts:
            ref = None
            for sizes in compositions(len(s)):
                obs = R.connection(px, sessdrv.default_spec(s, sizes), None, kind='all-chunkings', dumps=False)
                sent = [f['sent'] for f in obs['frames']]
                if ref is None:
                    ref = sent
                elif sent != ref:
                    ctx.violation({'kind': 'chunk-dependent'}, {'stream_hex': s.hex(), 'sizes': sizes},
                                  'the answers depend on how the transport chunks the stream')
        big = kdrv.Engine.build(None, [kdrv.register(kdrv.OT.OPAQUE_DATA, kdrv.secret_for(kdrv.OT.OPAQUE_DATA, b'\x5a' * (5000 if quick else 70000)))])
        bigb = sessdrv.encode_request(big, (1, 2))
        idem = ('get', 'get_missing', 'get_attributes', 'get_attribute_list', 'query', 'discover_versions', 'check', 'locate_name')
        longs = [bigb + g0, g0 + bigb + g0, b''.join(x[3] for x in valid if x[0] in idem and x[1] in ((1, 0), (1, 4), (2, 0)))]
        for s in longs:
            ref = None
            for _ in range(6 if quick else 30):
                obs = R.connection(px, sessdrv.default_spec(s, random_chunking(len(s), rng)), None, kind='random-chunkings', dumps=False)
                sent = [sessdrv.check_response_envelope(x) for f in obs['frames'] for x in f['sent']]
                if ref is None:
                    ref = [(e['version'], [(i['status'], i['reason']) for i in e['items']]) for e in sent]
                elif [(e['version'], [(i['status'], i['reason']) for i in e['items']]) for e in sent] != ref:
                    ctx.violation({'kind': 'chunk-dependent'}, {'stream_len': len(s)}, 'the answers depend on the chunking of a long stream')
        # lying outer lengths: the frame boundary is where the length field says
        for lab, v, m, b in rng.sample(valid, 10 if quick else 60):
            for delta in (-8, -1, 1, 8, 2 ** 31):
                ln = struct.unpack('>I', b[4:8])[0] + delta
                if 0 <= ln < 2 ** 32:
                    s = b[:4] + struct.pack('>I', ln) + b[8:] + g0 + g0
                    R.connection(px, sessdrv.default_spec(s, random_chunking(len(s), rng)), None, kind='outer-length-lies')
        pool.release(px)

        # ---------------------------------------------------------------- (d) maximum response size
        px = pool.fresh()
        for lab in ('query', 'get', 'locate', 'get_attributes', 'discover_versions'):
            for v in (kdrv.VERSIONS if not quick else [(1, 0), (1, 2), (2, 0)]):
                c0 = len(px.calls)
                sessdrv.run_spec(px, sessdrv.default_spec(with_max_size(info, lab, v, None)), dumps=False)
                size = len(px.calls[c0]['bytes'])
                ms = [None, 0, 1, size - 1, size, size + 1, 2 ** 31 - 1, -1, -2 ** 31]
                frames = [with_max_size(info, lab, v, m) for m in ms]
                stream = b''.join(frames)
                R.connection(px, sessdrv.default_spec(stream, random_chunking(len(stream), rng)),
                             [{'kind': 'max:%s:%r' % (lab, m), 'max': m} for m in ms], kind='max-size')
                # the limit belongs to the request that carried it: small, absent, small, garbage, absent, ... on ONE connection
                junk = reframe(b'\x42\x00\x78\x01\x00\x00\x00\x00' + bytes(rng.randrange(256) for _ in range(24)))
                seq = [1, None, size - 1, None, 'junk', None, -1, 'junk', 0, 'junk', None, size, None]
                frames = [junk if m == 'junk' else with_max_size(info, lab, v, m) for m in seq]
                stream = b''.join(frames)
                R.connection(px, sessdrv.default_spec(stream, random_chunking(len(stream), rng)),
                             [{'kind': 'junk'} if m == 'junk' else {'kind': 'max:%s:%r' % (lab, m), 'max': m} for m in seq],
                             kind='max-size-mixed', expect_frames=frames)
        pool.release(px)
        # ---------------------------------------------------------------- (e) request-level refusals and engine faults
        px = pool.fresh()
        B = kdrv.Engine.build
        q = lambda **kw: sessdrv.encode_request(B(None, [kdrv.query()], version=(1, 2), **kw), (1, 2))
        empty = bytearray(sessdrv.encode_request(B(None, [], version=(1, 2)), (1, 2)))        # batch count 0
        for off, tag, typ, ln, d in walk(bytes(empty)):
            if tag == 0x42006A:
                empty[off + 8:off + 12] = struct.pack('>i', 9)
                empty[off + 24:off + 28] = struct.pack('>i', 9)
        refused = [('stale-time-stamp', q(time_stamp=1000)), ('future-time-stamp', q(time_stamp=2 ** 31 - 1)),
                   ('asynchronous', q(asynchronous=True)), ('undo', q(batch_option=E.BatchErrorContinuationOption.UNDO)),
                   ('version-9.9-no-items', bytes(empty)), ('no-items', sessdrv.encode_request(B(None, [], version=(1, 2)), (1, 2)))]
        stream = b''.join(x[1] for x in refused) + g0
        R.connection(px, sessdrv.default_spec(stream, random_chunking(len(stream), rng)),
                     [{'kind': 'refused:' + x[0]} for x in refused] + [{'kind': 'good:get'}], kind='request-refused')
        IF = E.ResultReason.INVALID_FIELD
        faults = [(('crash',), {}), (('kmiperr', IF, 'plain ASCII message'), {}), (('kmiperr', IF, 'caf\u00e9 \u20ac \U0001F511'), {}),
                  (('kmiperr', E.ResultReason.GENERAL_FAILURE, ''), {}), (('max', 5), {'max': 5}), (('max', 0), {'max': 0}),
                  (('max', -7), {'max': -7}), (('max', 10 ** 6), {'max': 10 ** 6}), (('unencodable',), {}),
                  # a message no real engine path produces (client text is decoded strictly): model tie only
                  (('kmiperr', IF, 'lone surrogate \udc80'), {'no_oracle': True})]
        for probe in (q(), g0, by_label['get_attributes_unset2'][0][1] if 'get_attributes_unset2' in by_label else g0):
            px.faults = [f for f, _ in faults]
            stream = probe * len(faults) + g0
            R.connection(px, sessdrv.default_spec(stream, random_chunking(len(stream), rng)),
                         [dict(m, kind='fault:' + f[0]) for f, m in faults] + [{'kind': 'good:get'}], kind='engine-faults')
            px.faults = []
        pool.release(px)
        # ---------------------------------------------------------------- (g) long histories on one connection
        # every frame is answered once whatever came before: runs of 33 / 64 / 100 / 257 undecodable frames, then good ones;
        # a long run of good requests; alternating; more bytes than any plausible per-connection budget
        px = pool.fresh()
        junk2 = reframe(b'\x42\x00\x78\x01\x00\x00\x00\x00' + b'\x42\x00\x77\x01\x00\x00\x00\x08' + b'\xee' * 8)
        histories = [('bad33', [junk2] * 33 + [g0, g0]), ('bad64', [junk2] * 64 + [g0]), ('bad100', [junk2] * 100 + [g0, junk2, g0]),
                     ('bad257', [junk2] * 257 + [g0]), ('good300', [q()] * 300 + [junk2, g0]),
                     ('alternate', [junk2, g0] * 80), ('bytes', [bigb] * (4 if quick else 40) + [junk2] * 40 + [g0])]
        if not quick:
            histories += [('bad1025', [junk2] * 1025 + [g0]), ('good1100', [q()] * 1100 + [g0])]
        for name, frames in histories:
            stream = b''.join(frames)
            R.connection(px, sessdrv.default_spec(stream, random_chunking(len(stream), rng)),
                         [{'kind': 'history:' + name}] * len(frames), kind='long-history', expect_frames=frames)
        pool.release(px)

        # ---------------------------------------------------------------- (f) a second connection is served too
        # "serves the next valid request normally" across connections of one engine: connection A (own thread) sends
        # requests that are decodable but refused as a whole (the engine raises inside process_request) or malformed,
        # then connection B (another thread) must still be answered.  Direct oracle only; a dedicated engine, because a
        # starved engine cannot be used any further.
        import threading
        px = pool.fresh()
        a_frames = [x[1] for x in refused] + [reframe(b'\x42\x00\x78\x01\x00\x00\x00\x00' + b'\xff' * 16), g0]
        for k, a_stream in enumerate([b''.join(a_frames), refused[0][1], refused[4][1] + g0]):
            res = {}

            hold = {'drained': threading.Event(), 'release': threading.Event()}

            def serve(name, stream, hold=None):
                spec = sessdrv.default_spec(stream)
                spec['hold'] = hold
                res[name] = sessdrv.run_spec(px, spec, dumps=False)[0]
            ta = threading.Thread(target=serve, args=('A', a_stream, hold), daemon=True)
            ta.start()
            hold['drained'].wait(60)                             # A has been answered and keeps its connection open
            tb = threading.Thread(target=serve, args=('B', g0 + q()), daemon=True)
            tb.start()
            tb.join(20)
            answered = 'B' in res and [len(f['sent']) for f in res['B']['frames']] == [1, 1]
            hold['release'].set()
            ta.join(20)
            ctx.count('conn.second-connection')
            ctx.case_seen(('second-connection', k), nontrivial=True)
            if 'A' not in res or not answered:
                ctx.violation({'kind': 'other-connection-not-served'},
                              {'connection_A_hex': a_stream.hex()[:4000], 'connection_B_hex': (g0 + q()).hex(),
                               'A_finished': 'A' in res, 'B_finished': 'B' in res},
                              'after connection A sent refused/undecodable requests, a second connection of the same engine got no answer within 20 s')
                break                                            # the engine is stuck; leave it alone
        else:
            pool.release(px)
    finally:
        pool.close()

    bad_idx = ctx.run_cases('session', HEADER, R.cases, 'check_conn', shard=120,
                            what='frames_conn + serve (Session/Framing.v, Session.v) vs KmipSession._handle_message_loop behind a scripted connection')
    for i in bad_idx[:20]:
        ctx.disagreement('session', R.meta[i])
    ctx.sample({'connection': R.meta[0]})
    ctx.sample({'connection': R.meta[len(R.meta) // 2]})
    ctx.cov['trusted_extra'] = [
        'harness/sessdrv.py: the fake connection (recv/sendall/getpeercert), the recording engine proxy, the printers to Coq terms',
        'the parser verdict and the engine outcome of every frame are taken from the real parser/engine (parameters of the model)',
        'independent TTLV reader and framing function of the direct oracle (harness/sessdrv.py, harness/c12.py)']


def replay(ctx, payload):
    """Re-run the recorded stream against the real session and print what the direct oracle says."""
    w = payload.get('input', {})
    if 'stream_hex' not in w or w['stream_hex'].endswith('...'):
        print('replay file has no complete stream; re-run bin/check C12 with VERIF_SEED=%s' % payload.get('seed'))
        return 2
    seed_path, info = make_seed_db(ctx.work)
    pool = Pool(ctx, seed_path)
    try:
        px = pool.fresh()
        spec = sessdrv.default_spec(bytes.fromhex(w['stream_hex']), w.get('chunk_sizes'),
                                    cert=((tuple(w['cert'][0]), w['cert'][1]) + ((w['cert'][2],) if len(w['cert']) > 2 else ())) if w.get('cert') else None,
                                    tls=w.get('tls', True), plugins=w.get('plugins', []))
        obs, _ = sessdrv.run_spec(px, spec)
        oracle_connection(ctx, spec, obs, px.calls, w.get('meta'))
        for i, f in enumerate(obs['frames']):
            print('frame', i, 'sent', [x.hex()[:80] for x in f['sent']], 'escaped', f['escaped'], 'engine', bool(f['engine']))
    finally:
        pool.close()
    n = len(ctx.violations) + len(ctx.known_hits)
    print('replay: %d oracle hit(s)' % n)
    return 1 if ctx.violations else 0
