"""Shared in-process driver for the PyKMIP server engine (tie K, DESIGN 5.5.1).

    eng = Engine()                          real KmipEngine on a fresh SQLite file under work/
    r   = eng.request([create(...), get()], version=(1, 2), user='alice', groups=None)
    r['error']   None | {'reason': 'INVALID_MESSAGE', 'message': ...}   (request-level KmipError raised by process_request)
    r['items']   [{'op', 'bid', 'status', 'reason', 'message', 'payload': plain dict | None, 'raw': ResponseBatchItem}]
    eng.dump()   canonical raw-SQL dump of every table (including orphaned child rows and sqlite_sequence)
    eng.restart() new KmipEngine object on the same database file
    eng.clock.t  fake time used by kmip.services.server.engine (seconds)

Everything attaches from outside; /repo is not modified.
"""
import copy
import logging
import os
import sqlite3
import tempfile
import time as _real_time
from pathlib import Path

from kmip.core import enums, objects as cobjects, attributes as cattrs, primitives, secrets, misc
from kmip.core import policy as core_policy
from kmip.core.factories import attributes as attr_factory
from kmip.core.factories import secrets as secret_factory
from kmip.core.messages import contents, messages, payloads
from kmip.services.server import engine as engine_mod
from kmip.core import exceptions as kexc

logging.getLogger('kmip').setLevel(logging.CRITICAL + 1)
logging.getLogger('sqlalchemy').setLevel(logging.CRITICAL + 1)

AF = attr_factory.AttributeFactory()
AT = enums.AttributeType
OT = enums.ObjectType
OP = enums.Operation
VERSIONS = [(1, 0), (1, 1), (1, 2), (1, 3), (1, 4), (2, 0)]
WORK = Path(__file__).resolve().parents[1] / 'work'


class FakeClock:
    """Stands in for the `time` module inside kmip.services.server.engine."""
    def __init__(self, t=1600000000):
        self.t = t

    def time(self):
        return self.t

    def __getattr__(self, name):
        return getattr(_real_time, name)


class Engine:
    def __init__(self, path=None, policies=None, clock=None, workdir=None):
        if path is None:
            d = Path(workdir or WORK)
            d.mkdir(parents=True, exist_ok=True)
            fd, path = tempfile.mkstemp(suffix='.db', dir=str(d))
            os.close(fd)
            os.unlink(path)
        self.path = str(path)
        self.policies = policies if policies is not None else copy.deepcopy(core_policy.policies)
        self.clock = clock or FakeClock()
        self.restart()

    def restart(self):
        engine_mod.time = self.clock
        self.engine = engine_mod.KmipEngine(policies=self.policies, database_path=self.path)
        self.engine._logger.setLevel(logging.CRITICAL + 1)
        return self

    def close(self):
        try:
            self.engine._data_store.dispose()
        except Exception:
            pass
        for suffix in ('', '-journal', '-wal', '-shm'):
            try:
                os.unlink(self.path + suffix)
            except OSError:
                pass

    # ------------------------------------------------------------------ requests
    def build(self, items, version=(1, 2), batch_option=None, batch_order=None, max_size=None,
              time_stamp=None, asynchronous=None, ids=None, auth=None):
        """items: list of (Operation, payload) or (Operation, payload, batch_id_bytes)."""
        batch = []
        n = len(items)
        for k, it in enumerate(items):
            op, payload = it[0], it[1]
            if len(it) > 2:
                bid = it[2]
            elif ids is False:
                bid = None
            elif ids is True or n > 1:
                bid = bytes([k + 1])
            else:
                bid = None
            batch.append(messages.RequestBatchItem(
                operation=primitives.Enumeration(enums.Operation, op, tag=enums.Tags.OPERATION),
                unique_batch_item_id=(contents.UniqueBatchItemID(bid) if bid is not None else None),
                request_payload=payload))
        hdr = messages.RequestHeader(
            protocol_version=contents.ProtocolVersion(*version),
            maximum_response_size=(contents.MaximumResponseSize(max_size) if max_size is not None else None),
            asynchronous_indicator=(contents.AsynchronousIndicator(asynchronous) if asynchronous is not None else None),
            authentication=auth,
            batch_error_cont_option=(contents.BatchErrorContinuationOption(batch_option) if batch_option is not None else None),
            batch_order_option=(contents.BatchOrderOption(batch_order) if batch_order is not None else None),
            time_stamp=(contents.TimeStamp(time_stamp) if time_stamp is not None else None),
            batch_count=contents.BatchCount(n))
        return messages.RequestMessage(request_header=hdr, batch_items=batch)

    def request(self, items, version=(1, 2), user='alice', groups=None, **kw):
        req = self.build(items, version=version, **kw)
        return self.process(req, user, groups)

    def process(self, req, user='alice', groups=None):
        engine_mod.time = self.clock
        try:
            resp, max_size, ver = self.engine.process_request(req, (user, groups))
        except kexc.KmipError as e:
            return {'error': {'reason': e.reason.name, 'message': str(e), 'status': e.status.name}, 'items': [], 'raw': None}
        out = {'error': None, 'items': [project_item(bi) for bi in resp.batch_items], 'raw': resp,
               'max_size': max_size, 'version': (ver.major, ver.minor),
               'header': {'version': (resp.response_header.protocol_version.major, resp.response_header.protocol_version.minor),
                          'batch_count': resp.response_header.batch_count.value,
                          'time_stamp': resp.response_header.time_stamp.value}}
        return out

    # ------------------------------------------------------------------ store observation
    def dump(self):
        """{table: sorted list of row dicts}, read with a separate sqlite3 connection."""
        con = sqlite3.connect(self.path)
        con.row_factory = sqlite3.Row
        out = {}
        try:
            tables = [r[0] for r in con.execute("select name from sqlite_master where type='table' order by name")]
            for t in tables:
                rows = [dict(r) for r in con.execute('select * from "%s"' % t)]
                for r in rows:
                    for k, v in list(r.items()):
                        if isinstance(v, (bytes, memoryview)):
                            r[k] = bytes(v).hex()
                rows.sort(key=lambda r: repr(sorted(r.items(), key=lambda kv: kv[0])))
                if rows:
                    out[t] = rows
        finally:
            con.close()
        return out

    def uids(self):
        return sorted(r['uid'] for r in self.dump().get('managed_objects', []))

    def next_uid(self):
        for r in self.dump().get('sqlite_sequence', []):
            if r['name'] == 'managed_objects':
                return r['seq'] + 1
        return 1


# ---------------------------------------------------------------------- projection of responses
def plain(x, depth=0):
    """Best-effort conversion of kmip.core objects into plain Python data."""
    import enum
    if x is None or isinstance(x, (bool, int, str, float)):
        return x
    if isinstance(x, (bytes, bytearray)):
        return bytes(x).hex()
    if isinstance(x, enum.Enum):
        return x.name
    if isinstance(x, (list, tuple)):
        return [plain(y, depth + 1) for y in x]
    if isinstance(x, dict):
        return {str(k): plain(v, depth + 1) for k, v in x.items()}
    if isinstance(x, primitives.Base) and hasattr(x, 'value') and not isinstance(x, primitives.Struct):
        return plain(x.value, depth + 1)
    if depth > 8:
        return repr(x)
    out = {'_class': type(x).__name__}
    names = set()
    for klass in type(x).__mro__:
        for n, v in vars(klass).items():
            if isinstance(v, property) and not n.startswith('_'):
                names.add(n)
    for n in vars(x):
        if n.startswith('_') and n[1:] in names:
            continue
        if not n.startswith('__') and n not in ('tag', 'type', 'length', 'logger', 'LENGTH', 'padding_length', 'pack_string',
                                                 'secret_factory', 'attribute_factory', 'value_factory', 'enum'):
            names.add(n)
    for n in sorted(names):
        try:
            v = getattr(x, n)
        except Exception:
            continue
        if callable(v):
            continue
        out[n.lstrip('_')] = plain(v, depth + 1)
    return out


def project_item(bi):
    return {
        'op': bi.operation.value.name if bi.operation is not None else None,
        'bid': bytes(bi.unique_batch_item_id.value).hex() if bi.unique_batch_item_id is not None else None,
        'status': bi.result_status.value.name,
        'reason': bi.result_reason.value.name if bi.result_reason is not None else None,
        'message': bi.result_message.value if bi.result_message is not None else None,
        'payload': plain(bi.response_payload) if bi.response_payload is not None else None,
        'raw': bi,
    }


def ok(item):
    return item['status'] == 'SUCCESS'


# ---------------------------------------------------------------------- attribute and payload builders
def attr(atype, value, index=None):
    """atype: enums.AttributeType or its name ('NAME', 'CRYPTOGRAPHIC_LENGTH', ...)."""
    if isinstance(atype, str):
        atype = AT[atype]
    return AF.create_attribute(atype, value, index)


def name_value(s, ntype=enums.NameType.UNINTERPRETED_TEXT_STRING):
    return cattrs.Name.create(s, ntype)


def raw_attr(name, value_obj, index=None):
    """An Attribute with an arbitrary (possibly unknown) name and a ready-made value object."""
    return cobjects.Attribute(
        attribute_name=cobjects.Attribute.AttributeName(name),
        attribute_index=(cobjects.Attribute.AttributeIndex(index) if index is not None else None),
        attribute_value=value_obj)


def template(attrs, tag=enums.Tags.TEMPLATE_ATTRIBUTE):
    return cobjects.TemplateAttribute(attributes=list(attrs), tag=tag)


def sym_attrs(alg=enums.CryptographicAlgorithm.AES, length=256, mask=None, names=(), extra=()):
    out = []
    if alg is not None:
        out.append(attr(AT.CRYPTOGRAPHIC_ALGORITHM, alg))
    if length is not None:
        out.append(attr(AT.CRYPTOGRAPHIC_LENGTH, length))
    if mask is not None:
        out.append(attr(AT.CRYPTOGRAPHIC_USAGE_MASK, list(mask)))
    for i, n in enumerate(names):
        out.append(attr(AT.NAME, name_value(n), i))
    out += list(extra)
    return out


ENC_DEC = (enums.CryptographicUsageMask.ENCRYPT, enums.CryptographicUsageMask.DECRYPT)


def create(alg=enums.CryptographicAlgorithm.AES, length=256, mask=ENC_DEC, names=(), extra=(), otype=OT.SYMMETRIC_KEY, attrs=None):
    a = attrs if attrs is not None else sym_attrs(alg, length, mask, names, extra)
    return (OP.CREATE, payloads.CreateRequestPayload(object_type=otype, template_attribute=template(a)))


def create_key_pair(alg=enums.CryptographicAlgorithm.RSA, length=1024, common=None, private=None, public=None,
                    private_mask=(enums.CryptographicUsageMask.SIGN,), public_mask=(enums.CryptographicUsageMask.VERIFY,)):
    if common is None:
        common = [attr(AT.CRYPTOGRAPHIC_ALGORITHM, alg), attr(AT.CRYPTOGRAPHIC_LENGTH, length)]
    if private is None:
        private = [attr(AT.CRYPTOGRAPHIC_USAGE_MASK, list(private_mask))]
    if public is None:
        public = [attr(AT.CRYPTOGRAPHIC_USAGE_MASK, list(public_mask))]
    return (OP.CREATE_KEY_PAIR, payloads.CreateKeyPairRequestPayload(
        common_template_attribute=template(common, enums.Tags.COMMON_TEMPLATE_ATTRIBUTE),
        private_key_template_attribute=template(private, enums.Tags.PRIVATE_KEY_TEMPLATE_ATTRIBUTE),
        public_key_template_attribute=template(public, enums.Tags.PUBLIC_KEY_TEMPLATE_ATTRIBUTE)))


def core_secret(otype, **kw):
    """A kmip.core secret through the library's own SecretFactory (value dict as the engine uses it)."""
    return secret_factory.SecretFactory().create(otype, kw)


def symmetric_key_secret(value=b'\x01' * 32, alg=enums.CryptographicAlgorithm.AES, length=256,
                         fmt=enums.KeyFormatType.RAW, wrapping=None):
    return core_secret(OT.SYMMETRIC_KEY, cryptographic_algorithm=alg, cryptographic_length=length,
                       key_format_type=fmt, key_value=value, key_wrapping_data=wrapping)


def secret_for(otype, value=None):
    """A small valid secret of each of the seven stored types."""
    A = enums.CryptographicAlgorithm
    K = enums.KeyFormatType
    if otype == OT.SYMMETRIC_KEY:
        return symmetric_key_secret(value or b'\x0f' * 16, A.AES, 128)
    if otype == OT.PUBLIC_KEY:
        return core_secret(otype, cryptographic_algorithm=A.RSA, cryptographic_length=1024, key_format_type=K.X_509,
                           key_value=value or b'\x30\x81' + b'\x11' * 30, key_wrapping_data=None)
    if otype == OT.PRIVATE_KEY:
        return core_secret(otype, cryptographic_algorithm=A.RSA, cryptographic_length=1024, key_format_type=K.PKCS_8,
                           key_value=value or b'\x30\x82' + b'\x22' * 30, key_wrapping_data=None)
    if otype == OT.SPLIT_KEY:
        return core_secret(otype, cryptographic_algorithm=A.AES, cryptographic_length=128, key_format_type=K.RAW,
                           key_value=value or b'\x33' * 16, key_wrapping_data=None, split_key_parts=3, key_part_identifier=1,
                           split_key_threshold=2, split_key_method=enums.SplitKeyMethod.XOR, prime_field_size=None)
    if otype == OT.CERTIFICATE:
        return core_secret(otype, certificate_type=enums.CertificateType.X_509, certificate_value=value or b'\x30\x82\x01' + b'\x44' * 20)
    if otype == OT.SECRET_DATA:
        return core_secret(otype, key_format_type=K.OPAQUE, key_value=value or b'\x55' * 12, secret_data_type=enums.SecretDataType.PASSWORD)
    if otype == OT.OPAQUE_DATA:
        return core_secret(otype, opaque_data_type=enums.OpaqueDataType.NONE, opaque_data_value=value or b'\x66' * 9)
    raise KeyError(otype)


STORED_TYPES = [OT.SYMMETRIC_KEY, OT.PUBLIC_KEY, OT.PRIVATE_KEY, OT.SPLIT_KEY, OT.CERTIFICATE, OT.SECRET_DATA, OT.OPAQUE_DATA]


def register(otype=OT.SYMMETRIC_KEY, secret=None, attrs=None, mask=ENC_DEC, names=()):
    if secret is None:
        secret = secret_for(otype)
    if attrs is None:
        attrs = []
        if mask is not None and otype in (OT.SYMMETRIC_KEY, OT.PUBLIC_KEY, OT.PRIVATE_KEY, OT.SPLIT_KEY, OT.CERTIFICATE, OT.SECRET_DATA):
            attrs.append(attr(AT.CRYPTOGRAPHIC_USAGE_MASK, list(mask)))
        for i, n in enumerate(names):
            attrs.append(attr(AT.NAME, name_value(n), i))
    return (OP.REGISTER, payloads.RegisterRequestPayload(object_type=otype, template_attribute=template(attrs), managed_object=secret))


def get(uid=None, fmt=None, compression=None, wrap=None):
    return (OP.GET, payloads.GetRequestPayload(unique_identifier=uid, key_format_type=fmt,
                                               key_compression_type=compression, key_wrapping_specification=wrap))


def get_attributes(uid=None, names=None):
    return (OP.GET_ATTRIBUTES, payloads.GetAttributesRequestPayload(unique_identifier=uid, attribute_names=names))


def get_attribute_list(uid=None):
    return (OP.GET_ATTRIBUTE_LIST, payloads.GetAttributeListRequestPayload(unique_identifier=uid))


def activate(uid=None):
    return (OP.ACTIVATE, payloads.ActivateRequestPayload(
        unique_identifier=(cattrs.UniqueIdentifier(uid) if uid is not None else None)))


def revoke(uid=None, code=enums.RevocationReasonCode.CESSATION_OF_OPERATION, message=None, date=None):
    reason = cobjects.RevocationReason(code=code, message=message) if code is not None else None
    return (OP.REVOKE, payloads.RevokeRequestPayload(
        unique_identifier=(cattrs.UniqueIdentifier(uid) if uid is not None else None),
        revocation_reason=reason,
        compromise_occurrence_date=(primitives.DateTime(date, enums.Tags.COMPROMISE_OCCURRENCE_DATE) if date is not None else None)))


def destroy(uid=None):
    return (OP.DESTROY, payloads.DestroyRequestPayload(
        unique_identifier=(cattrs.UniqueIdentifier(uid) if uid is not None else None)))


def locate(attrs=(), offset=None, maximum=None, storage_status_mask=None, group_member=None):
    return (OP.LOCATE, payloads.LocateRequestPayload(maximum_items=maximum, offset_items=offset,
                                                     storage_status_mask=storage_status_mask,
                                                     object_group_member=group_member, attributes=list(attrs)))


def query(functions=None):
    if functions is None:
        functions = [enums.QueryFunction.QUERY_OPERATIONS, enums.QueryFunction.QUERY_OBJECTS]
    return (OP.QUERY, payloads.QueryRequestPayload(query_functions=list(functions)))


def discover_versions(versions=()):
    return (OP.DISCOVER_VERSIONS, payloads.DiscoverVersionsRequestPayload(
        protocol_versions=[contents.ProtocolVersion(a, b) for a, b in versions]))


def crypto_params(**kw):
    return cattrs.CryptographicParameters(**kw)


def encrypt(uid=None, params=None, data=b'', iv=None, aad=None):
    return (OP.ENCRYPT, payloads.EncryptRequestPayload(unique_identifier=uid, cryptographic_parameters=params,
                                                       data=data, iv_counter_nonce=iv, auth_additional_data=aad))


def decrypt(uid=None, params=None, data=b'', iv=None, aad=None, tag=None):
    return (OP.DECRYPT, payloads.DecryptRequestPayload(unique_identifier=uid, cryptographic_parameters=params,
                                                       data=data, iv_counter_nonce=iv, auth_additional_data=aad, auth_tag=tag))


def sign(uid=None, params=None, data=b''):
    return (OP.SIGN, payloads.SignRequestPayload(unique_identifier=uid, cryptographic_parameters=params, data=data))


def signature_verify(uid=None, params=None, data=b'', signature=b''):
    return (OP.SIGNATURE_VERIFY, payloads.SignatureVerifyRequestPayload(
        unique_identifier=uid, cryptographic_parameters=params, data=data, signature_data=signature))


def mac(uid=None, params=None, data=b''):
    return (OP.MAC, payloads.MACRequestPayload(
        unique_identifier=(cattrs.UniqueIdentifier(uid) if uid is not None else None),
        cryptographic_parameters=params,
        data=(cobjects.Data(data) if data is not None else None)))


def derive_key(uids, method=enums.DerivationMethod.HASH, params=None, attrs=None, otype=OT.SYMMETRIC_KEY):
    if attrs is None:
        attrs = sym_attrs(enums.CryptographicAlgorithm.AES, 128, ENC_DEC)
    return (OP.DERIVE_KEY, payloads.DeriveKeyRequestPayload(
        object_type=otype, unique_identifiers=list(uids), derivation_method=method,
        derivation_parameters=params, template_attribute=template(attrs)))


def modify_attribute_v1(uid, attribute):
    return (OP.MODIFY_ATTRIBUTE, payloads.ModifyAttributeRequestPayload(unique_identifier=uid, attribute=attribute))


def delete_attribute_v1(uid, name, index=None):
    return (OP.DELETE_ATTRIBUTE, payloads.DeleteAttributeRequestPayload(unique_identifier=uid, attribute_name=name, attribute_index=index))


def new_attr2(value_obj):
    """KMIP 2.0 NewAttribute wrapper around an attribute value object (tagged with its own attribute tag)."""
    return cobjects.NewAttribute(attribute=value_obj)


def current_attr2(value_obj):
    return cobjects.CurrentAttribute(attribute=value_obj)


def attr_ref2(name, vendor='PyKMIP'):
    return cobjects.AttributeReference(vendor_identification=vendor, attribute_name=name)


def set_attribute(uid, value_obj):
    return (OP.SET_ATTRIBUTE, payloads.SetAttributeRequestPayload(unique_identifier=uid, new_attribute=new_attr2(value_obj)))


def modify_attribute_v2(uid, new_value_obj, current_value_obj=None):
    return (OP.MODIFY_ATTRIBUTE, payloads.ModifyAttributeRequestPayload(
        unique_identifier=uid, new_attribute=new_attr2(new_value_obj),
        current_attribute=(current_attr2(current_value_obj) if current_value_obj is not None else None)))


def delete_attribute_v2(uid, current_value_obj=None, reference=None):
    return (OP.DELETE_ATTRIBUTE, payloads.DeleteAttributeRequestPayload(
        unique_identifier=uid,
        current_attribute=(current_attr2(current_value_obj) if current_value_obj is not None else None),
        attribute_reference=reference))


def attr_value(tag, value):
    """Bare attribute value object carrying its own attribute tag (what KMIP 2.0 New/CurrentAttribute hold).
    tag: enums.Tags member or its name, e.g. 'NAME', 'SENSITIVE', 'OBJECT_GROUP'."""
    from kmip.core.factories import attribute_values
    if isinstance(tag, str):
        tag = enums.Tags[tag]
    return attribute_values.AttributeValueFactory().create_attribute_value_by_enum(tag, value)


# ---------------------------------------------------------------------- convenience
def first_uid(resp_item):
    p = resp_item.get('payload') or {}
    for k in ('unique_identifier', 'private_key_unique_identifier'):
        if k in p and p[k] is not None:
            return str(p[k])
    return None


def get_all_attributes(eng, uid, user='alice', groups=None, version=(1, 2)):
    """{attribute name: [values...]} via GetAttributes with no name list; None when the call fails."""
    r = eng.request([get_attributes(uid)], version=version, user=user, groups=groups)
    it = r['items'][0] if r['items'] else None
    if it is None or not ok(it):
        return None
    out = {}
    raw = it['raw'].response_payload
    for a in raw.attributes:
        out.setdefault(a.attribute_name.value, []).append(plain(a.attribute_value))
    return out
