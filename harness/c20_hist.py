"""Histories for C20: canaries, log capture, and the atoms (small request scripts) that reach the failure paths.

A history = {'name', 'layer': 'engine'|'session'|'client', 'atoms': [atom names]}.  It is deterministic in
(struct_seed, canary_seed): struct_seed drives every structural choice, canary_seed only the secret bytes.
"""
import base64
import logging
import os
import random
import re
import struct
import traceback
from collections import Counter

import kdrv
from kdrv import OT, OP, AT
from kmip.core import enums, objects as cobjects, attributes as cattrs, primitives, utils as kutils
from kmip.core import exceptions as kexc
from kmip.core.messages import contents, messages, payloads

E = enums
ALG = enums.CryptographicAlgorithm
MASK = enums.CryptographicUsageMask
REPO_MARK = os.sep + 'kmip' + os.sep


# ---------------------------------------------------------------------------------------------- canaries
class Canaries:
    def __init__(self, seed):
        self.rng = random.Random(seed)
        self.items = []          # (kind, bytes)
        self.needles = []        # (kind, form, needle, lowercase?)

    def new(self, kind, n=None, text=False):
        n = n or self.rng.choice([16, 24, 32])
        while True:
            if text:
                b = ''.join(self.rng.choice('ABCDEFGHJKLMNPQRSTUVWXYZabcdefghijkmnpqrstuvwxyz23456789') for _ in range(n)).encode()
            else:
                b = bytes(self.rng.getrandbits(8) for _ in range(n))
            if len(set(b)) >= min(10, n // 2 + 1):
                break
        self.add(kind, b)
        return b

    def add(self, kind, b):
        """Register secret bytes.  Whole-value needles in every form (long secrets: three 24-byte pieces), plus
        SUB-STRING needles: 8-byte windows every 4 bytes (so any leaked fragment of 11+ bytes is seen) in raw, hex and
        bytes-repr form - over the whole value up to 64 bytes, and for longer values over the first and last 64
        bytes plus one window every 256 bytes."""
        b = bytes(b)
        if len(b) < 8:
            return b
        self.items.append((kind, b))
        pieces = [b] if len(b) <= 64 else [b[8:32], b[len(b) // 2:len(b) // 2 + 24], b[-32:-8]]
        for p in pieces:
            for form, needle, low in self.forms(p):
                self.needles.append((kind, form, needle, low))
        if len(b) <= 64:
            starts = range(0, len(b) - 7, 4)
        else:
            starts = sorted(set(list(range(0, 57, 4)) + list(range(len(b) - 64, len(b) - 7, 4)) + list(range(0, len(b) - 7, 256))))
        for i in starts:
            win = b[i:i + 8]
            if len(set(win)) < 4:
                continue                      # constant runs (padding, ASN.1 filler) are not evidence
            # 8-byte words as decimal numbers (4-byte words would collide with time stamps and counters)
            for order in ('big', 'little'):
                n = int.from_bytes(win, order)
                if n >= 10 ** 15:
                    self.needles.append((kind, 'fragment-integer', str(n), False))
            self.needles.append((kind, 'fragment-raw', win.decode('latin-1'), False))
            self.needles.append((kind, 'fragment-hex', win.hex(), True))
            r = repr(win)[2:-1]
            if r != win.decode('latin-1'):
                self.needles.append((kind, 'fragment-repr', r, False))
        return b

    @staticmethod
    def forms(p):
        out = [('raw', p.decode('latin-1'), False), ('hex', p.hex(), True),
               ('base64', base64.b64encode(p).decode().rstrip('='), False),
               ('base64url', base64.urlsafe_b64encode(p).decode().rstrip('='), False),
               ('repr', repr(p)[2:-1], False),
               ('declist', ', '.join(str(x) for x in p), False), ('declist', ','.join(str(x) for x in p), False),
               ('declist', ' '.join(str(x) for x in p), False),
               ('integer', str(int.from_bytes(p, 'big')), False), ('integer', str(int.from_bytes(p, 'little')), False),
               ('octal', oct(int.from_bytes(p, 'big'))[2:], False), ('binary', bin(int.from_bytes(p, 'big'))[2:], False)]
        try:
            out.append(('utf8', p.decode('utf-8'), False))
        except UnicodeDecodeError:
            out.append(('utf8-replace', p.decode('utf-8', 'replace'), False))
        if len(p) >= 16:
            h = len(p) // 2
            out += [('half-hex', p[:h].hex(), True), ('half-hex', p[h:].hex(), True),
                    ('half-raw', p[:h].decode('latin-1'), False), ('half-raw', p[h:].decode('latin-1'), False)]
        return out

    def scan(self, text):
        low = None
        hits = []
        seen = set()
        for kind, form, needle, lc in self.needles:
            if lc:
                if low is None:
                    low = text.lower()
                found = needle in low
            else:
                found = needle in text
            if found and (kind, form) not in seen:
                seen.add((kind, form))
                hits.append((kind, form, needle))
        return hits

    def scan_many(self, texts):
        """texts: list of str -> {index: [(kind, form, needle)]}.  Distinct texts are joined into one blob so that
        each needle is searched once (records repeat a lot; the needle list is long)."""
        import bisect
        first = {}
        for i, t in enumerate(texts):
            first.setdefault(t, i)
        order = sorted(first.values())
        offs, parts, pos = [], [], 0
        SEP = '\x00\x01\x00'
        for i in order:
            offs.append(pos)
            parts.append(texts[i])
            pos += len(texts[i]) + len(SEP)
        blob = SEP.join(parts)
        low = blob.lower()
        hit_texts = set()
        for kind, form, needle, lc in self.needles:
            hay = low if lc else blob
            at = hay.find(needle)
            while at >= 0:
                hit_texts.add(order[bisect.bisect_right(offs, at) - 1])
                at = hay.find(needle, at + 1) if len(hit_texts) < 200 else -1
        out = {}
        for i in hit_texts:
            out[i] = self.scan(texts[i])
        # the same text under another index
        for i, t in enumerate(texts):
            j = first[t]
            if j in out and i != j:
                out[i] = out[j]
        return out


# ---------------------------------------------------------------------------------------------- log capture
class Capture(logging.Handler):
    def __init__(self):
        logging.Handler.__init__(self, level=logging.INFO)
        self.raw = []
        self._ids = set()

    def emit(self, record):
        if id(record) in self._ids:
            return
        self._ids.add(id(record))
        self.raw.append(record)        # kept alive, so ids stay unique


_FMT = logging.Formatter()


def record_dict(r, repo):
    try:
        text = r.getMessage()
    except Exception as e:
        text = 'unformattable: %r %r (%r)' % (r.msg, r.args, e)
    exc_text = ''
    if r.exc_info and r.exc_info[0] is not None:
        exc_text = _FMT.formatException(r.exc_info)
    elif r.exc_text:
        exc_text = r.exc_text
    rel = None
    path = os.path.realpath(r.pathname)
    root = os.path.realpath(str(repo)) + os.sep
    if path.startswith(root):
        rel = path[len(root):].replace(os.sep, '/')
        if not rel.startswith('kmip/'):
            rel = None
    allt = '\n'.join([text, str(r.msg), repr(r.args), exc_text, str(r.stack_info or '')])
    return {'name': r.name, 'level': r.levelname, 'levelno': r.levelno, 'rel': rel, 'lineno': r.lineno,
            'text': text, 'exc_text': exc_text, 'all': allt}


class LogEnv:
    """Default deployment: effective level INFO on every kmip logger; our handler on root and on 'kmip'."""

    def __enter__(self):
        self.cap = Capture()
        self.saved = []
        for name in ('', 'kmip', 'kmip.server', 'kmip.server.engine', 'kmip.server.engine.cryptography'):
            lg = logging.getLogger(name) if name else logging.getLogger()
            self.saved.append((lg, lg.level, lg.propagate, lg.disabled))
        logging.getLogger().setLevel(logging.INFO)
        logging.getLogger('kmip').setLevel(logging.INFO)
        for name in ('kmip.server', 'kmip.server.engine', 'kmip.server.engine.cryptography'):
            logging.getLogger(name).setLevel(logging.NOTSET)
        self.disable = logging.root.manager.disable
        logging.disable(logging.NOTSET)
        logging.getLogger().addHandler(self.cap)
        logging.getLogger('kmip').addHandler(self.cap)
        return self.cap

    def __exit__(self, *a):
        logging.getLogger().removeHandler(self.cap)
        logging.getLogger('kmip').removeHandler(self.cap)
        for lg, level, prop, dis in self.saved:
            lg.setLevel(level)
        logging.disable(self.disable)


# ---------------------------------------------------------------------------------------------- the world of one run
class World:
    def __init__(self, ctx, hist, struct_seed, can_seed):
        self.ctx = ctx
        self.hist = hist
        self.struct_seed, self.can_seed = struct_seed, can_seed
        self.rng = random.Random(struct_seed)
        self.can = Canaries(can_seed)
        self.eng = None
        self.trace = []
        self.messages = []      # (step, channel, text)
        self.records = []
        self.opcount = Counter()
        self.pool = {}          # kind -> [uid]
        self.secret = {}        # uid -> bytes
        self.version = (1, 2)
        self.auth_kind = hist.get('auth')     # None | 'password' | 'device' | 'attestation': credential in every request header
        self._auth = {}
        self.written = []       # (step, variant, requested level, text of the server's own log file)
        self.level_checks = []  # effective logger levels read back after KmipServer start-up
        self.scratch = []       # temporary paths (masked in the secret-swap comparison)
        self.user = 'alice'

    def close(self):
        if self.eng is not None:
            self.eng.close()

    def run(self):
        import c20_atoms as A
        with LogEnv() as cap:
            self.eng = kdrv.Engine(workdir=self.ctx.work)
            self.eng.engine._logger.setLevel(logging.NOTSET)
            try:
                for name in self.hist['atoms']:
                    self.trace.append({'atom': name})
                    self.opcount['atom.' + name] += 1
                    A.ATOMS[name](self)
            finally:
                self.records = [record_dict(r, self.ctx.repo) for r in cap.raw]

    def header_auth(self, kind=None):
        """Authentication header of the given credential type, every secret-ish field a canary (made once per world)."""
        kind = kind or self.auth_kind
        if kind is None:
            return None
        if kind not in self._auth:
            C = lambda k, n, text=True: self.can.new('credential:' + k, n, text=text)
            if kind == 'password':
                cv = cobjects.UsernamePasswordCredential(username='carol', password=C('password', 20).decode())
                ct = enums.CredentialType.USERNAME_AND_PASSWORD
            elif kind == 'device':
                cv = cobjects.DeviceCredential(device_serial_number='serial-0001', password=C('device-password', 24).decode(),
                                               device_identifier='device-7', network_identifier='net-3',
                                               machine_identifier='machine-9', media_identifier='media-2')
                ct = enums.CredentialType.DEVICE
            else:
                cv = cobjects.AttestationCredential(
                    nonce=cobjects.Nonce(nonce_id=C('nonce-id', 16, False), nonce_value=C('nonce-value', 24, False)),
                    attestation_type=enums.AttestationType.TPM_QUOTE,
                    attestation_measurement=C('attestation-measurement', 32, False),
                    attestation_assertion=C('attestation-assertion', 32, False))
                ct = enums.CredentialType.ATTESTATION
            self._auth[kind] = contents.Authentication(credentials=[cobjects.Credential(credential_type=ct, credential_value=cv)])
        return self._auth[kind]

    # ------------------------------------------------------------------ engine requests
    def req(self, items, label=None, **kw):
        kw.setdefault('version', self.version)
        kw.setdefault('user', self.user)
        if self.auth_kind is not None:
            kw.setdefault('auth', self.header_auth())
        r = self.eng.request(items, **kw)
        step = len(self.trace)
        ent = {'step': step, 'ops': [it[0].name for it in items], 'label': label}
        if r['error']:
            ent['error'] = r['error']['reason']
            self.messages.append((step, 'message', r['error']['message']))
            self.opcount['request_error.' + r['error']['reason']] += 1
        res = []
        for it in r['items']:
            res.append('%s/%s' % (it['status'], it['reason']))
            self.opcount['op.%s.%s' % (it['op'], it['reason'] or 'SUCCESS')] += 1
            if it['message'] is not None:
                self.messages.append((step, 'message', it['message']))
        ent['results'] = res
        self.trace.append(ent)
        return r

    def one(self, item, label=None, **kw):
        r = self.req([item], label, **kw)
        return r['items'][0] if r['items'] else None

    def uid_of(self, it):
        return kdrv.first_uid(it) if it is not None and kdrv.ok(it) else None

    def put(self, kind, uid, secret=None):
        if uid is not None:
            self.pool.setdefault(kind, []).append(uid)
            if secret is not None:
                self.secret[uid] = secret
        return uid

    def any(self, kind):
        xs = self.pool.get(kind) or []
        return self.rng.choice(xs) if xs else None


# ---------------------------------------------------------------------------------------------- histories
def histories(tier, rng):
    import c20_atoms as A
    out = []
    kinds = ['password', 'device', 'attestation']
    k = 0
    for name, layer, atoms in A.CURATED:
        out.append({'name': name, 'layer': layer, 'atoms': list(atoms)})
        if layer == 'engine':
            # the same operations with a credential in every request header: quick = one credential type per history
            # (rotating, so that every type is used several times), thorough = every type for every history
            for kind in (kinds if tier != 'quick' else [kinds[k % 3]]):
                out.append({'name': '%s+%s' % (name, kind), 'layer': layer, 'atoms': list(atoms), 'auth': kind})
            k += 1
    n_random = 6 if tier == "quick" else 100
    eng_atoms = [a for a in A.ENGINE_ATOMS]
    for k in range(n_random):
        seq = ['setup_keys'] + [rng.choice(eng_atoms) for _ in range(rng.randint(6, 14))]
        out.append({'name': 'random-%d:%s' % (k, ','.join(seq)), 'layer': 'engine', 'atoms': seq})
        if k % 2:
            out[-1]['auth'] = kinds[(k // 2) % 3]
            out[-1]['name'] = 'random-%d+%s:%s' % (k, out[-1]['auth'], ','.join(seq))
    return out


def history_by_name(name):
    import c20_atoms as A
    for n, layer, atoms in A.CURATED:
        if n == name:
            return {'name': n, 'layer': layer, 'atoms': list(atoms)}
        for kind in ('password', 'device', 'attestation'):
            if name == '%s+%s' % (n, kind):
                return {'name': name, 'layer': layer, 'atoms': list(atoms), 'auth': kind}
    if name.startswith('random-'):
        head, seq = name.split(':', 1)
        h = {'name': name, 'layer': 'engine', 'atoms': seq.split(',')}
        if '+' in head:
            h['auth'] = head.split('+', 1)[1]
        return h
    raise KeyError(name)


# ---------------------------------------------------------------------------------------------- session / client transport
_CERT_KEY = None
_CERTS = {}


def make_cert(cns, eku):
    """DER certificate with the given common names; eku in {'absent', 'server', 'client'}."""
    global _CERT_KEY
    import datetime
    from cryptography import x509
    from cryptography.hazmat.backends import default_backend
    from cryptography.hazmat.primitives import hashes, serialization
    from cryptography.hazmat.primitives.asymmetric import ec
    k = (tuple(cns), eku)
    if k in _CERTS:
        return _CERTS[k]
    if _CERT_KEY is None:
        _CERT_KEY = ec.generate_private_key(ec.SECP256R1(), default_backend())
    attrs = [x509.NameAttribute(x509.oid.NameOID.COMMON_NAME, cn) for cn in cns]
    attrs.append(x509.NameAttribute(x509.oid.NameOID.ORGANIZATION_NAME, 'verif'))
    name = x509.Name(attrs)
    t = datetime.datetime(2020, 1, 1)
    b = (x509.CertificateBuilder().serial_number(1).issuer_name(name).subject_name(name)
         .not_valid_before(t).not_valid_after(t + datetime.timedelta(days=36500)).public_key(_CERT_KEY.public_key()))
    O = x509.oid.ExtendedKeyUsageOID
    usages = {'absent': None, 'server': [O.SERVER_AUTH], 'client': [O.CLIENT_AUTH]}[eku]
    if usages is not None:
        b = b.add_extension(x509.ExtendedKeyUsage(usages), True)
    der = b.sign(_CERT_KEY, hashes.SHA256(), default_backend()).public_bytes(serialization.Encoding.DER)
    _CERTS[k] = der
    return der


class FakeConn:
    def __init__(self, data, cert, chunk=4096, handshake_error=None):
        self.data = bytes(data)
        self.cert = cert
        self.sent = b''
        self.chunk = chunk
        self.handshake_error = handshake_error

    def do_handshake(self):
        if self.handshake_error is not None:
            raise self.handshake_error

    def recv(self, n):
        n = min(n, self.chunk)
        out, self.data = self.data[:n], self.data[n:]
        return out

    def sendall(self, data):
        self.sent += bytes(data)

    def getpeercert(self, binary_form=False):
        return self.cert

    def cipher(self):
        return ('ECDHE-RSA-AES256-GCM-SHA384', 'TLSv1.2', 256)

    def shared_ciphers(self):
        return [self.cipher()]

    def shutdown(self, how):
        pass

    def close(self):
        pass


def split_frames(data):
    out = []
    while len(data) >= 8:
        n = struct.unpack('!I', data[4:8])[0]
        out.append(data[:8 + n])
        data = data[8 + n:]
    return out


def response_messages(frame):
    """[(status, reason, message)] of one encoded response (tries the 1.x and the 2.0 readers)."""
    for ver in (enums.KMIPVersion.KMIP_1_4, enums.KMIPVersion.KMIP_2_0):
        try:
            m = messages.ResponseMessage()
            m.read(kutils.BytearrayStream(frame), kmip_version=ver)
            return [(bi.result_status.value.name, bi.result_reason.value.name if bi.result_reason else None,
                     bi.result_message.value if bi.result_message else None) for bi in m.batch_items]
        except Exception:
            continue
    return None


def encode_request(w, items, version=None, auth=None, **kw):
    version = version or w.version
    req = w.eng.build(items, version=version, auth=auth, **kw)
    s = kutils.BytearrayStream()
    kv = contents.protocol_version_to_kmip_version(contents.ProtocolVersion(*version)) or enums.KMIPVersion.KMIP_1_2
    req.write(s, kmip_version=kv)
    return bytes(s.buffer)


def password_auth(username, password):
    return contents.Authentication(credentials=[cobjects.Credential(
        credential_type=enums.CredentialType.USERNAME_AND_PASSWORD,
        credential_value=cobjects.UsernamePasswordCredential(username=username, password=password))])


def run_session(w, stream, cert='default', auth_settings=None, tls_auth=True, handshake_error=None, label=None, whole_run=True):
    """One connection through the real KmipSession.run(); result messages of every response go to w.messages."""
    from kmip.services.server import session as session_mod
    if cert == 'default':
        cert = make_cert(['alice'], 'client')
    conn = FakeConn(stream, cert, chunk=w.rng.choice([7, 64, 4096]), handshake_error=handshake_error)
    s = session_mod.KmipSession(w.eng.engine, conn, ('192.0.2.7', 5696), name='c20',
                                enable_tls_client_auth=tls_auth, auth_settings=auth_settings)
    s._logger.setLevel(logging.NOTSET)
    escaped = None
    try:
        s.run()
    except Exception as e:          # run() itself lets nothing but OSError out; recorded, never expected
        escaped = repr(e)
    step = len(w.trace)
    ent = {'step': step, 'session': label, 'request_bytes': len(stream), 'responses': [], 'escaped': escaped}
    for fr in split_frames(conn.sent):
        ms = response_messages(fr)
        if ms is None:
            ent['responses'].append('undecodable')
            continue
        for st, reason, msg in ms:
            ent['responses'].append('%s/%s' % (st, reason))
            w.opcount['session.%s' % (reason or 'SUCCESS')] += 1
            if msg is not None:
                w.messages.append((step, 'message', msg))
    w.trace.append(ent)
    return conn.sent


class Loopback:
    """Socket of the pie client: every complete request frame is handed to a fresh KmipSession message loop."""

    def __init__(self, w, cert=None):
        self.w = w
        self.inbuf = b''
        self.outbuf = b''
        self.cert = cert or make_cert(['alice'], 'client')

    def sendall(self, data):
        from kmip.services.server import session as session_mod
        self.inbuf += bytes(data)
        while len(self.inbuf) >= 8:
            n = struct.unpack('!I', self.inbuf[4:8])[0]
            if len(self.inbuf) < 8 + n:
                break
            frame, self.inbuf = self.inbuf[:8 + n], self.inbuf[8 + n:]
            conn = FakeConn(frame, self.cert)
            s = session_mod.KmipSession(self.w.eng.engine, conn, ('192.0.2.9', 5696), name='c20-client')
            s._logger.setLevel(logging.NOTSET)
            s._handle_message_loop()
            self.outbuf += conn.sent

    def recv(self, n):
        out, self.outbuf = self.outbuf[:n], self.outbuf[n:]
        return out

    def close(self):
        pass


def make_client(w, version=None, username=None, password=None):
    from kmip.pie import client as pie_client
    from kmip.services.kmip_protocol import KMIPProtocol
    cl = pie_client.ProxyKmipClient(kmip_version=version, username=username, password=password)
    cl._is_open = True
    cl.proxy.protocol = KMIPProtocol(Loopback(w))
    return cl


def client_call(w, label, fn, *a, **kw):
    """Call a pie client method; the text of whatever it raises is client-visible output."""
    from kmip.pie import exceptions as pexc
    step = len(w.trace)
    ent = {'step': step, 'client': label}
    try:
        r = fn(*a, **kw)
        ent['result'] = 'ok'
        w.opcount['client.%s.ok' % label.split()[0]] += 1
    except pexc.KmipOperationFailure as e:
        r = None
        ent['result'] = 'KmipOperationFailure/%s' % getattr(e.reason, 'name', e.reason)
        w.opcount['client.%s.%s' % (label.split()[0], getattr(e.reason, 'name', e.reason))] += 1
        w.messages.append((step, 'client-failure', str(e.message)))
        w.messages.append((step, 'client-error', str(e)))
    except Exception as e:
        r = None
        ent['result'] = type(e).__name__
        w.opcount['client.%s.%s' % (label.split()[0], type(e).__name__)] += 1
        w.messages.append((step, 'client-error', '%s: %s' % (type(e).__name__, e)))
    w.trace.append(ent)
    return r


# ---------------------------------------------------------------------------------------------- TTLV tree surgery
def ttlv_parse(data):
    """bytes -> [[tag, type, value]]; value = child list for a Structure, raw unpadded bytes otherwise."""
    out = []
    pos = 0
    while pos + 8 <= len(data):
        tag = int.from_bytes(data[pos:pos + 3], 'big')
        typ = data[pos + 3]
        n = struct.unpack('!I', data[pos + 4:pos + 8])[0]
        body = data[pos + 8:pos + 8 + n]
        if typ == 1:
            out.append([tag, typ, ttlv_parse(body)])
            pos += 8 + n
        else:
            out.append([tag, typ, body])
            pos += 8 + n + ((8 - n % 8) % 8)
    return out


def ttlv_build(nodes):
    out = b''
    for tag, typ, val in nodes:
        if isinstance(val, list):
            body = ttlv_build(val)
            pad = b''
        else:
            body = bytes(val)
            pad = b'' if typ == 1 else b'\x00' * ((8 - len(body) % 8) % 8)
        out += tag.to_bytes(3, 'big') + bytes([typ]) + struct.pack('!I', len(body)) + body + pad
    return out


def ttlv_paths(nodes, prefix=()):
    """Every node position as a tuple of child indices, depth first."""
    for i, (tag, typ, val) in enumerate(nodes):
        yield prefix + (i,)
        if isinstance(val, list):
            for p in ttlv_paths(val, prefix + (i,)):
                yield p


def ttlv_get(nodes, path):
    cur = nodes
    node = None
    for i in path:
        node = cur[i]
        cur = node[2] if isinstance(node[2], list) else []
    return node


def ttlv_siblings(nodes, path):
    cur = nodes
    for i in path[:-1]:
        cur = cur[i][2]
    return cur


class CutLoopback(Loopback):
    """Loop-back socket that delivers only the first `cut` bytes of the response, then reports the peer closed."""

    def __init__(self, w, cut):
        Loopback.__init__(self, w)
        self.cut = cut
        self.full = 0

    def recv(self, n):
        if self.full == 0:
            self.full = len(self.outbuf)
            self.outbuf = self.outbuf[:self.cut]
        return Loopback.recv(self, n)


class FaultySocket(Loopback):
    """Loop-back socket of the pie client with one scripted I/O failure:
       stage 'send'          sendall raises before anything is delivered
             'send-partial'  sendall raises after `at` bytes were taken (the frame never completes)
             'recv'          the request is processed, the first recv raises
             'recv-partial'  `at` bytes of the response are delivered, then recv raises
             'recv-eof'      `at` bytes of the response are delivered, then the peer closes
             'close'         shutdown/close raise
    """

    def __init__(self, w, stage, exc, at=0):
        Loopback.__init__(self, w)
        self.stage, self.exc, self.at = stage, exc, at
        self.delivered = 0

    def sendall(self, data):
        if self.stage == 'send':
            raise self.exc
        if self.stage == 'send-partial':
            self.inbuf += bytes(data)[:self.at]
            raise self.exc
        Loopback.sendall(self, data)

    def recv(self, n):
        if self.stage == 'recv':
            raise self.exc
        if self.stage in ('recv-partial', 'recv-eof'):
            if self.delivered >= self.at:
                if self.stage == 'recv-eof':
                    return b''
                raise self.exc
            n = min(n, self.at - self.delivered)
        out = Loopback.recv(self, n)
        self.delivered += len(out)
        return out

    def shutdown(self, how):
        if self.stage == 'close':
            raise self.exc

    def close(self):
        if self.stage == 'close':
            raise self.exc
