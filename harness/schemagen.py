"""Schema-driven value generator and an independent TTLV encoder (C01).

Nothing here imports PyKMIP: values are generated FROM coq/gen/schemas.json
(the JSON twin of coq/gen/Schemas.v) and encoded by a small encoder that
mirrors `enc_prim` / `wr` of the Coq model (big-endian header: 3-byte tag,
1-byte type, 4-byte length; padding to 8 bytes).

Abstract values
    ('P', ptype, python_value)          primitive        ptype in PInt PLong PBig PBool PText PBytes PDate PInterval
    ('E', enum_name, int)               enumeration
    ('S', class_name, [(item, [value, ...]), ...])   structure: one entry per item of the class that is
                                        active under the version the value was generated for (writer order)
"""
import struct

VERSIONS = [10, 11, 12, 13, 14, 20]
TYPE_CODE = {'PInt': 2, 'PLong': 3, 'PBig': 4, 'PEnum': 5, 'PBool': 6, 'PText': 7, 'PBytes': 8, 'PDate': 9, 'PInterval': 10}


# ------------------------------------------------------------------ encoder
def hdr(tag, ty, length):
    return int(tag).to_bytes(3, 'big') + bytes([ty]) + struct.pack('!I', length)


def pad(n):
    return b'\x00' * ((8 - n % 8) % 8)


def enc_prim(tag, pt, v):
    if pt == 'PInt':
        return hdr(tag, 2, 4) + struct.pack('!i', v) + b'\x00' * 4
    if pt == 'PLong':
        return hdr(tag, 3, 8) + struct.pack('!q', v)
    if pt == 'PDate':
        return hdr(tag, 9, 8) + struct.pack('!q', v)
    if pt == 'PBig':
        bits = max(1, abs(v).bit_length())
        n = 8 * (bits // 64 + 1)                 # the writer adds a whole word when the bit length is a multiple of 64
        return hdr(tag, 4, n) + (v % (256 ** n)).to_bytes(n, 'big')
    if pt == 'PEnum':
        return hdr(tag, 5, 4) + struct.pack('!I', v) + b'\x00' * 4
    if pt == 'PInterval':
        return hdr(tag, 10, 4) + struct.pack('!I', v) + b'\x00' * 4
    if pt == 'PBool':
        return hdr(tag, 6, 8) + struct.pack('!Q', 1 if v else 0)
    if pt == 'PText':
        b = v.encode('utf-8')                    # length and padding count BYTES
        return hdr(tag, 7, len(b)) + b + pad(len(b))
    if pt == 'PBytes':
        return hdr(tag, 8, len(v)) + bytes(v) + pad(len(v))
    raise KeyError(pt)


def encode_chunks(val):
    """Top-level structure value -> list of (item, bytes) one per encoded occurrence (for field-level mutations)."""
    assert val[0] == 'S'
    out = []
    for it, xs in val[2]:
        for x in xs:
            out.append((it, encode(it['tag'], x)))
    return out


def wrap(tag, chunks):
    body = b''.join(chunks)
    return hdr(tag, 1, len(body)) + body


def encode(tag, val):
    if val[0] == 'T':                       # element of an any-attribute item: encoded under the tag it carries
        return encode(val[1], val[2])
    if val[0] == 'P':
        return enc_prim(tag, val[1], val[2])
    if val[0] == 'E':
        return enc_prim(tag, 'PEnum', val[2])
    return wrap(tag, [b for _, b in encode_chunks(val)])


def depth(val):
    if val[0] == 'T':
        return depth(val[2])
    if val[0] != 'S':
        return 1
    return 1 + max([depth(x) for _, xs in val[2] for x in xs] or [0])


def describe(val, maxlen=300):
    """Short human-readable rendering for samples and replays."""
    def go(v):
        if v[0] == 'P':
            r = repr(v[2])
            return '%s:%s' % (v[1], r if len(r) < 40 else r[:37] + '...')
        if v[0] == 'E':
            return '%s:%d' % (v[1], v[2])
        if v[0] == 'T':
            return '<%06x>%s' % (v[1], go(v[2]))
        return '%s{%s}' % (v[1], ', '.join('%s=[%s]' % (it['field'], '; '.join(go(x) for x in xs)) for it, xs in v[2] if xs))
    s = go(val)
    return s if len(s) <= maxlen else s[:maxlen] + '...'


# ------------------------------------------------------------------ schema access
class Schema:
    def __init__(self, doc):
        self.doc = doc
        self.classes = {c['name']: c for c in doc['classes']}
        self.enums = doc['enums']
        self.tables = {n: tb['rows'] for n, tb in (doc.get('tables') or {}).items()}

    def active(self, cname, v, side='wr'):
        return [it for it in self.classes[cname][side] if it['lo'] <= v < it['hi']]

    def versions_of(self, cname):
        mv = self.classes[cname].get('minver') or 0
        return [v for v in VERSIONS if v >= mv]

    def distinct_versions(self, cname):
        """versions grouped by identical active item lists (a class without guards has one group)"""
        groups = {}
        for v in self.versions_of(cname):
            key = tuple((it['tag'], it['mult']) for it in self.active(cname, v))
            groups.setdefault(key, []).append(v)
        return list(groups.values())


# ------------------------------------------------------------------ generator
POOLS = {
    'PInt': [0, 1, -1, 127, 128, 255, 256, 2 ** 15, 2 ** 16 - 1, 2 ** 31 - 1, -2 ** 31, -2 ** 31 + 1, 2 ** 30, -129, 12, 8],
    'PLong': [0, 1, -1, 2 ** 31, 2 ** 32, 2 ** 63 - 1, -2 ** 63, -2 ** 31 - 1, 2 ** 62, 255, 1234567890],
    'PDate': [0, 1, -1, 2 ** 31 - 1, 2 ** 31, 2 ** 32, 2 ** 63 - 1, -2 ** 63, 1411134000, 253402300799, 253402300800],
    'PBig': [0, 1, -1, 255, 2 ** 63 - 1, 2 ** 63, 2 ** 64 - 1, 2 ** 64, -2 ** 63, -2 ** 63 - 1, 2 ** 127, 2 ** 128 - 1, 2 ** 128,
             -(2 ** 128), 2 ** 191, 2 ** 192, 65537],
    'PInterval': [0, 1, 255, 2 ** 16, 2 ** 31 - 1, 2 ** 31, 2 ** 32 - 1, 86400],
    'PBool': [True, False],
    'PText': ['', 'a', 'ab', 'abcdefg', 'abcdefgh', 'abcdefghi', '0123456789abcdef', 'x' * 15, 'y' * 17, 'z' * 40, '\x00', '\x7f',
              'a\x00b', ' ', 'x-ID-Placeholder', '1', 'Cryptographic Algorithm', 'False', '0',
              # non-ASCII: 2-, 3-, 4-byte sequences, boundaries of each width, byte lengths 7 / 8 / 9
              '\u00e9', 'caf\u00e9', '\u20ac', '\x80', '\u07ff', '\u0800', '\uffff', '\U00010000', '\U0010ffff', '\ud7ff\ue000',
              'abcdef\u00e9', 'abcde\u00e9', 'abcdefg\u00e9', '\u20ac' * 5],
    'PBytes': [b'', b'\x00', b'\x01', b'\xff', b'\x00' * 7, b'\x00' * 8, b'\xff' * 9, bytes(range(16)), bytes(range(17)),
               b'\x80' * 15, bytes(range(33)), b'\x42\x00\x08\x01\x00\x00\x00\x00'],
}


# Valid UTF-8 that a normalising / case-folding / stripping reader or writer would silently change:
# not in NFC (decomposed accents, Hangul jamo), singletons that NFC replaces (Angstrom, Ohm), compatibility characters that only
# NFKC/NFKD touch (ligature fi, superscript two, fullwidth A), a string whose NFC / NFD / NFKC / NFKD are four different strings,
# case traps (dotted capital I, sharp s, titlecase digraph), and whitespace / invisible characters at the edges
TEXT_TRAPS = ['Cle\u0301', '\u212b', '\u1100\u1161', '\u1e9b\u0323', '\ufb01le', 'e\u0301\u0300', '\u2126', 'x\u00b2', '\uff21BC',
              'ABC', 'Name', '\u0130stanbul', 'stra\u00dfe', '\u01c5',
              'ab ', ' ab', 'a\tb', 'a\nb\n', 'ab\x00', '\ufeffab', '\u00a0', 'a\u200bb', '  ', '\u3000x']
POOLS['PText'] = [x for pair in zip(POOLS['PText'], TEXT_TRAPS + [None] * len(POOLS['PText'])) for x in pair if x is not None] + \
    TEXT_TRAPS[len(POOLS['PText']):]


POOLS['PText'] += ['q' * 256, 'r' * 257]
POOLS['PBytes'] += [bytes(range(256)), bytes(range(256)) + b'\x01']
POOLS['PBig'] += [2 ** 2047 - 1, -(2 ** 2048)]


class Gen:
    def __init__(self, schema, rng, max_depth=6):
        self.s = schema
        self.rng = rng
        self.max_depth = max_depth
        self.counter = {}
        self.force_full = False

    def full(self, cname, v):
        """the value of class cname that has EVERY item of version v, at every nesting level (optional items once,
        repeated items twice): version-guarded items of nested classes are present inside their containers"""
        self.force_full = True
        try:
            items = self.s.active(cname, v)
            return self.struct(cname, v, 0, [1 if it['mult'] in ('Req', 'Opt') else 2 for it in items])
        finally:
            self.force_full = False

    def rot(self, key, pool):
        """boundary values first (round robin per type), then seeded random picks"""
        n = self.counter.get(key, 0)
        self.counter[key] = n + 1
        if n < len(pool) or self.rng.random() < 0.5:
            return pool[n % len(pool)]
        return self.rng.choice(pool)

    def prim(self, pt):
        if self.rng.random() < 0.25:
            r = self.rng
            if pt == 'PInt':
                return r.randrange(-2 ** 31, 2 ** 31)
            if pt in ('PLong', 'PDate'):
                return r.randrange(-2 ** 63, 2 ** 63)
            if pt == 'PBig':
                return r.getrandbits(r.choice([8, 63, 64, 65, 127, 128, 200, 256])) * r.choice([1, -1])
            if pt == 'PInterval':
                return r.getrandbits(32)
            if pt == 'PText':
                return ''.join(r.choice('abcXYZ019 _-.~!/\u00e9\u20ac\U0001f511') for _ in range(r.randrange(0, 42)))
            if pt == 'PBytes':
                return bytes(r.getrandbits(8) for _ in range(r.randrange(0, 42)))
        return self.rot(pt, POOLS[pt])

    def enum(self, name):
        ms = self.s.enums[name]
        pool = [ms[0], ms[-1]] + ms[1:-1]
        return self.rot('enum:' + name, pool)

    def value(self, kind, v, depth):
        if kind[0] == 'tagged':
            rows = [r for r in self.s.tables[kind[1]] if r[2] <= v < r[3]]
            r = self.rot('tagged:%s:%d' % (kind[1], v), rows)
            return ('T', r[0], self.value(tuple(r[1]), v, depth))
        if kind[0] == 'prim':
            return ('P', kind[1], self.prim(kind[1]))
        if kind[0] == 'enum':
            return ('E', kind[1], self.enum(kind[1]))
        return self.struct(kind[1], v, depth + 1)

    def struct(self, cname, v, depth=0, counts=None, nonempty=False):
        """counts: per active item the number of occurrences (top level); None -> random presence.
        A dispatched item (`by`) takes its tag and kind from its table under the value of its key item; the key
        item's value is drawn from the table keys so that generated values stay inside the modelled domain."""
        items = self.s.active(cname, v)
        key_for = {}                                  # index of a key item -> the dispatched item that uses it
        for it in items:
            if it.get('by') and it['by'].get('src') != 'next_type':
                key_for[it['by']['ix']] = it
        fields = []
        rebind = self.s.classes[cname].get('rebind')
        if self.s.classes[cname].get('rebind_nested'):
            rebind = None                 # the header item is generated as a header (which announces v itself)
        for i, it in enumerate(items):
            if rebind is not None and i == rebind:
                # the ProtocolVersion item the reader rebinds kmip_version from: announce the version generated for
                pv = self.s.active('ProtocolVersion', v)
                fields.append((it, [('S', 'ProtocolVersion', [(pv[0], [('P', 'PInt', v // 10)]), (pv[1], [('P', 'PInt', v % 10)])])]))
                continue
            if counts is not None:
                n = counts[i]
            elif it['mult'] == 'Req':
                n = 1
            elif it['mult'] == 'Many1':
                n = self.rng.choice([1, 1, 2, 3])
            elif depth >= self.max_depth:
                n = 0
            elif self.force_full:
                n = 1                                     # everything present, recursively (repeated items once below the top)
            elif it['mult'] == 'Opt':
                n = 1 if self.rng.random() < 0.6 else 0
            else:
                n = self.rng.choice([0, 1, 1, 2, 3])
            if nonempty and it['mult'] == 'Many' and n == 0:
                n = 1
            if it.get('by') and it['by'].get('src') == 'next_type' and it['mult'] == 'Req':
                n = 1
            if i in key_for and n:
                table = key_for[i]['by']['table']
                row = self.rot('key:%s.%s' % (cname, it['field']), table)
                key = row[0]
                val = ('P', 'PText', key[1]) if key[0] == 'text' else ('E', it['kind'][1], key[1])
                fields.append((it, [val]))
                continue
            if it.get('by') and it['by'].get('src') == 'next_type':
                # kind chosen by the type byte of the item itself: any row
                row = self.rot('alt:%s.%s' % (cname, it['field']), it['by']['table'])
                res = dict(it, tag=row[1], kind=list(row[2]))
                res.pop('by')
                fields.append((res, [self.value(tuple(row[2]), v, depth) for _ in range(n)]))
                continue
            if it.get('by'):
                kf = fields[it['by']['ix']][1] if it['by']['ix'] < len(fields) else []
                row = None
                if len(kf) == 1:
                    kv = kf[0]
                    key = ['text', kv[2]] if kv[0] == 'P' else ['enum', kv[2]]
                    row = next((r for r in it['by']['table'] if r[0] == key), None)
                if row is None:
                    fields.append((it, []))          # no key (or a key outside the table): nothing can be encoded here
                    continue
                res = dict(it, tag=row[1], kind=list(row[2]))
                res.pop('by')
                fields.append((res, [self.value(tuple(row[2]), v, depth) for _ in range(n)]))
                continue
            if it.get('converted') and it['kind'][0] == 'struct':
                # decoded into a plain Python list through a conversion that does not distinguish "empty structure" from
                # "absent": only non-empty structures are in the image of the encoder
                fields.append((it, [self.struct(it['kind'][1], v, depth + 1, None, nonempty=True) for _ in range(n)]))
                continue
            fields.append((it, [self.value(tuple(it['kind']), v, depth) for _ in range(n)]))
        # post-conditions of the class (at least one of / required if): nested, randomly populated values are repaired so that
        # they stay encodable; the explicit occurrence vectors of the top level are left alone (they exercise the refusals)
        if counts is None:
            for q in self.s.classes[cname].get('post_wr', []):
                if not (q['lo'] <= v < q['hi']):
                    continue
                c = q['check']
                need = None
                if c[0] == 'AtLeastOneOf' and not any(fields[i][1] for i in c[1] if i < len(fields)):
                    need = c[1][0]
                elif c[0] == 'RequiredIf' and c[1] < len(fields) and not fields[c[1]][1]:
                    kv = fields[c[2]][1] if c[2] < len(fields) else []
                    if len(kv) == 1 and kv[0][0] == 'E' and '(VEnum %d)' % kv[0][2] == c[3]:
                        need = c[1]
                if need is not None and need < len(fields) and not fields[need][0].get('by'):
                    it = fields[need][0]
                    fields[need] = (it, [self.value(tuple(it['kind']), v, depth)])
        # a counted item: the Integer item of the header structure that holds the count says how many there are
        for i, it in enumerate(items):
            cn = it.get('counted')
            if cn and cn['ix'] < len(fields) and len(fields[cn['ix']][1]) == 1:
                hv = fields[cn['ix']][1][0]
                for k, (hit, hvals) in enumerate(hv[2]):
                    if hit['tag'] == cn['tag'] and hvals:
                        hv[2][k] = (hit, [('P', 'PInt', len(fields[i][1]))])
        return ('S', cname, fields)

    def count_vectors(self, cname, v, budget, exhaustive_limit=8):
        """Occurrence counts per active item: every presence/absence combination of the optional and repeated
        items when there are at most `exhaustive_limit` of them (2^8), structured + sampled otherwise; then
        capped to `budget` (structured ones first).  Repeated items take 0 / 1 / 3 elements."""
        items = self.s.active(cname, v)
        free = [i for i, it in enumerate(items) if it['mult'] not in ('Req', 'Many1')]
        k = len(free)
        masks = []
        structured = [0, (1 << k) - 1] + [1 << j for j in range(k)] + [((1 << k) - 1) ^ (1 << j) for j in range(k)]
        seen = set()
        for m in structured:
            if m not in seen:
                seen.add(m)
                masks.append(m)
        if k <= exhaustive_limit:
            rest = [m for m in range(1 << k) if m not in seen]
        else:
            rest = []
            for _ in range(4 * budget):
                m = self.rng.getrandbits(k)
                if m not in seen:
                    seen.add(m)
                    rest.append(m)
        self.rng.shuffle(rest)
        masks = (masks + rest)
        if len(masks) > budget:
            head = masks[:min(len(structured), budget)]
            masks = head + masks[len(head):budget]
        out = []
        for n, m in enumerate(masks):
            counts = []
            for i, it in enumerate(items):
                if it['mult'] == 'Req':
                    counts.append(1)
                elif it['mult'] == 'Many1':
                    counts.append(1 if (n + i) % 2 == 0 else 3)
                else:
                    bit = (m >> free.index(i)) & 1
                    if it['mult'] == 'Opt':
                        counts.append(bit)
                    else:
                        counts.append(0 if not bit else (1 if (n + i) % 2 == 0 else 3))
            out.append(counts)
        return out, k


# ill-formed UTF-8 (lone continuation, truncated sequence, overlong forms, surrogates, > U+10FFFF, invalid lead bytes)
# and well-formed boundary sequences
UTF8_PROBES = [b'\x80', b'\xbf', b'\xc3', b'\xc3\x28', b'\xc0\x80', b'\xc1\xbf', b'\xe0\x80\x80', b'\xe0\x9f\xbf', b'\xed\xa0\x80',
               b'\xed\xbf\xbf', b'\xf0\x80\x80\x80', b'\xf0\x8f\xbf\xbf', b'\xf4\x90\x80\x80', b'\xf5\x80\x80\x80', b'\xff', b'\xfe',
               b'\xe2\x82', b'\xf0\x9f\x94', b'a\xe2\x82\xacb\xc3', b'ab\xffcd',
               b'\xc2\x80', b'\xdf\xbf', b'\xe0\xa0\x80', b'\xef\xbf\xbf', b'\xf0\x90\x80\x80', b'\xf4\x8f\xbf\xbf', b'\xed\x9f\xbf', b'\xee\x80\x80']


# ------------------------------------------------------------------ mutations of a valid encoding
def mutations(tag, val, rng, schema, v, gen):
    """(label, bytes) list: field-level and byte-level corruptions of the encoding of a top-level structure value."""
    chunks = encode_chunks(val)
    good = wrap(tag, [b for _, b in chunks])
    out = []
    cs = [b for _, b in chunks]
    n = len(cs)
    if n:
        i = rng.randrange(n)
        out.append(('drop-field', wrap(tag, cs[:i] + cs[i + 1:])))
        req = [j for j, (it, _) in enumerate(chunks) if it['mult'] == 'Req']
        if req:
            j = rng.choice(req)
            out.append(('drop-required', wrap(tag, cs[:j] + cs[j + 1:])))
        i = rng.randrange(n)
        out.append(('dup-field', wrap(tag, cs[:i + 1] + [cs[i]] + cs[i + 1:])))
        out.append(('dup-at-end', wrap(tag, cs + [cs[rng.randrange(n)]])))
        if n >= 2:
            i = rng.randrange(n - 1)
            out.append(('swap-fields', wrap(tag, cs[:i] + [cs[i + 1], cs[i]] + cs[i + 2:])))
            out.append(('reverse-fields', wrap(tag, cs[::-1])))
        # a nested header corrupted: tag of one field replaced by an unrelated / unknown tag, type byte changed
        i = rng.randrange(n)
        c = bytearray(cs[i])
        c[0:3] = (0x420001).to_bytes(3, 'big')
        out.append(('field-tag-foreign', wrap(tag, cs[:i] + [bytes(c)] + cs[i + 1:])))
        c = bytearray(cs[i])
        c[0:3] = (0x42FFFF).to_bytes(3, 'big')
        out.append(('field-tag-unknown', wrap(tag, cs[:i] + [bytes(c)] + cs[i + 1:])))
        c = bytearray(cs[i])
        c[3] = (c[3] % 10) + 1
        out.append(('field-type-changed', wrap(tag, cs[:i] + [bytes(c)] + cs[i + 1:])))
        c = bytearray(cs[i])
        if len(c) > 8:
            c[8 + rng.randrange(len(c) - 8)] ^= 1 << rng.randrange(8)
            out.append(('field-bit-flip', wrap(tag, cs[:i] + [bytes(c)] + cs[i + 1:])))
        c = bytearray(cs[i])
        ln = struct.unpack('!I', bytes(c[4:8]))[0]
        c[4:8] = struct.pack('!I', (ln + rng.choice([1, 8, -1, -8])) % 2 ** 32)
        out.append(('field-length-changed', wrap(tag, cs[:i] + [bytes(c)] + cs[i + 1:])))
        # enumeration out of range / text not ASCII
        for j, (it, _) in enumerate(chunks):
            if it['kind'][0] == 'enum':
                c = bytearray(cs[j])
                c[8:12] = struct.pack('!I', rng.choice([0, 0xFFFF, 0x7FFFFFFF, 0x80000000 + 1]))
                out.append(('enum-not-a-member', wrap(tag, cs[:j] + [bytes(c)] + cs[j + 1:])))
                break
        for j, (it, _) in enumerate(chunks):
            if it['kind'] == ['prim', 'PText']:
                # the text replaced by ill-formed (and a few well-formed) UTF-8 byte sequences
                for k in range(2):
                    raw = rng.choice(UTF8_PROBES)
                    c = hdr(it['tag'], 7, len(raw)) + raw + pad(len(raw))
                    out.append(('text-utf8-probe', wrap(tag, cs[:j] + [c] + cs[j + 1:])))
                break
    # an item the class does not define / defines only under another version
    stray = enc_prim(0x420008, 'PText', 'stray')      # ATTRIBUTE_NAME as a stray item
    out.append(('stray-item-front', wrap(tag, [stray] + cs)))
    out.append(('stray-item-end', wrap(tag, cs + [stray])))
    cname = val[1]
    other = [it for it in schema.classes[cname]['wr'] if not (it['lo'] <= v < it['hi'])]
    if other:
        it = rng.choice(other)
        vv = max(it['lo'], 10) if it['lo'] in VERSIONS else 20
        if not (it['lo'] <= vv < it['hi']):
            vv = [x for x in VERSIONS if it['lo'] <= x < it['hi']][0]
        extra = encode(it['tag'], gen.value(tuple(it['kind']), vv, 1))
        pos = rng.randrange(n + 1)
        out.append(('other-version-field', wrap(tag, cs[:pos] + [extra] + cs[pos:])))
    # byte level
    for cut in sorted({1, 8, len(good) // 2, len(good) - 8, rng.randrange(1, len(good))}):
        if 0 < cut < len(good):
            out.append(('truncate-%d' % cut, good[:len(good) - cut]))
    out.append(('trailing-byte', good + b'\x00'))
    out.append(('trailing-8', good + b'\x00' * 8))
    out.append(('trailing-item', good + stray))
    ln = struct.unpack('!I', good[4:8])[0]
    for d in (8, -8, 1, -1, 16):
        if 0 <= ln + d < 2 ** 32:
            out.append(('length%+d' % d, good[:4] + struct.pack('!I', ln + d) + good[8:]))
            out.append(('length%+d-with-trailing' % d, good[:4] + struct.pack('!I', ln + d) + good[8:] + stray))
    out.append(('length-huge', good[:4] + struct.pack('!I', 2 ** 32 - 1) + good[8:]))
    out.append(('outer-tag-wrong', (0x420001).to_bytes(3, 'big') + good[3:]))
    out.append(('outer-type-wrong', good[:3] + b'\x02' + good[4:]))
    out.append(('empty-input', b''))
    out.append(('header-only-7', good[:7]))
    return good, out
