"""C18 - policies in force follow the policy files; built-in policies are untouchable;
invalid files are rejected as a whole.

Pieces
  * tie T : translate/gen_policynames.py (reserved names, section names, enum member names)
  * proof : coq/props/C18.v over coq/theories/Monitor/*
  * tie K : the real PolicyDirectoryMonitor on a directory under ctx.work with controlled
            mtimes and a plain dict as store, against Monitor.scan (Coq compares complete
            tracking state after every scan); the real read_policy_from_file against
            Parse.read_policy on generated JSON documents
  * direct oracle (no model): after every scan the store equals the specification computed
            in Python from the event history; reserved entries are the very same objects;
            the parser raises nothing but ValueError
"""
import json
import logging
import os
import shutil
import subprocess
import sys
from pathlib import Path

from vlib import coqprint as cp

FILES = ['a.json', 'b.json', 'c.json', 'd.json']          # sorted; file id = index
RESERVED = {'default': 0, 'public': 1}

HEADER = ('From PK Require Import Monitor.MonitorCases.\nFrom Coq Require Import List ZArith.\n'
          'Import ListNotations.\nOpen Scope Z_scope.\n')


# ----------------------------------------------------------------------------- documents
def pol(perm, op='GET', ot='SYMMETRIC_KEY'):
    return {ot: {op: perm}}


# the contents used by the exhaustive exploration: overlapping names p/q, a reserved name, a broken file
XCONTENTS = [
    json.dumps({'p': pol('ALLOW_ALL')}),
    json.dumps({'p': pol('ALLOW_OWNER'), 'q': pol('ALLOW_ALL')}),
    json.dumps({'q': pol('DISALLOW_ALL'), 'default': pol('ALLOW_ALL')}),
    '{"p": {"SYMMETRIC_KEY": {"GET": "ALLOW_ALL"}',                       # truncated JSON
]
# further contents for the random histories
RCONTENTS = XCONTENTS + [
    json.dumps({'p': pol('DISALLOW_ALL'), 'r': {'preset': pol('ALLOW_OWNER'), 'groups': {'g': pol('ALLOW_ALL')}}}),
    json.dumps({'q': pol('ALLOW_OWNER'), 'r': pol('ALLOW_ALL'), 'public': pol('ALLOW_ALL')}),
    json.dumps({}),
    json.dumps({'p': {}}),                                                  # empty policy: skipped by the parser
    json.dumps({'p': pol('ALLOW_ALL'), 'q': {'SYMMETRIC_KEY': {'GET': 'MAYBE'}}}),   # bad permission
    json.dumps({'r': {'preset': pol('ALLOW_ALL'), 'CERTIFICATE': {}}}),     # mixes sections and object types
    json.dumps([1, 2]),
    json.dumps({'p': pol('ALLOW_OWNER')}),                                  # same text as a definition of XCONTENTS[1].p
    # round 8 (C18O): policy names are case- and whitespace-sensitive; look-alikes of the reserved names are ordinary names
    json.dumps({'Default': pol('ALLOW_ALL'), 'PUBLIC': pol('ALLOW_OWNER'), 'q': pol('ALLOW_ALL')}),
    json.dumps({' default': pol('DISALLOW_ALL'), 'public ': pol('ALLOW_ALL'), 'Default': pol('ALLOW_OWNER'), 'P': pol('ALLOW_ALL')}),
]


class Ids:
    """Numbering of policy names and definitions (injective; 'default'=0, 'public'=1)."""

    def __init__(self):
        self.names = dict(RESERVED)
        self.defs = {}
        self.objs = {}              # def id -> the definition object itself

    def name(self, n):
        if n not in self.names:
            self.names[n] = len(self.names)
        return self.names[n]

    def defn(self, d):
        k = canon(d)
        if k not in self.defs:
            self.defs[k] = len(self.defs) + 10
            self.objs[self.defs[k]] = d
        return self.defs[k]


def canon(d):
    if isinstance(d, dict):
        return '{' + ','.join(sorted('%s:%s' % (canon(k), canon(v)) for k, v in d.items())) + '}'
    return repr(d)


# ----------------------------------------------------------------------------- implementation driver
class FakeTime:
    def __init__(self):
        self.t = 1000.0

    def time(self):
        self.t += 1.0
        return self.t

    def sleep(self, s):
        pass


class Driver:
    """One real PolicyDirectoryMonitor on a private directory; the store is a plain dict."""

    def __init__(self, ctx, tag, via_symlink=False):
        """via_symlink: the monitor is given a symbolic link to the policy directory."""
        logging.disable(logging.CRITICAL)
        from kmip.services.server import monitor
        from kmip.core import policy
        self.monitor_mod = monitor
        self.policy_mod = policy
        monitor.time = FakeTime()
        self.real_dir = str(ctx.work / ('dir_' + tag))
        os.makedirs(self.real_dir)
        self.targets = self.real_dir + '_targets'
        os.makedirs(self.targets)
        self.dir = self.real_dir
        if via_symlink:
            self.dir = str(ctx.work / ('link_' + tag))
            os.symlink(self.real_dir, self.dir)
        self.ids = Ids()
        self.parse_cache = {}
        self.store = {}
        self.mon = None
        self.builtin = {}
        self.dirstate = {}          # basename -> (text, mtime)

    def path(self, b):
        return os.path.join(self.dir, b)

    def fid(self, path):
        return FILES.index(os.path.basename(path))

    # -- directory
    def write(self, b, text, mtime, kind='file'):
        """Make the directory entry b a policy file with this text and mtime.  kind: what sort of entry -
        'file' a regular file; 'symlink-out' / 'symlink-in' a symbolic link to a regular file outside / inside
        the directory (the target's name does not end in .json); 'hardlink' a second link to a file outside.
        os.listdir + open + os.path.getmtime see the same policy file in all four cases."""
        self.remove(b)
        p = self.path(b)
        if kind == 'file':
            target = p
        elif kind == 'symlink-in':
            target = os.path.join(self.real_dir, b[:-5] + '.target')
        else:
            target = os.path.join(self.targets, b + '.t')
        with open(target, 'w') as f:
            f.write(text)
        if kind == 'symlink-out':
            os.symlink(target, p)
        elif kind == 'symlink-in':
            os.symlink(os.path.basename(target), p)
        elif kind == 'hardlink':
            os.link(target, p)
        os.utime(p, (mtime, mtime))         # follows symbolic links: the target's mtime
        self.dirstate[b] = (text, mtime, kind)

    def remove(self, b):
        if b in self.dirstate:
            os.remove(self.path(b))
            for t in (os.path.join(self.real_dir, b[:-5] + '.target'), os.path.join(self.targets, b + '.t')):
                if os.path.lexists(t):
                    os.remove(t)
            del self.dirstate[b]

    def sync_dir(self, want):
        for b in list(self.dirstate):
            if b not in want:
                self.remove(b)
        for b, ent in want.items():
            text, mt, kind = ent[0], ent[1], (ent[2] if len(ent) > 2 else 'file')
            if self.dirstate.get(b) != (text, mt, kind):
                self.write(b, text, mt, kind)

    # -- monitor
    def reset(self, store0):
        """store0: dict name -> builtin tag (string).  Fresh monitor state on an empty directory."""
        self.sync_dir({})
        self.store.clear()
        if store0 == 'REAL':        # the server's own built-in policies (engine leg)
            import copy
            self.builtin = copy.deepcopy(self.policy_mod.policies)
        else:
            self.builtin = {k: {'builtin': v} for k, v in store0.items()}
        self.store.update(self.builtin)
        if self.mon is None:
            self.mon = self.monitor_mod.PolicyDirectoryMonitor(self.dir, self.store, live_monitoring=False)
        else:
            self.mon.initialize_tracking_structures()

    def parse(self, text):
        """Result of the real parser on this text: list of (name id, def id) or None (ValueError)."""
        if text not in self.parse_cache:
            p = os.path.join(self.dir, '..', 'parse_probe.txt')
            with open(p, 'w') as f:
                f.write(text)
            try:
                r = self.policy_mod.read_policy_from_file(p)
                self.parse_cache[text] = [(self.ids.name(k), self.ids.defn(v)) for k, v in r.items()]
            except ValueError:
                self.parse_cache[text] = None
        return self.parse_cache[text]

    def fs_view(self):
        return [(FILES.index(b), self.dirstate[b][1], self.parse(self.dirstate[b][0])) for b in sorted(self.dirstate)]

    def state(self):
        m = self.mon
        return {
            'store': sorted((self.ids.name(k), self.ids.defn(v)) for k, v in self.store.items()),
            'cache': sorted((self.ids.name(k), [(self.fid(e[1]), self.ids.defn(e[2])) for e in reversed(v)])
                            for k, v in m.policy_cache.items()),
            'map': sorted((self.ids.name(k), self.fid(v)) for k, v in m.policy_map.items()),
            'ts': sorted((self.fid(k), v) for k, v in m.file_timestamps.items()),
            'files': [self.fid(f) for f in m.policy_files],
        }

    def scan(self):
        self.mon.scan_policies()

    def snapshot(self):
        m = self.mon
        return (dict(self.store), {k: list(v) for k, v in m.policy_cache.items()}, dict(m.policy_map),
                dict(m.file_timestamps), list(m.policy_files), dict(self.dirstate))

    def restore(self, snap):
        st, cache, pmap, ts, files, dirstate = snap
        self.store.clear()
        self.store.update(st)
        m = self.mon
        m.policy_cache = {k: list(v) for k, v in cache.items()}
        m.policy_map = dict(pmap)
        m.file_timestamps = dict(ts)
        m.policy_files = list(files)
        self.sync_dir(dirstate)

    def reserved_intact(self):
        """The reserved entries of the store are the very objects put there at start."""
        for k, v in self.builtin.items():
            if k in RESERVED and self.store.get(k) is not v:
                return k
        for k in RESERVED:
            if k not in self.builtin and k in self.store:
                return k
        return None


# ----------------------------------------------------------------------------- specification in Python (direct oracle)
class SpecState:
    """Property C18 evaluated from the history of directory views alone.

    loaded: list of (file id, {name id: def id}), most recently loaded first."""

    def __init__(self, reserved):
        self.reserved = dict(reserved)      # name id -> def id
        self.ts = {}
        self.files = []
        self.loaded = []
        self.stale = {}                     # name id -> set of (file id, def id) dropped while shadowed

    def copy(self):
        s = SpecState(self.reserved)
        s.ts = dict(self.ts)
        s.files = list(self.files)
        s.loaded = [(f, dict(d)) for f, d in self.loaded]
        s.stale = {k: set(v) for k, v in self.stale.items()}
        return s

    def key(self):
        return (tuple((f, tuple(sorted(d.items()))) for f, d in self.loaded),
                tuple(sorted((k, tuple(sorted(v))) for k, v in self.stale.items() if v)))

    def definers(self, p):
        return [(f, d[p]) for f, d in self.loaded if p in d]

    def step(self, view):
        """view: [(file id, mtime, defs or None)].  Returns True when the step contains no shadowed drop."""
        ok = True
        present = [f for f, _, _ in view]
        for f in self.files:
            if f not in present:
                self.ts.pop(f, None)
                self.loaded = [(g, d) for g, d in self.loaded if g != f]
                for s in self.stale.values():
                    for e in [e for e in s if e[0] == f]:
                        s.discard(e)
        for f in present:
            if f not in self.files:
                self.ts[f] = 0
        self.files = present
        byf = {f: (t, c) for f, t, c in view}
        for f in sorted(self.ts):
            t, c = byf[f]
            if t > self.ts[f]:
                self.ts[f] = t
                if c is None:
                    continue
                new = {p: d for p, d in c}
                old = dict(next((d for g, d in self.loaded if g == f), {}))
                for p in old:
                    if p not in new and p not in (0, 1) and f in [g for g, _ in self.definers(p)[1:]]:
                        ok = False
                        self.stale.setdefault(p, set()).add((f, old[p]))
                self.loaded = [(f, new)] + [(g, d) for g, d in self.loaded if g != f]
        return ok

    def store(self):
        out = dict(self.reserved)
        for f, d in reversed(self.loaded):
            for p, v in d.items():
                if p not in (0, 1):
                    out[p] = v
        return out


# ----------------------------------------------------------------------------- printers
def pr_al(xs, prv):
    return cp.lst(xs, lambda kv: cp.pair(cp.z(kv[0]), prv(kv[1])))


def pr_state(s):
    return '(MState %s %s %s %s %s false)' % (
        pr_al(s['store'], cp.z),
        pr_al(s['cache'], lambda c: cp.lst(c, lambda e: cp.pair(cp.z(e[0]), cp.z(e[1])))),
        pr_al(s['map'], cp.z), pr_al(s['ts'], lambda t: cp.z(int(t))), cp.lst(s['files'], cp.z))


def pr_view(view):
    return cp.lst(view, lambda e: cp.pair(cp.z(e[0]), cp.pair(cp.z(int(e[1])), cp.option(e[2], lambda ds: pr_al(ds, cp.z)))))


def freeze(x):
    if isinstance(x, dict):
        return tuple(sorted((k, freeze(v)) for k, v in x.items()))
    if isinstance(x, (list, tuple)):
        return tuple(freeze(v) for v in x)
    return x


# ----------------------------------------------------------------------------- one observed scan
class Explorer:
    def __init__(self, ctx, tag, via_symlink=False):
        self.ctx = ctx
        self.drv = Driver(ctx, tag, via_symlink)
        self.cases = {}             # canonical MScan/MInit case text -> description
        self.runs = []              # MRun / SRun texts
        self.scans = 0

    def start(self, store0):
        d = self.drv
        d.reset(store0)
        res = {d.ids.name(k): d.ids.defn(v) for k, v in d.builtin.items() if k in RESERVED}
        st = d.state()
        c = '(MInit %s %s)' % (pr_al(sorted((d.ids.name(k), d.ids.defn(v)) for k, v in d.builtin.items()), cp.z), pr_state(st))
        self.cases.setdefault(c, {'init': store0})
        return SpecState(res)

    def observed_scan(self, spec, history):
        """Scan once; add the K case; run the direct oracle.  Returns (view, post state, expected store, ok, verdict)."""
        d = self.drv
        pre = d.state()
        view = d.fs_view()
        try:
            d.scan()
        except Exception as e:           # noqa - the monitor process would die here
            self.ctx.violation({'class': 'scan-raises', 'exc': type(e).__name__},
                               {'history': history, 'exception': repr(e)},
                               'scan_policies raised %s' % type(e).__name__)
            return view, None, None, True, 'raise'
        self.scans += 1
        post = d.state()
        c = '(MScan %s %s %s)' % (pr_state(pre), pr_view(view), pr_state(post))
        if c not in self.cases:
            self.cases[c] = {'history': history}
        ok = spec.step(view)
        exp = spec.store()
        obs = dict(post['store'])
        verdict = 'ok'
        bad = d.reserved_intact()
        if bad is not None:
            verdict = 'bad'
            self.ctx.violation({'class': 'reserved-policy-touched', 'name': bad}, {'history': history, 'store': post['store']},
                               "the built-in policy '%s' was replaced, removed or created by a scan" % bad)
        if obs != exp:
            verdict = 'bad'
            names = {v: k for k, v in d.ids.names.items()}
            diff = sorted(p for p in set(obs) | set(exp) if obs.get(p) != exp.get(p))
            p = diff[0]
            stale = spec.stale.get(p, set())
            if obs.get(p) is not None and obs.get(p) in [e[1] for e in stale]:
                sig = {'class': 'stale-cache-resurrection', 'pattern': 'shadowed-file-drops-name'}
                what = ("policy '%s' is served from a stale cache entry of a file that no longer defines it" % names[p])
            else:
                sig = {'class': 'store-differs-from-files', 'name': names[p]}
                what = "after the scan the policy '%s' in force is not the one the policy files determine" % names[p]
            self.ctx.violation(sig, {'history': history, 'name': names[p], 'observed_def': obs.get(p), 'expected_def': exp.get(p),
                                     'observed_store': post['store'], 'expected_store': sorted(exp.items()),
                                     'policy_map': post['map'], 'policy_cache': post['cache']}, what)
        return view, post, exp, ok, verdict


# ----------------------------------------------------------------------------- exhaustive exploration
def events_alphabet(nfiles, ncontents):
    ev = [('scan',)]
    for f in range(nfiles):
        ev.append(('rm', f))
        for c in range(ncontents):
            ev.append(('w', f, c))
    return ev


def explore(ctx, ex, depth, store0):
    """All sequences of <= depth events (each followed by a scan) from a fresh monitor.

    Depth-first with snapshots; a subtree is skipped when the same (monitor state, directory,
    specification state) was already expanded to at least the remaining depth - the monitor,
    the parser and the oracle are deterministic functions of exactly these."""
    d = ex.drv
    alphabet = events_alphabet(3, len(XCONTENTS))
    seen = {}
    stats = {'nodes': 0, 'memo_hits': 0, 'known_or_bad_leaves': 0}

    def key(spec):
        st = d.state()
        return (freeze(st['store']), freeze(st['cache']), freeze(st['map']), tuple(st['files']),
                tuple(sorted((b, t[0]) for b, t in d.dirstate.items())), spec.key())

    def rec(spec, history, remaining):
        if remaining == 0:
            return
        k = key(spec)
        if seen.get(k, -1) >= remaining:
            stats['memo_hits'] += 1
            return
        seen[k] = remaining
        snap = d.snapshot()
        for ev in alphabet:
            d.restore(snap)
            if ev[0] == 'w':
                # the mtime grows with the position in the sequence: greater than every mtime seen so far
                d.write(FILES[ev[1]], XCONTENTS[ev[2]], 10 + len(history))
            elif ev[0] == 'rm':
                if FILES[ev[1]] not in d.dirstate:
                    continue            # removing an absent file is the same as ('scan',)
                d.remove(FILES[ev[1]])
            sp = spec.copy()
            h = history + [list(ev)]
            view, post, exp, ok, verdict = ex.observed_scan(sp, h)
            stats['nodes'] += 1
            ctx.count('explore.event.' + ev[0])
            ctx.case_seen(('x', k, ev), nontrivial=True)
            if verdict != 'ok':
                stats['known_or_bad_leaves'] += 1
                continue                # the monitor has left the specification: do not judge what follows
            rec(sp, h, remaining - 1)
        d.restore(snap)

    spec = ex.start(store0)
    rec(spec, [], depth)
    stats['distinct_states'] = len(seen)
    return stats


# ----------------------------------------------------------------------------- scripted and random histories
# a history: list of steps; a step: list of events applied before one scan
# event: ('w', file, content index into RCONTENTS, mtime mode) | ('rm', file)
#   mtime mode: 'new' (greater than every mtime so far), 'same' (keep the file's mtime), 'old' (smaller)
CORPUS = [
    # F8 of DESIGN.md: A defines p; B shadows; A redefines; B stops defining p; A removed
    ('f8', [[('w', 0, 0, 'new')], [('w', 1, 1, 'new')], [('w', 0, 0, 'new')], [('w', 1, 2, 'new')], [('rm', 0)]]),
    # shortest form: B defines p; A shadows; B drops p; A removed
    ('f8-short', [[('w', 1, 0, 'new')], [('w', 0, 0, 'new')], [('w', 1, 2, 'new')], [('rm', 0)]]),
    # restore after the shadowing file is removed / stops defining the name
    ('restore-rm', [[('w', 0, 0, 'new')], [('w', 1, 1, 'new')], [('rm', 1)]]),
    ('restore-drop', [[('w', 0, 0, 'new')], [('w', 1, 1, 'new')], [('w', 1, 2, 'new')]]),
    ('break-repair', [[('w', 0, 1, 'new')], [('w', 0, 3, 'new')], [], [('w', 0, 0, 'new')]]),
    ('two-removed-at-once', [[('w', 0, 0, 'new'), ('w', 1, 1, 'new'), ('w', 2, 4, 'new')], [('rm', 0), ('rm', 2)], [('rm', 1)]]),
    ('same-mtime-edit', [[('w', 0, 0, 'new')], [('w', 0, 1, 'same')], [('w', 0, 1, 'new')]]),
    ('older-mtime-edit', [[('w', 0, 0, 'new')], [('w', 0, 1, 'old')], []]),
    ('remove-readd-between-scans', [[('w', 0, 0, 'new')], [('rm', 0), ('w', 0, 1, 'old')], [('rm', 0)], [('w', 0, 1, 'old')]]),
    # kinds of directory entries: what os.listdir + open read is the policy file, whatever sort of entry it is
    ('symlink-edit-target-replace-by-file-and-back',
     [[('w', 0, 0, 'new', 'symlink-out')], [('w', 0, 1, 'new', 'symlink-out')], [('w', 0, 0, 'new', 'file')],
      [('w', 0, 1, 'new', 'symlink-in')], [('w', 1, 0, 'new', 'hardlink')], [('rm', 0)], [('rm', 1)]]),
    ('file-replaced-by-symlink-same-content-same-mtime',
     [[('w', 0, 1, 'new', 'file')], [('w', 0, 1, 'same', 'symlink-out')], [('w', 0, 0, 'new', 'symlink-out')], [('w', 1, 4, 'new', 'symlink-in')],
      [('rm', 0)]]),
    ('hardlink-shadows-symlink', [[('w', 0, 0, 'new', 'symlink-in')], [('w', 1, 1, 'new', 'hardlink')], [('w', 0, 4, 'new', 'symlink-in')], [('rm', 1)]]),
    # a cache stack with several entries of ONE file (adjacent and separated), then that file goes away or drops the name
    ('adjacent-entries-of-a-removed-file',
     [[('w', 0, 0, 'new')], [('w', 1, 1, 'new')], [('w', 0, 4, 'new')], [('rm', 1)], [('w', 2, 0, 'new')], [('rm', 0)], [('rm', 2)]]),
    ('adjacent-entries-of-a-file-that-drops-the-name',
     [[('w', 0, 0, 'new')], [('w', 1, 1, 'new')], [('w', 0, 4, 'new')], [('rm', 1)], [('w', 2, 0, 'new')], [('w', 0, 2, 'new')], [('rm', 2)]]),
    ('three-entries-of-one-file',
     [[('w', 0, 0, 'new')], [('w', 1, 1, 'new')], [('w', 0, 4, 'new')], [('w', 1, 0, 'new')], [('w', 0, 0, 'new')], [('rm', 1)], [('w', 2, 1, 'new')],
      [('rm', 0)], [('rm', 2)]]),
    ('own-stale-entry', [[('w', 0, 0, 'new')], [('w', 1, 1, 'new')], [('w', 0, 4, 'new')], [('rm', 1)], [('w', 2, 0, 'new')], [('rm', 2)], [('w', 0, 2, 'new')]]),
]


ENTRY_KINDS = ['file', 'symlink-out', 'symlink-in', 'hardlink']


def random_history(rng, depth, nfiles=len(FILES), ncontents=None):
    ncontents = ncontents or len(RCONTENTS)
    h = []
    for _ in range(depth):
        step = []
        for _ in range(rng.choice([0, 1, 1, 1, 1, 2, 2, 3])):
            r = rng.random()
            f = rng.randrange(nfiles)
            if r < 0.25:
                step.append(('rm', f))
            else:
                mode = rng.choice(['new'] * 8 + ['same', 'old'])
                kind = rng.choice(['file'] * 6 + ENTRY_KINDS)
                step.append(('w', f, rng.randrange(ncontents), mode, kind))
        h.append(step)
    return h


def next_dirstate(cur, step, clock, contents=None):
    """The directory after the events of one step (pure)."""
    cur = dict(cur)
    contents = contents or RCONTENTS
    for ev in step:
        b = FILES[ev[1]]
        if ev[0] == 'rm':
            cur.pop(b, None)
        else:
            clock += 10
            old = cur.get(b)
            if ev[3] == 'same' and old:
                mt = old[1]
            elif ev[3] == 'old':
                mt = old[1] - 5 if old else 50
            else:
                mt = clock
            cur[b] = (contents[ev[2]], mt, ev[4] if len(ev) > 4 else 'file')
    return cur, clock


def run_history(ctx, ex, store0, hist, label, avoid_drop=False, contents=None, probe=None, leg=None):
    """avoid_drop: a step that would contain a shadowed drop (the known finding) is replaced by an
    empty step, so that the whole history stays inside the class the partial theorem covers.
    probe(spec, history): called on the fresh monitor and after every scan that agrees with the
    specification; returns False to end the history."""
    d = ex.drv
    spec = ex.start(store0)
    clock = 100
    done = []
    hdesc = {'label': label, 'store0': store0, 'steps': done}
    if leg:
        hdesc['leg'] = leg
    if probe and not probe(spec, hdesc):
        return ['bad']
    mrun, srun = [], []
    names = set()
    verdicts = []
    for step in hist:
        nd, nclock = next_dirstate(d.dirstate, step, clock, contents)
        if avoid_drop:
            trial = spec.copy()
            if not trial.step([(FILES.index(b), nd[b][1], d.parse(nd[b][0])) for b in sorted(nd)]):
                step, nd, nclock = [], dict(d.dirstate), clock
                ctx.count('history.step.replaced-to-avoid-shadowed-drop')
        clock = nclock
        d.sync_dir(nd)
        for ev in step:
            ctx.count('history.event.%s%s' % (ev[0], '.' + ev[3] if ev[0] == 'w' else ''))
            if ev[0] == 'w':
                ctx.count('history.entry-kind.%s' % (ev[4] if len(ev) > 4 else 'file'))
        done.append([list(e) for e in step])
        view, post, exp, ok, verdict = ex.observed_scan(spec, hdesc)
        verdicts.append(verdict)
        if post is None:
            break
        mrun.append(cp.pair(pr_view(view), pr_al(post['store'], cp.z)))
        srun.append(cp.pair(pr_view(view), cp.pair(pr_al(sorted(exp.items()), cp.z), cp.boolean(ok))))
        names |= set(exp) | {p for _, _, c in view if c for p, _ in c}
        ctx.count('history.scan.' + verdict)
        if verdict != 'ok':
            break       # afterwards the implementation has left the specification
        if probe and not probe(spec, hdesc):
            verdicts[-1] = 'bad'
            break
    s0 = pr_al(sorted((d.ids.name(k), d.ids.defn(v)) for k, v in d.builtin.items()), cp.z)
    ex.runs.append(('(MRun %s %s)' % (s0, cp.lst(mrun, str)), label))
    ex.sruns.append(('(SRun %s %s %s)' % (s0, cp.lst(sorted(names | {0, 1}), cp.z), cp.lst(srun, str)), label))
    ctx.case_seen(('h', freeze(store0), freeze(hist), avoid_drop), nontrivial=any(hist))
    return verdicts


# ----------------------------------------------------------------------------- the engine leg
# "In force" is what the ENGINE applies.  One KmipEngine shares the monitor's store (as server.py wires them: the
# same mapping object is handed to PolicyDirectoryMonitor and to KmipEngine) and lives through all file events of a
# history; after every scan, Get and Locate by the owner and by another user on objects created under the policy
# names in play must come out as the SPECIFICATION's definition for that name says (direct oracle; no model).
def epol(get, locate):
    return {'SYMMETRIC_KEY': {'GET': get, 'LOCATE': locate}}


ECONTENTS = [
    json.dumps({'p': epol('ALLOW_ALL', 'ALLOW_ALL')}),
    json.dumps({'p': epol('ALLOW_OWNER', 'ALLOW_ALL'), 'q': epol('ALLOW_ALL', 'ALLOW_OWNER')}),
    json.dumps({'q': epol('DISALLOW_ALL', 'ALLOW_ALL'), 'default': epol('DISALLOW_ALL', 'DISALLOW_ALL')}),
    '{"p": {"SYMMETRIC_KEY": {"GET": "ALLOW_ALL"}',                                       # truncated JSON
    json.dumps({'p': epol('DISALLOW_ALL', 'ALLOW_OWNER')}),
    json.dumps({'p': {'preset': epol('ALLOW_OWNER', 'ALLOW_OWNER'), 'groups': {'g': epol('ALLOW_ALL', 'ALLOW_ALL')}},
                'public': epol('DISALLOW_ALL', 'DISALLOW_ALL')}),
    json.dumps({'q': epol('ALLOW_OWNER', 'DISALLOW_ALL')}),
    json.dumps({'p': {'CERTIFICATE': {'GET': 'ALLOW_ALL'}}}),                             # p defined, but nothing for symmetric keys
]
ECORPUS = [
    # add, edit, break, repair, shadow, un-shadow, remove, define again in another file
    ('add-edit-break-repair-shadow-remove',
     [[('w', 0, 0, 'new')], [('w', 0, 1, 'new')], [('w', 0, 3, 'new')], [('w', 0, 4, 'new')], [('w', 1, 0, 'new')], [('rm', 1)],
      [('rm', 0)], [('w', 2, 1, 'new')]]),
    ('reserved-name-in-file', [[('w', 0, 2, 'new')], [('w', 1, 5, 'new')], [('rm', 0)], [('rm', 1)]]),
    ('edit-with-unchanged-mtime', [[('w', 0, 0, 'new')], [('w', 0, 4, 'same')], [('w', 0, 4, 'new')], [('w', 0, 7, 'new')], [('w', 0, 6, 'new')]]),
]
ENGINE_NAMES = ['p', 'q', 'default', 'nope']      # 'nope' is never defined by any file


def spec_decision(bundle, user, owner, op):
    """What the policy definition `bundle` (parser output, or None when the name is not defined) says
    about `op` on a symmetric key for a user without groups."""
    from kmip.core import enums
    if not bundle:
        return False
    perm = ((bundle.get('preset') or {}).get(enums.ObjectType.SYMMETRIC_KEY) or {}).get(enums.Operation[op])
    if perm == enums.Policy.ALLOW_ALL:
        return True
    if perm == enums.Policy.ALLOW_OWNER:
        return user == owner
    return False


class EngineProbe:
    def __init__(self, ctx, drv):
        import kdrv
        self.kdrv = kdrv
        self.ctx = ctx
        self.drv = drv
        self.eng = kdrv.Engine(policies=drv.store, workdir=ctx.work / 'engine')
        self.uids = {}
        for n in ENGINE_NAMES:
            r = self.eng.request([kdrv.create(extra=[kdrv.attr(kdrv.AT.OPERATION_POLICY_NAME, n)])], user='alice')
            if r['error'] or not kdrv.ok(r['items'][0]):
                raise RuntimeError('engine leg: cannot create an object under policy %r: %r' % (n, r))
            self.uids[n] = kdrv.first_uid(r['items'][0])
        self.last = {}
        self.probes = 0
        self.ecases = ctx.__dict__.setdefault('c18_ecases', {})
        self.used = ctx.__dict__.setdefault('c18_used_defs', set())

    def close(self):
        self.eng.close()

    def __call__(self, spec, history):
        kdrv, drv, ctx = self.kdrv, self.drv, self.ctx
        exp_store = spec.store()
        store_now = drv.state()['store']
        self.used.update(d for _, d in store_now)
        for user, groups in (('alice', None), ('bob', None), ('carol', ['h', 'g'])):
            r = self.eng.request([kdrv.locate()], user=user, groups=groups)
            located = set((r['items'][0]['payload'] or {}).get('unique_identifiers') or []) if not r['error'] and kdrv.ok(r['items'][0]) else None
            for n in ENGINE_NAMES:
                nid = drv.ids.name(n)
                bundle = drv.ids.objs.get(exp_store.get(nid))
                g = self.eng.request([kdrv.get(self.uids[n])], user=user, groups=groups)
                it = g['items'][0] if not g['error'] else None
                got = None
                if it is not None and kdrv.ok(it):
                    got = True
                elif it is not None and it['reason'] == 'PERMISSION_DENIED':
                    got = False
                for op, observed in (('GET', got), ('LOCATE', None if located is None else self.uids[n] in located)):
                    self.probes += 1
                    if observed is not None:
                        # tie K: the same probe against EngineSide.engine_decision on the store as it is now
                        c = '(ECase %s %s %s %s %s %s %s %s)' % (
                            pr_al(store_now, cp.z), cp.z(nid), cp.string('alice'), cp.string('SYMMETRIC_KEY'), cp.string(op),
                            cp.string(user), cp.option(groups, lambda gs: cp.lst(gs, cp.string)), cp.boolean(observed))
                        if c not in self.ecases:
                            self.ecases[c] = {'history': json.loads(json.dumps(history)), 'probe': [n, user, groups, op]}
                    if groups is not None:
                        ctx.count('engine.probe.with-groups.%s' % ('allowed' if observed else 'denied'))
                        continue        # how a definition is evaluated for group members is C03's subject (DESIGN F10)
                    want = spec_decision(bundle, user, 'alice', op)
                    ctx.count('engine.probe.%s.%s' % (op, 'allowed' if want else 'denied'))
                    k = (n, user, op)
                    if k in self.last and self.last[k] != want:
                        ctx.count('engine.probe.decision-changed-by-file-event')
                    self.last[k] = want
                    if observed is not want:
                        in_store = drv.store.get(n)
                        ctx.violation(
                            {'class': 'engine-applies-other-policy', 'op': op},
                            {'history': history, 'probe': {'policy_name': n, 'user': user, 'object_owner': 'alice', 'operation': op},
                             'observed': observed, 'expected': want,
                             'definition_by_the_files': repr(bundle)[:400], 'definition_in_the_store': repr(in_store)[:400],
                             'store_follows_files': canon(in_store) == canon(bundle) if bundle is not None else in_store is None},
                            "after these file events %s of an object under policy '%s' by %s is %s, the policy files say %s"
                            % (op, n, 'its owner' if user == 'alice' else 'another user',
                               {True: 'allowed', False: 'denied', None: 'failing otherwise'}[observed], 'allowed' if want else 'denied'))
                        return False
        return True


def source_purges_shadowed():
    """True when the regenerated constants say the source has the stale-cache repair: shadowed drops are then
    inside the class the full theorem covers and need not be avoided."""
    p = Path(__file__).resolve().parents[1] / 'coq' / 'gen' / 'PolicyNames.v'
    return p.exists() and 'monitor_purges_shadowed : bool := true' in p.read_text()


def engine_history(ctx, ex, hist, label):
    pr = EngineProbe(ctx, ex.drv)
    try:
        v = run_history(ctx, ex, 'REAL', hist, label, avoid_drop=not source_purges_shadowed(), contents=ECONTENTS, probe=pr, leg='engine')
    finally:
        pr.close()
    ctx.count('engine.histories')
    return v, pr.probes


def engine_leg(ctx, ex, quick):
    rng = ctx.subrng('engine')
    n = 0
    for label, hist in ECORPUS:
        n += engine_history(ctx, ex, hist, 'engine-corpus:' + label)[1]
    for i in range(25 if quick else 200):
        n += engine_history(ctx, ex, random_history(rng, 12 if quick else 20, nfiles=3, ncontents=len(ECONTENTS)), 'engine-random:%d' % i)[1]
    ctx.cov['engine_leg'] = {'probes': n, 'what': 'Get/Locate through KmipEngine.process_request on one engine per history sharing the '
                             "monitor's store; expected decision from the specification's definition for the name"}
    ctx.log('engine leg: %d access probes' % n)
    ecases = ctx.__dict__.get('c18_ecases', {})
    used = sorted(ctx.__dict__.get('c18_used_defs', set()))
    def pr_parsed(v):
        extra = set(v) - {'preset', 'groups'}
        if extra:
            raise TypeError('not a parsed policy: %r' % extra)
        return '(Parsed %s %s)' % (
            cp.option(v.get('preset'), pr_ppol),
            cp.option(v.get('groups'), lambda g: cp.lst(list(g.items()), lambda gv: cp.pair(cp.string(gv[0]), pr_ppol(gv[1])))))
    table = [(i, ex.drv.ids.objs[i]) for i in used if i in ex.drv.ids.objs]
    header = (EHEADER + 'Definition dtab_ : list (Z * parsed) := %s.\n'
              % cp.lst(table, lambda kv: cp.pair(cp.z(kv[0]), pr_parsed(kv[1]))))
    cl = list(ecases)
    bad = ctx.run_cases('engine_probe', header, cl, 'check_ecase dtab_',
                        what='EngineSide.engine_decision on the observed store vs Get/Locate through KmipEngine.process_request')
    for i in bad[:20]:
        ctx.disagreement('engine_probe', {'case': cl[i][:600], 'from': ecases[cl[i]]})
    if cl:
        ctx.sample({'engine_probe_case': cl[len(cl) // 2][:400]})


# ----------------------------------------------------------------------------- the parser
EHEADER = ('From Coq Require Import List ZArith String.\nFrom PK Require Import Monitor.EngineCases.\n'
           'Import ListNotations.\nOpen Scope Z_scope.\nOpen Scope string_scope.\n')
PHEADER = ('From PK Require Import Monitor.ParseCases.\nFrom Coq Require Import List ZArith String.\n'
           'Import ListNotations.\nOpen Scope string_scope.\n')

OT = {'CERTIFICATE': {'LOCATE': 'ALLOW_ALL', 'GET': 'ALLOW_OWNER'}, 'SYMMETRIC_KEY': {'DESTROY': 'DISALLOW_ALL'}}
VALID_DOCS = [
    {},
    {'n': {}},
    {'n': {'CERTIFICATE': {'LOCATE': 'ALLOW_ALL'}}},
    {'n': OT},
    {'n': {'preset': OT}},
    {'n': {'groups': {'g1': OT, 'g2': {'SECRET_DATA': {'GET': 'ALLOW_ALL'}}}}},
    {'n': {'preset': {'PUBLIC_KEY': {'GET': 'ALLOW_ALL'}}, 'groups': {'g': OT}}},
    {'default': {'CERTIFICATE': {'GET': 'DISALLOW_ALL'}}, 'm': {'preset': OT}, 'e': {}},
    {'n': {'preset': {}}}, {'n': {'groups': {}}}, {'n': {'preset': None, 'groups': 0}}, {'n': {'preset': '', 'groups': []}},
    {'n': {'preset': False}}, {'n': {'CERTIFICATE': {}}}, {'n': {'groups': {'g': {}}}}, {'n': {'preset': {'CERTIFICATE': {}}}},
]
ATOMS = [None, True, False, 0, 1, '', 'x', 'ALLOW_ALL', [], [1], ['ALLOW_ALL'], {}, {'x': 1}, {'GET': 'ALLOW_ALL'},
         {'CERTIFICATE': {'GET': 'ALLOW_ALL'}}, {'preset': {'CERTIFICATE': {'GET': 'ALLOW_ALL'}}}]
KEYS = ['BOGUS', 'preset', 'groups', 'CERTIFICATE', 'GET', 'ALLOW_ALL', 'certificate', '']


def paths(v, pre=()):
    yield pre
    if isinstance(v, dict):
        for k in v:
            yield from paths(v[k], pre + (k,))


def replace_at(v, path, new):
    if not path:
        return new
    return {k: (replace_at(x, path[1:], new) if k == path[0] else x) for k, x in v.items()}


def rename_at(v, path, newkey):
    """rename the key path[-1] of the object at path[:-1] (keeps the position)"""
    if len(path) == 1:
        return {(newkey if k == path[0] else k): x for k, x in v.items()}
    return {k: (rename_at(x, path[1:], newkey) if k == path[0] else x) for k, x in v.items()}


def delete_at(v, path):
    if len(path) == 1:
        return {k: x for k, x in v.items() if k != path[0]}
    return {k: (delete_at(x, path[1:]) if k == path[0] else x) for k, x in v.items()}


def mutations(doc):
    for p in paths(doc):
        for a in ATOMS:
            yield ('replace', p, replace_at(doc, p, a))
        if p:
            for k in KEYS:
                yield ('rename', p, rename_at(doc, p, k))
            yield ('delete', p, delete_at(doc, p))
        node = doc
        for k in p:
            node = node[k]
        if isinstance(node, dict):
            for k in KEYS[:4]:
                if k not in node:
                    yield ('add', p, replace_at(doc, p, dict(node, **{k: ATOMS[14] if k != 'BOGUS' else 1})))


def pr_json(v):
    if v is None:
        return 'JNull'
    if isinstance(v, bool):
        return '(JBool %s)' % cp.boolean(v)
    if isinstance(v, int):
        return '(JNum %s)' % cp.z(v)
    if isinstance(v, str):
        return '(JStr %s)' % cp.string(v)
    if isinstance(v, list):
        return '(JArr %s)' % cp.lst(v, pr_json)
    if isinstance(v, dict):
        return '(JObj %s)' % cp.lst(list(v.items()), lambda kv: cp.pair(cp.string(kv[0]), pr_json(kv[1])))
    raise TypeError('no Coq form for %r' % (v,))


def pr_ppol(d):
    return cp.lst(list(d.items()), lambda kv: cp.pair(cp.string(kv[0].name), cp.lst(list(kv[1].items()), lambda ov: cp.pair(cp.string(ov[0].name), cp.string(ov[1].name)))))


def pr_result(r):
    def one(kv):
        name, v = kv
        pre = cp.option(v.get('preset'), pr_ppol)
        grp = cp.option(v.get('groups'), lambda g: cp.lst(list(g.items()), lambda gv: cp.pair(cp.string(gv[0]), pr_ppol(gv[1]))))
        extra = set(v) - {'preset', 'groups'}
        if extra:
            raise TypeError('unexpected section in parser result: %r' % extra)
        return cp.pair(cp.string(name), '(Parsed %s %s)' % (pre, grp))
    return cp.lst(list(r.items()), one)


def expected_definitions(doc):
    """Independent reading of the documented file format (docs/source/server.rst): name -> definition the file
    gives that name (same structure as the parser's result), or None when the document is not a valid policy file.
    Each policy is read on its own: nothing carries over from one policy of the file to the next."""
    from kmip.core import enums

    def ppol(x):
        return isinstance(x, dict) and all(
            t in enums.ObjectType.__members__ and isinstance(ops, dict) and all(
                o in enums.Operation.__members__ and isinstance(q, str) and q in enums.Policy.__members__ for o, q in ops.items())
            for t, ops in x.items())

    def conv(x):
        return {enums.ObjectType[t]: {enums.Operation[o]: enums.Policy[q] for o, q in ops.items()} for t, ops in x.items()}
    if not isinstance(doc, dict):
        return None
    out = {}
    for name, pol_ in doc.items():
        if not isinstance(pol_, dict):
            return None
        if not pol_:
            continue
        if set(pol_) <= {'preset', 'groups'}:
            pre, grp = pol_.get('preset'), pol_.get('groups')
            if pre and not ppol(pre):
                return None
            if grp and not (isinstance(grp, dict) and all(ppol(g) for g in grp.values())):
                return None
            d = {}
            if pre:
                d['preset'] = conv(pre)
            if grp:
                d['groups'] = {g: conv(v) for g, v in grp.items()}
            out[name] = d
        elif set(pol_) <= set(enums.ObjectType.__members__) and ppol(pol_):
            out[name] = {'preset': conv(pol_)}
        else:
            return None
    return out


def expected_names(doc):
    d = expected_definitions(doc)
    return None if d is None else list(d)


def parser_verdict(loaded, outcome, result):
    """Direct oracle for one document: None, or (class, text).  loaded: what json.loads gave."""
    want = expected_definitions(loaded)
    if want is None and outcome == 'ok':
        return 'parser-accepts-invalid', 'read_policy_from_file accepted a document that is not a valid policy file'
    if want is not None and outcome == 'valueerror':
        return 'parser-rejects-valid', 'read_policy_from_file rejected a valid policy file'
    if want is not None and outcome == 'ok':
        if list(result.keys()) != list(want):
            return 'parser-wrong-names', 'read_policy_from_file returned policies %r, the file defines %r' % (list(result.keys()), list(want))
        for n in want:
            if result[n] != want[n]:
                return ('parser-wrong-definition',
                        "read_policy_from_file gives policy '%s' the definition %r, the file says %r" % (n, result[n], want[n]))
    return None


# policies of one file that differ in the sections they have, in every order
def section_kinds():
    def pp(i):
        perms = ['ALLOW_ALL', 'ALLOW_OWNER', 'DISALLOW_ALL']
        return {'SYMMETRIC_KEY': {'GET': perms[i % 3]}, ['CERTIFICATE', 'SECRET_DATA', 'PUBLIC_KEY'][i % 3]: {'LOCATE': perms[(i + 1) % 3]}}
    return {
        'preset': lambda i: {'preset': pp(i)},
        'groups': lambda i: {'groups': {'g%d' % i: pp(i + 1)}},
        'both': lambda i: {'preset': pp(i + 2), 'groups': {'h%d' % i: pp(i)}},
        'flat': lambda i: pp(i + 1),
        'empty': lambda i: {},
        'falsy-sections': lambda i: {'preset': None, 'groups': {}},
        'preset+falsy-groups': lambda i: {'preset': pp(i), 'groups': None},
    }


def multi_policy_docs():
    import itertools
    kinds = section_kinds()
    for r in (2, 3):
        for combo in itertools.permutations(kinds, r):
            if r == 3 and ('empty' in combo and 'falsy-sections' in combo):
                continue
            yield '+'.join(combo), {'n%d' % i: kinds[k](i) for i, k in enumerate(combo)}
    for k in kinds:     # the same kind twice
        yield k + '+' + k, {'n0': kinds[k](0), 'n1': kinds[k](1)}


def parser_run(ctx, quick):
    from kmip.core import policy, enums
    probe = str(ctx.work / 'probe.json')
    cases, meta = [], []
    seen = set()

    def feed(raw, label):
        """raw: bytes written to the file.  Runs the real parser, the direct oracle, and builds the K case."""
        if raw in seen:
            return
        seen.add(raw)
        with open(probe, 'wb') as f:
            f.write(raw)
        try:
            loaded = json.loads(raw.decode('utf-8'))
            blob = ('some', loaded)
        except Exception:
            blob = None
        try:
            r = policy.read_policy_from_file(probe)
            out = ('ok', r)
        except ValueError:
            out = ('valueerror', None)
        except BaseException as e:      # noqa - the monitor would not catch this
            out = ('other', type(e).__name__)
        ctx.count('parser.%s.%s' % (label.split(':')[0], out[0]))
        ctx.case_seen(('doc', raw), nontrivial=True)
        # direct oracle: nothing but ValueError may escape; a result is a dict of well-typed sections
        if out[0] == 'other':
            ctx.violation({'class': 'parser-raises-other', 'exc': out[1]}, {'file_bytes': raw.decode('latin-1'), 'label': label},
                          'read_policy_from_file raised %s (the monitor catches only ValueError) ' % out[1])
        # independent reading of the documented file format
        if blob is not None and out[0] in ('ok', 'valueerror'):
            v = parser_verdict(blob[1], out[0], out[1])
            if v:
                ctx.violation({'class': v[0]}, {'file_bytes': raw.decode('latin-1'), 'label': label, 'result': repr(out[1])[:600]}, v[1])
        if out[0] == 'ok':
            okshape = isinstance(r, dict) and all(
                isinstance(v, dict) and set(v) <= {'preset', 'groups'} for v in r.values())
            if okshape:
                for v in r.values():
                    pols = ([v['preset']] if 'preset' in v else []) + (list(v['groups'].values()) if 'groups' in v else [])
                    for pp in pols:
                        okshape &= all(isinstance(t, enums.ObjectType) and all(isinstance(o, enums.Operation) and isinstance(q, enums.Policy)
                                                                            for o, q in ops.items()) for t, ops in pp.items())
            if blob is None or not okshape:
                ctx.violation({'class': 'parser-accepts-invalid'}, {'file_bytes': raw.decode('latin-1'), 'label': label, 'result': repr(r)[:500]},
                              'read_policy_from_file accepted a document that is not a valid policy file')
        try:
            jb = 'None' if blob is None else '(Some %s)' % pr_json(blob[1])
            ob = {'ok': lambda: '(Ok %s)' % pr_result(r), 'valueerror': lambda: 'ValueErr', 'other': lambda: 'Crash'}[out[0]]()
        except (TypeError, ValueError):
            ctx.count('parser.not-comparable-in-coq')
            return
        cases.append('(%s, %s)' % (jb, ob))
        meta.append((label, raw[:300].decode('latin-1'), out[0]))

    for i, doc in enumerate(VALID_DOCS):
        feed(json.dumps(doc).encode(), 'valid:%d' % i)
        for kind, path, m in mutations(doc):
            feed(json.dumps(m).encode(), 'mut-%s:%d:%s' % (kind, i, '/'.join(path)))
    for label, doc in multi_policy_docs():
        feed(json.dumps(doc).encode(), 'multi:' + label)
    # text level
    text = json.dumps(VALID_DOCS[6])
    for cut in range(0, len(text), 1 if not quick else 3):
        feed(text[:cut].encode(), 'text-truncated:%d' % cut)
    for raw, label in [(b'', 'text:empty'), (b'   \n', 'text:blank'), (text.encode() + b' x', 'text:trailing'), (b'\xff\xfe{}', 'text:not-utf8'),
                       (b'{"n": {"CERTIFICATE": {"GET": "ALLOW_ALL"}}, "n": {}}', 'text:duplicate-key'),
                       (b'{"n": {"preset": NaN}}', 'text:nan'), (b'{"n": {"preset": 1.5}}', 'text:float'),
                       (b'[' * 100000 + b']' * 100000, 'text:deep-nesting'),
                       (b'{"n": {"CERTIFICATE": {"GET": "ALLOW_ALL", "GET": "BOGUS"}}}', 'text:duplicate-op')]:
        feed(raw, label)
    # second order: two random mutations
    rng = ctx.subrng('parser')
    for _ in range(300 if quick else 5000):
        doc = rng.choice(VALID_DOCS[2:])
        for _ in range(2):
            ms = list(mutations(doc)) if isinstance(doc, dict) else []
            if not ms:
                break
            doc = rng.choice(ms)[2]
        feed(json.dumps(doc).encode(), 'mut2')
    bad = ctx.run_cases('parser', PHEADER, cases, 'check_jcase',
                        what='Parse.read_policy vs kmip.core.policy.read_policy_from_file: parsed structure or exception class')
    for i in bad[:20]:
        ctx.disagreement('parser', {'label': meta[i][0], 'file': meta[i][1], 'impl': meta[i][2], 'coq': cases[i][:800]})
    ctx.sample({'parser_case': cases[len(cases) // 3][:500]})
    os.remove(probe)
    return len(cases)


STORES = [{'default': 'D', 'public': 'P'}, {}, {'default': 'D'}]


def run(ctx):
    quick = ctx.tier == 'quick'
    merge_local_findings(ctx)
    ctx.cov['rule'] = (
        'monitor: every sequence of <= %d events over {write a/b/c.json with one of 4 contents (overlapping names p/q, a reserved '
        'name, truncated JSON), remove a/b/c.json, nothing}, a scan after each event, explored depth-first on the real monitor with '
        'state memoisation; a scripted corpus (incl. the DESIGN F8 history); seeded random histories of 30 scans with 0-3 events '
        'per scan over 4 files x 12 contents incl. equal/older mtimes and 3 initial stores.  A case is one distinct '
        '(state before, directory view, state after) triple or one distinct history.  '
        'engine: one KmipEngine sharing the store through each of the scripted and random histories (add/edit/break/repair/remove/shadow), '
        'Get/Locate by owner and non-owner under every policy name in play after every scan.  '
        'parser: every document of a grammar over the documented shapes and every single-position corruption.' % (4 if quick else 5))
    ctx.regen(only=['enums', 'policynames', 'enginepolicy'])
    ctx.prove('props/C18.v')

    ex = Explorer(ctx, 'x')
    ex.sruns = []
    stats = explore(ctx, ex, 4 if quick else 5, STORES[0])
    ctx.log('exploration: %r, %d distinct scan triples' % (stats, len(ex.cases)))
    ctx.cov['exploration'] = stats

    for label, hist in CORPUS:
        for s0 in STORES[:2]:
            run_history(ctx, ex, s0, hist, 'corpus:' + label)
    exl = Explorer(ctx, 'l', via_symlink=True)      # the monitor is given a symbolic link to the policy directory
    exl.sruns = []
    for label, hist in CORPUS:
        run_history(ctx, exl, STORES[0], hist, 'corpus-via-symlinked-directory:' + label, avoid_drop=not source_purges_shadowed())
    for c, v in exl.cases.items():
        ex.cases.setdefault(c, v)
    ex.runs += exl.runs
    ex.sruns += exl.sruns
    ex.scans += exl.scans
    rng = ctx.subrng('histories')
    purged = source_purges_shadowed()
    for i in range(40 if quick else 400):
        run_history(ctx, ex, STORES[i % 3], random_history(rng, 30), 'random:%d' % i, avoid_drop=(i % 2 == 1 and not purged))
    engine_leg(ctx, ex, quick)
    ctx.log('%d scans on the real monitor, %d distinct scan triples, %d histories' % (ex.scans, len(ex.cases), len(ex.runs)))

    cases = list(ex.cases)
    bad = ctx.run_cases('monitor_step', HEADER, cases, 'check_mcase',
                        what='Monitor.scan vs PolicyDirectoryMonitor.scan_policies: store, cache, map, timestamps, files after one scan')
    for i in bad[:20]:
        ctx.disagreement('monitor_step', {'case': cases[i][:1500], 'from': ex.cases[cases[i]]})
    runs = [r for r, _ in ex.runs]
    bad = ctx.run_cases('monitor_run', HEADER, runs, 'check_mcase', what='Monitor.run vs the store after every scan of a history')
    for i in bad[:20]:
        ctx.disagreement('monitor_run', {'history': ex.runs[i][1], 'case': runs[i][:1500]})
    sruns = [r for r, _ in ex.sruns]
    bad = ctx.run_cases('spec_oracle', HEADER, sruns, 'check_scase',
                        what='Spec.spec_step/spec_store/step_ok vs the Python oracle used on the implementation')
    for i in bad[:20]:
        ctx.disagreement('spec_oracle', {'history': ex.sruns[i][1], 'case': sruns[i][:1500]})
    ctx.sample({'monitor_step_case': cases[len(cases) // 2][:600]})
    ctx.sample({'monitor_run_case': runs[-1][:600]})
    for d_ in (ex.drv, exl.drv):
        if d_.dir != d_.real_dir:
            os.remove(d_.dir)
        shutil.rmtree(d_.real_dir, ignore_errors=True)
        shutil.rmtree(d_.targets, ignore_errors=True)
    parser_run(ctx, quick)


def merge_local_findings(ctx):
    """known_findings.json is produced from findings.d by the integrator; until then read our own list."""
    p = Path(__file__).resolve().parents[1] / 'findings.d' / 'C18.json'
    if p.exists():
        have = {f.get('id') for f in ctx.findings}
        for f in json.loads(p.read_text()):
            if f.get('property') == 'C18' and f.get('id') not in have:
                ctx.findings.append(f)


def replay(ctx, payload):
    """bin/check C18 --replay <file>: run the recorded input again on the real code; exit 1 when it still fails."""
    merge_local_findings(ctx)
    inp = payload.get('input') or {}
    if 'file_bytes' in inp:
        from kmip.core import policy
        p = str(ctx.work / 'replay.json')
        with open(p, 'wb') as f:
            f.write(inp['file_bytes'].encode('latin-1'))
        raw = inp['file_bytes'].encode('latin-1')
        try:
            loaded = ('some', json.loads(raw.decode('utf-8')))
        except Exception:       # noqa
            loaded = None
        try:
            r = policy.read_policy_from_file(p)
            print('read_policy_from_file returned', repr(r)[:300])
            v = ('parser-accepts-invalid', 'accepted a file that is not JSON text') if loaded is None else parser_verdict(loaded[1], 'ok', r)
        except ValueError as e:
            print('ValueError:', e)
            v = None if loaded is None else parser_verdict(loaded[1], 'valueerror', None)
        except Exception as e:      # noqa
            print('still raises', type(e).__name__, e)
            return 1
        print('FAILS: %s' % v[1] if v else 'as the file format says')
        return 1 if v else 0
    h = inp.get('history')
    if h is None:
        cands = payload.get('first_disagreeing_cases') or []
        print('no concrete failing input in this replay file; first disagreeing correspondence cases:')
        for c in cands[:3]:
            print(json.dumps(c)[:1500])
        return 2
    ex = Explorer(ctx, 'replay')
    ex.sruns = []
    if isinstance(h, dict) and h.get('leg') == 'engine':
        verdicts, _ = engine_history(ctx, ex, [[tuple(e) for e in st] for st in h['steps']], 'replay')
    elif isinstance(h, dict):
        verdicts = run_history(ctx, ex, h['store0'], [[tuple(e) for e in st] for st in h['steps']], 'replay')
    else:
        d = ex.drv
        spec = ex.start(STORES[0])
        verdicts = []
        for i, ev in enumerate(h):
            if ev[0] == 'w':
                d.write(FILES[ev[1]], XCONTENTS[ev[2]], 10 + i)
            elif ev[0] == 'rm':
                d.remove(FILES[ev[1]])
            view, post, exp, ok, verdict = ex.observed_scan(spec, h[:i + 1])
            print('after', ev, 'store', post and post['store'], 'expected', exp and sorted(exp.items()))
            verdicts.append(verdict)
            if verdict != 'ok':
                break
    print('verdicts per scan:', verdicts)
    for v in ctx.violations:
        print('FAILS:', v['what'], json.dumps(v['witness'])[:600])
    for k, v in ctx.known_hits.items():
        print('FAILS (known finding %s):' % k, v['what'])
    return 1 if (ctx.violations or ctx.known_hits) else 0
