"""C14 - Locate returns exactly the permitted, matching objects, newest first; offset/maximum partition the result.

  regen (attrrules, enums)  ->  prove props/C14.v  ->  correspondence K (coq/theories/Locate/Locate.v `check_case`
  against KmipEngine._process_locate on generated stores x filter conjunctions x pages x requesters x versions)
  ->  direct oracle on every case (no model: GetAttributes as the owner + the policy documents decide the expected set).

Store plans, requests and observations are plain JSON so that a violation can be replayed
(`bin/check C14 --replay replays/C14-xxxx.json`).
"""
import copy
import json
import sqlite3
from pathlib import Path

import kdrv
from kdrv import enums, OT, AT
from vlib import coqprint as cp

HEADER = ('From PK Require Import Locate.Locate.\nFrom Coq Require Import ZArith String List.\n'
          'Import ListNotations.\nOpen Scope Z_scope.\nOpen Scope string_scope.\n')

LOCATE = enums.Operation.LOCATE
P = enums.Policy
USERS = ['alice', 'bob', 'carol']
MASKS = list(enums.CryptographicUsageMask)
KNOWN_MASK = 0
for _m in MASKS:
    KNOWN_MASK |= _m.value
KEY_TYPES = ('SYMMETRIC_KEY', 'PUBLIC_KEY', 'PRIVATE_KEY', 'SPLIT_KEY')
MASK_TYPES = KEY_TYPES + ('CERTIFICATE', 'SECRET_DATA')
OTHER_FILTERS = {                # attributes for which the server keeps no value (fetch answers None)
    'Activation Date': ('ACTIVATION_DATE', 1600000000),
    'Process Start Date': ('PROCESS_START_DATE', 1600000000),
    'Deactivation Date': ('DEACTIVATION_DATE', 1600000000),
    'Contact Information': ('CONTACT_INFORMATION', 'ops'),
    'Lease Time': ('LEASE_TIME', 60),
}


# ---------------------------------------------------------------------------------------------- policies
TYPE_ORDER = ['CERTIFICATE', 'SYMMETRIC_KEY', 'PUBLIC_KEY', 'PRIVATE_KEY', 'SPLIT_KEY', 'TEMPLATE', 'SECRET_DATA', 'OPAQUE_DATA', 'PGP_KEY']


class Pols:
    """engine: what KmipEngine is given (built-in policies + the result of kmip.core.policy.read_policy_from_file on the
    policy FILE written below); docs: the same policies as plain JSON documents ({name: {'preset': {TYPE: {OPERATION:
    PERMISSION}}, 'groups': {group: {...}}}}, strings only), which is what the specification side (direct oracle and the
    Coq policy term) reads - it never looks at the parsed result."""
    def __init__(self, engine, docs, path):
        self.engine, self.docs, self.path = engine, docs, path


def _doc_of_builtin(pb):
    out = {}
    if pb.get('preset'):
        out['preset'] = {t.name: {op.name: perm.name for op, perm in ops.items()} for t, ops in pb['preset'].items()}
    if pb.get('groups'):
        out['groups'] = {g: {t.name: {op.name: perm.name for op, perm in ops.items()} for t, ops in sec.items()} for g, sec in pb['groups'].items()}
    return out


def policy_documents():
    """The policy file of the check, as a JSON-able dict.  Sections list several object types whose Locate rules differ,
    in both listing orders, in preset and in group sections."""
    base = _doc_of_builtin(kdrv.core_policy.policies['default'])['preset']

    def section(locate, order=TYPE_ORDER, drop=()):
        """locate: permission for every type, or {TYPE: permission or None (no Locate entry)}."""
        sec = {}
        for t in order:
            if t in drop or t not in base:
                continue
            ops = dict(base[t])
            perm = locate.get(t) if isinstance(locate, dict) else locate
            if perm is None:
                ops.pop('LOCATE', None)
            else:
                ops['LOCATE'] = perm
            sec[t] = ops
        return sec
    A, O, D = 'ALLOW_ALL', 'ALLOW_OWNER', 'DISALLOW_ALL'
    rev = list(reversed(TYPE_ORDER))
    per_type = {'CERTIFICATE': A, 'SYMMETRIC_KEY': O, 'PUBLIC_KEY': A, 'PRIVATE_KEY': O, 'SPLIT_KEY': D, 'TEMPLATE': O,
                'SECRET_DATA': A, 'OPAQUE_DATA': O, 'PGP_KEY': O}
    per_type_g = {'CERTIFICATE': O, 'SYMMETRIC_KEY': A, 'PUBLIC_KEY': O, 'PRIVATE_KEY': A, 'SPLIT_KEY': A, 'TEMPLATE': D,
                  'SECRET_DATA': O, 'OPAQUE_DATA': A, 'PGP_KEY': D}
    only_g2 = {t: (O if t in ('SYMMETRIC_KEY', 'SECRET_DATA', 'CERTIFICATE') else None) for t in TYPE_ORDER}
    only_partial = {t: (A if t in ('SYMMETRIC_KEY', 'PUBLIC_KEY', 'OPAQUE_DATA', 'SPLIT_KEY') else None) for t in TYPE_ORDER}
    return {
        'open': {'preset': section(A)},
        'closed': {'preset': section(D)},
        'team': {'preset': section(O),
                 'groups': {'g1': section(A), 'g2': section(only_g2), 'g3': section(A, drop=('OPAQUE_DATA', 'PRIVATE_KEY'))}},
        'partial': {'preset': section(only_partial)},
        'mixed': {'preset': section(per_type), 'groups': {'g1': section(per_type_g), 'g3': section(per_type_g, order=rev)}},
        'mixedrev': {'preset': section(per_type, order=rev), 'groups': {'g1': section(per_type_g, order=rev), 'g2': section(per_type)}},
    }


def build_policies(ctx):
    docs = policy_documents()
    d = Path(ctx.work)
    d.mkdir(parents=True, exist_ok=True)
    path = d / 'c14_policies.json'
    path.write_text(json.dumps(docs, indent=1))
    loaded = kdrv.core_policy.read_policy_from_file(str(path))          # the real file reader
    base = copy.deepcopy(kdrv.core_policy.policies)
    engine = {'default': base['default'], 'public': base['public']}
    engine.update(loaded)
    all_docs = {'default': _doc_of_builtin(base['default']), 'public': _doc_of_builtin(base['public'])}
    all_docs.update(json.loads(path.read_text()))                        # the specification reads the file itself
    return Pols(engine, all_docs, str(path))


POLICY_NAMES = ['default', 'open', 'team', 'partial', 'mixed', 'mixedrev', 'closed', 'public', 'nope']
REQUESTERS = [('alice', None), ('bob', None), ('carol', None), ('dave', None),
              ('carol', ['g1']), ('alice', ['g2']), ('bob', ['g2', 'g1']), ('bob', ['g3']),
              ('alice', []), ('alice', ['']), ('bob', ['nogroup']), ('alice', ['nogroup', ''])]


def section_to_coq(sec):
    rows = []
    for t in sorted(sec, key=lambda t: OT[t].value):
        e = sec[t].get('LOCATE')
        if e is None:
            continue
        rows.append('(%s, %s)' % (cp.z(OT[t].value), {'ALLOW_ALL': 'AllowAll', 'ALLOW_OWNER': 'AllowOwner', 'DISALLOW_ALL': 'DisallowAll'}[e]))
    return '[' + '; '.join(rows) + ']'


def policies_to_coq(docs):
    """The Coq policy term, from the JSON documents."""
    rows = []
    for name in sorted(docs):
        pb = docs[name]
        preset = '(Some %s)' % section_to_coq(pb['preset']) if pb.get('preset') else 'None'
        groups = '[' + '; '.join('(%s, %s)' % (cp.string(g), section_to_coq(sec)) for g, sec in sorted((pb.get('groups') or {}).items())) + ']'
        rows.append('(%s, mkPolicy %s %s)' % (cp.string(name), preset, groups))
    return '[' + ';\n   '.join(rows) + ']'


def may_locate(docs, user, groups, owner, otype_name, pname):
    """Direct reading of the policy DOCUMENTS (no model, not the parsed result): may `user` (with `groups`) locate the object?"""
    pb = docs.get(pname)
    if not pb:
        return False
    sections = []
    if groups is None:
        sections.append(pb.get('preset'))
    else:
        for g in groups:
            sections.append((pb.get('groups') or {}).get(g) if g is not None else pb.get('preset'))
    for sec in sections:
        if not sec:
            continue
        e = (sec.get(otype_name) or {}).get('LOCATE')
        if e == 'ALLOW_ALL' or (e == 'ALLOW_OWNER' and user == owner):
            return True
    return False


# ---------------------------------------------------------------------------------------------- store plans
def gen_plan(rng, n, epoch=False, doctored=False):
    """A JSON-able plan: list of object descriptions, created in order."""
    plan = []
    name_pool = ['k1', 'k2', 'web', 'db', 'shared name']
    group_pool = ['grpA', 'grpB', 'prod']
    asi_pool = [('ssl', 'www.example.com'), ('ssl', 'db.example.com'), ('ldap', 'uid=7')]
    for i in range(n):
        t = rng.choice(['SYMMETRIC_KEY'] * 3 + ['PUBLIC_KEY', 'PRIVATE_KEY', 'SPLIT_KEY', 'CERTIFICATE', 'CERTIFICATE', 'SECRET_DATA', 'OPAQUE_DATA', 'KEY_PAIR'])
        o = {'type': t, 'owner': rng.choice(USERS[:2] if rng.random() < 0.8 else USERS),
             'policy': rng.choice([None, 'default', 'default', 'open', 'open', 'team', 'team', 'team', 'mixed', 'mixed', 'mixedrev', 'mixedrev', 'partial', 'partial', 'closed', 'public', 'nope']),
             'names': [[s, rng.choice(['UNINTERPRETED_TEXT_STRING'] * 3 + ['URI'])] for s in rng.sample(name_pool, rng.choice([0, 0, 1, 1, 2]))],
             'groups': rng.sample(group_pool, rng.choice([0, 0, 1, 2])),
             'asi': [list(x) for x in rng.sample(asi_pool, rng.choice([0, 0, 1, 2]))],
             'sensitive': rng.choice([None, None, True, False]),
             'mask': sorted(m.name for m in rng.sample(MASKS[:10], rng.choice([0, 1, 2, 2, 3]))),
             'state': rng.choice(['PRE_ACTIVE'] * 3 + ['ACTIVE', 'ACTIVE', 'DEACTIVATED', 'COMPROMISED']),
             'advance': rng.choice([0, 0, 0, 1, 1, 7, 2, -3])}
        if t == 'SYMMETRIC_KEY':
            o['how'] = rng.choice(['create', 'register'])
            o['alg'], o['len'] = rng.choice([('AES', 128), ('AES', 256), ('AES', 192), ('TRIPLE_DES', 192)])
        elif t in ('PUBLIC_KEY', 'PRIVATE_KEY'):
            o['alg'], o['len'] = rng.choice([('RSA', 1024), ('RSA', 2048), ('RSA', 0)])
        elif t == 'SPLIT_KEY':
            o['alg'], o['len'] = rng.choice([('AES', 128), ('AES', 256)])
        elif t == 'KEY_PAIR':
            o['alg'], o['len'] = 'RSA', rng.choice([1024, 2048])
            o['mask'] = []
        if epoch and rng.random() < 0.5:
            o['at_epoch'] = True
        if doctored and 'len' in o and rng.random() < 0.6:
            o['null'] = rng.choice(['len', 'alg', 'both'])
        plan.append(o)
    return plan


def _common_attrs(o, with_mask):
    a = []
    if with_mask and o['mask']:
        a.append(kdrv.attr(AT.CRYPTOGRAPHIC_USAGE_MASK, [enums.CryptographicUsageMask[m] for m in o['mask']]))
    for i, (s, nt) in enumerate(o['names']):
        a.append(kdrv.attr(AT.NAME, kdrv.name_value(s, enums.NameType[nt]), i))
    if o['policy'] is not None:
        a.append(kdrv.attr(AT.OPERATION_POLICY_NAME, o['policy']))
    for i, g in enumerate(o['groups']):
        a.append(kdrv.attr(AT.OBJECT_GROUP, g, i))
    for i, (ns, d) in enumerate(o['asi']):
        a.append(kdrv.attr(AT.APPLICATION_SPECIFIC_INFORMATION, {'application_namespace': ns, 'application_data': d}, i))
    if o['sensitive'] is not None:
        a.append(kdrv.attr(AT.SENSITIVE, o['sensitive']))
    return a


class Store:
    def __init__(self, ctx, plan, pols):
        self.plan = plan
        self.pols = pols.docs          # what the specification side reads
        self.eng = kdrv.Engine(policies=pols.engine, workdir=ctx.work)
        self.created = []        # uids in creation order
        self._build()
        self.objs = self._read_dump()          # for the model (raw SQL)
        self.attrs = self._read_attrs()        # for the direct oracle (GetAttributes as the owner)

    def close(self):
        self.eng.close()

    def _ok(self, r, what):
        if r['error'] or not r['items'] or not kdrv.ok(r['items'][0]):
            raise RuntimeError('store construction failed at %s: %r' % (what, (r['error'], [(i['reason'], i['message']) for i in r['items']])))
        return r['items'][0]

    def _build(self):
        eng = self.eng
        A = enums.CryptographicAlgorithm
        K = enums.KeyFormatType
        for o in self.plan:
            t = o['type']
            real_t = eng.clock.t
            if o.get('at_epoch'):
                eng.clock.t = 0
            if t == 'KEY_PAIR':
                common = [kdrv.attr(AT.CRYPTOGRAPHIC_ALGORITHM, A[o['alg']]), kdrv.attr(AT.CRYPTOGRAPHIC_LENGTH, o['len'])] + _common_attrs(o, False)
                it = self._ok(eng.request([kdrv.create_key_pair(common=common)], version=(1, 4), user=o['owner']), 'CreateKeyPair')
                p = it['payload']
                uids = [str(p['public_key_unique_identifier']), str(p['private_key_unique_identifier'])]
            elif t == 'SYMMETRIC_KEY' and o['how'] == 'create':
                attrs = [kdrv.attr(AT.CRYPTOGRAPHIC_ALGORITHM, A[o['alg']]), kdrv.attr(AT.CRYPTOGRAPHIC_LENGTH, o['len'])] + _common_attrs(o, True)
                if not o['mask']:
                    attrs.insert(2, kdrv.attr(AT.CRYPTOGRAPHIC_USAGE_MASK, []))
                it = self._ok(eng.request([kdrv.create(attrs=attrs)], version=(1, 4), user=o['owner']), 'Create')
                uids = [kdrv.first_uid(it)]
            else:
                ot = OT[t]
                if t == 'SYMMETRIC_KEY':
                    sec = kdrv.symmetric_key_secret(b'\x0f' * (o['len'] // 8), A[o['alg']], o['len'])
                elif t == 'PUBLIC_KEY':
                    sec = kdrv.core_secret(ot, cryptographic_algorithm=A[o['alg']], cryptographic_length=o['len'], key_format_type=K.X_509,
                                           key_value=b'\x30\x81' + b'\x11' * 30, key_wrapping_data=None)
                elif t == 'PRIVATE_KEY':
                    sec = kdrv.core_secret(ot, cryptographic_algorithm=A[o['alg']], cryptographic_length=o['len'], key_format_type=K.PKCS_8,
                                           key_value=b'\x30\x82' + b'\x22' * 30, key_wrapping_data=None)
                elif t == 'SPLIT_KEY':
                    sec = kdrv.core_secret(ot, cryptographic_algorithm=A[o['alg']], cryptographic_length=o['len'], key_format_type=K.RAW,
                                           key_value=b'\x33' * (o['len'] // 8), key_wrapping_data=None, split_key_parts=3, key_part_identifier=1,
                                           split_key_threshold=2, split_key_method=enums.SplitKeyMethod.XOR, prime_field_size=None)
                else:
                    sec = kdrv.secret_for(ot)
                attrs = _common_attrs(o, t in MASK_TYPES)
                it = self._ok(eng.request([kdrv.register(ot, secret=sec, attrs=attrs)], version=(1, 4), user=o['owner']), 'Register ' + t)
                uids = [kdrv.first_uid(it)]
            eng.clock.t = real_t
            # lifecycle (only where the policy lets the owner do it; otherwise the object stays pre-active)
            if t != 'OPAQUE_DATA' and o['state'] != 'PRE_ACTIVE':
                for u in uids:
                    r = eng.request([kdrv.activate(u)], version=(1, 4), user=o['owner'])
                    if r['items'] and kdrv.ok(r['items'][0]):
                        if o['state'] == 'DEACTIVATED':
                            eng.request([kdrv.revoke(u, enums.RevocationReasonCode.CESSATION_OF_OPERATION)], version=(1, 4), user=o['owner'])
                        elif o['state'] == 'COMPROMISED':
                            eng.request([kdrv.revoke(u, enums.RevocationReasonCode.KEY_COMPROMISE)], version=(1, 4), user=o['owner'])
            self.created += uids
            eng.clock.t += o['advance']
            if o.get('null'):
                # rows the protocol cannot produce (NULL length / absent algorithm): exercise the `attribute is None: continue` branch
                con = sqlite3.connect(eng.path)
                try:
                    for u in uids:
                        if o['null'] in ('len', 'both'):
                            con.execute('update keys set cryptographic_length = NULL where uid = ?', (int(u),))
                        if o['null'] in ('alg', 'both'):
                            con.execute('update keys set cryptographic_algorithm = -1 where uid = ?', (int(u),))
                    con.commit()
                finally:
                    con.close()

    def _read_dump(self):
        d = self.eng.dump()

        def by(table, key):
            out = {}
            for r in d.get(table, []):
                out.setdefault(r[key], []).append(r)
            return out
        crypto = by('crypto_objects', 'uid')
        keys = by('keys', 'uid')
        certs = by('certificates', 'uid')
        names = by('managed_object_names', 'mo_uid')
        groups = {r['id']: r['object_group'] for r in d.get('object_groups', [])}
        gmap = by('object_group_map', 'managed_object_id')
        asis = {r['id']: (r['application_namespace'], r['application_data']) for r in d.get('app_specific_info', [])}
        amap = by('app_specific_info_map', 'managed_object_id')
        objs = []
        for r in sorted(d.get('managed_objects', []), key=lambda r: r['uid']):
            u = r['uid']
            c = (crypto.get(u) or [{}])[0]
            k = (keys.get(u) or [{}])[0]
            ce = (certs.get(u) or [{}])[0]
            objs.append({'uid': u, 'type': r['object_type'], 'owner': r['owner'], 'policy': r['operation_policy_name'],
                         'sensitive': bool(r['sensitive']), 'idate': r['initial_date'],
                         'state': c.get('state', 0) or 0, 'mask': c.get('cryptographic_usage_mask', 0) or 0,
                         'alg': (None if k.get('cryptographic_algorithm') == -1 else k.get('cryptographic_algorithm')), 'len': k.get('cryptographic_length'),
                         'certtype': ce.get('certificate_type', 0) or 0,
                         'names': [x['name'] for x in sorted(names.get(u, []), key=lambda x: x['id'])],
                         'groups': [groups[x['object_group_id']] for x in gmap.get(u, [])],
                         'asi': [asis[x['app_specific_info_id']] for x in amap.get(u, [])]})
        return objs

    def _read_attrs(self):
        """uid -> attributes as GetAttributes shows them to the owner, or None when the owner is refused."""
        out = {}
        for o in self.objs:
            r = self.eng.request([kdrv.get_attributes(str(o['uid']))], version=(1, 4), user=o['owner'])
            it = r['items'][0] if r['items'] else None
            if it is None or not kdrv.ok(it):
                out[o['uid']] = None
                continue
            a = {'Name': [], 'Object Group': [], 'Application Specific Information': []}
            for at in it['raw'].response_payload.attributes:
                n = at.attribute_name.value
                v = at.attribute_value
                if n == 'Name':
                    a['Name'].append((v.name_value.value, v.name_type.value.name))
                elif n == 'Object Group':
                    a['Object Group'].append(v.value)
                elif n == 'Application Specific Information':
                    a['Application Specific Information'].append((v.application_namespace, v.application_data))
                else:
                    val = v.value
                    a[n] = val.name if hasattr(val, 'name') and hasattr(val, 'value') else val
            out[o['uid']] = a
        return out


def obj_to_coq(o):
    return ('(mkObj %s %s %s %s %s %s %s %s %s %s %s %s %s %s)' % (
        cp.z(o['uid']), cp.z(o['type']), cp.string(o['owner']), cp.option(o['policy'], cp.string), cp.boolean(o['sensitive']),
        cp.z(o['idate']), cp.z(o['state']), cp.z(o['mask']), cp.option(o['alg'], cp.z), cp.option(o['len'], cp.z), cp.z(o['certtype']),
        cp.lst(o['names'], cp.string), cp.lst(o['groups'], cp.string),
        cp.lst(o['asi'], lambda p: cp.pair(cp.string(p[0]), cp.string(p[1])))))


# ---------------------------------------------------------------------------------------------- filters
# abstract filter: [kind, value...] (JSON-able)
def filter_to_attr(f):
    k = f[0]
    if k == 'name':
        return kdrv.attr(AT.NAME, kdrv.name_value(f[1], enums.NameType[f[2]]))
    if k == 'state':
        return kdrv.attr(AT.STATE, enums.State[f[1]])
    if k == 'otype':
        return kdrv.attr(AT.OBJECT_TYPE, OT[f[1]])
    if k == 'alg':
        return kdrv.attr(AT.CRYPTOGRAPHIC_ALGORITHM, enums.CryptographicAlgorithm[f[1]])
    if k == 'len':
        return kdrv.attr(AT.CRYPTOGRAPHIC_LENGTH, f[1])
    if k == 'mask':
        return kdrv.attr(AT.CRYPTOGRAPHIC_USAGE_MASK, [enums.CryptographicUsageMask[m] for m in f[1]])
    if k == 'maskraw':      # a mask with bits outside enums.CryptographicUsageMask
        return kdrv.raw_attr('Cryptographic Usage Mask', kdrv.cattrs.CryptographicUsageMask(f[1]))
    if k == 'policy':
        return kdrv.attr(AT.OPERATION_POLICY_NAME, f[1])
    if k == 'group':
        return kdrv.attr(AT.OBJECT_GROUP, f[1])
    if k == 'asi':
        return kdrv.attr(AT.APPLICATION_SPECIFIC_INFORMATION, {'application_namespace': f[1], 'application_data': f[2]})
    if k == 'certtype':
        return kdrv.attr(AT.CERTIFICATE_TYPE, enums.CertificateType[f[1]])
    if k == 'uid':
        return kdrv.attr(AT.UNIQUE_IDENTIFIER, f[1])
    if k == 'sensitive':
        return kdrv.attr(AT.SENSITIVE, f[1])
    if k == 'date':
        return kdrv.attr(AT.INITIAL_DATE, f[1])
    if k == 'other':
        at, v = OTHER_FILTERS[f[1]]
        return kdrv.attr(AT[at], v)
    raise KeyError(k)


def mask_bits(names):
    v = 0
    for m in names:
        v |= enums.CryptographicUsageMask[m].value
    return v


def filter_to_coq(f):
    k = f[0]
    if k == 'name':
        return '(FName %s %s)' % (cp.string(f[1]), cp.z(enums.NameType[f[2]].value))
    if k == 'state':
        return '(FState %s)' % cp.z(enums.State[f[1]].value)
    if k == 'otype':
        return '(FObjType %s)' % cp.z(OT[f[1]].value)
    if k == 'alg':
        return '(FAlg %s)' % cp.z(enums.CryptographicAlgorithm[f[1]].value)
    if k == 'len':
        return '(FLen %s)' % cp.z(f[1])
    if k == 'mask':
        return '(FMask %s)' % cp.z(mask_bits(f[1]))
    if k == 'maskraw':
        return '(FMask %s)' % cp.z(f[1])
    if k == 'policy':
        return '(FPolicy %s)' % cp.string(f[1])
    if k == 'group':
        return '(FGroup %s)' % cp.string(f[1])
    if k == 'asi':
        return '(FAsi %s %s)' % (cp.string(f[1]), cp.string(f[2]))
    if k == 'certtype':
        return '(FCertType %s)' % cp.z(enums.CertificateType[f[1]].value)
    if k == 'uid':
        return '(FUid %s)' % cp.string(f[1])
    if k == 'sensitive':
        return '(FSensitive %s)' % cp.boolean(f[1])
    if k == 'date':
        return '(FDate %s)' % cp.z(f[1])
    if k == 'other':
        return '(FOther %s)' % cp.string(f[1])
    raise KeyError(k)


FILTER_KINDS = ['name', 'state', 'otype', 'alg', 'len', 'mask', 'policy', 'group', 'asi', 'certtype', 'uid', 'sensitive', 'date']


def gen_filter(rng, kind, store):
    objs = store.objs
    if kind == 'name':
        pool = [n for o in objs for n in o['names']] + ['k1', 'nosuch']
        return ['name', rng.choice(pool), rng.choice(['UNINTERPRETED_TEXT_STRING'] * 4 + ['URI'])]
    if kind == 'state':
        return ['state', rng.choice(['PRE_ACTIVE', 'PRE_ACTIVE', 'ACTIVE', 'ACTIVE', 'DEACTIVATED', 'COMPROMISED', 'DESTROYED'])]
    if kind == 'otype':
        return ['otype', rng.choice(['SYMMETRIC_KEY', 'SYMMETRIC_KEY', 'PUBLIC_KEY', 'PRIVATE_KEY', 'SPLIT_KEY', 'CERTIFICATE', 'SECRET_DATA', 'OPAQUE_DATA', 'TEMPLATE'])]
    if kind == 'alg':
        return ['alg', rng.choice(['AES', 'AES', 'RSA', 'TRIPLE_DES', 'DSA'])]
    if kind == 'len':
        return ['len', rng.choice([128, 256, 192, 1024, 2048, 0, 512])]
    if kind == 'mask':
        pool = sorted({m.name for m in MASKS[:10]})
        have = [m.name for o in objs for m in MASKS if o['mask'] & m.value]
        k = rng.choice([0, 1, 1, 1, 2, 2, 3])
        pick = set()
        for _ in range(k):
            pick.add(rng.choice(have) if have and rng.random() < 0.7 else rng.choice(pool + ['TRANSLATE_UNWRAP', 'FPE_DECRYPT']))
        return ['mask', sorted(pick)]
    if kind == 'policy':
        return ['policy', rng.choice(POLICY_NAMES)]
    if kind == 'group':
        return ['group', rng.choice(['grpA', 'grpB', 'prod', 'nogroup'])]
    if kind == 'asi':
        return ['asi'] + list(rng.choice([('ssl', 'www.example.com'), ('ssl', 'db.example.com'), ('ldap', 'uid=7'), ('ssl', 'uid=7'), ('x', 'y')]))
    if kind == 'certtype':
        return ['certtype', rng.choice(['X_509', 'X_509', 'PGP'])]
    if kind == 'uid':
        pool = [str(o['uid']) for o in objs] * 2 + ['0' + str(o['uid']) for o in objs] + ['0', '999', 'abc', '-1']
        return ['uid', rng.choice(pool)]
    if kind == 'sensitive':
        return ['sensitive', rng.choice([True, False])]
    if kind == 'date':
        dates = sorted({o['idate'] for o in objs}) or [1600000000]
        if rng.random() < 0.15:
            return ['date', rng.choice(DATE_EDGES)]
        d = rng.choice(dates) + rng.choice([0, 0, 0, 1, -1, 3, -5])
        return ['date', d]
    if kind == 'other':
        return ['other', rng.choice(sorted(OTHER_FILTERS))]
    if kind == 'maskraw':
        have = [m.value for o in objs for m in MASKS if o['mask'] & m.value] or [4]
        return ['maskraw', rng.choice(have) | rng.choice([1 << 24, 1 << 30, (1 << 25) | (1 << 26)])]
    raise KeyError(kind)


def gen_filter_matching(rng, kind, o):
    """A filter of this kind that object row `o` satisfies (None when there is none)."""
    tname = OT(o['type']).name
    if kind == 'name':
        return ['name', rng.choice(o['names']), rng.choice(['UNINTERPRETED_TEXT_STRING'] * 5 + ['URI'])] if o['names'] else None
    if kind == 'state':
        return ['state', enums.State(o['state']).name] if tname != 'OPAQUE_DATA' else None
    if kind == 'otype':
        return ['otype', tname]
    if kind == 'alg':
        return ['alg', enums.CryptographicAlgorithm(o['alg']).name] if o['alg'] is not None else None
    if kind == 'len':
        return ['len', o['len']] if o['len'] is not None else None
    if kind == 'mask':
        if tname == 'OPAQUE_DATA':
            return None
        have = [m.name for m in MASKS if o['mask'] & m.value]
        return ['mask', sorted(rng.sample(have, rng.randint(0, min(3, len(have)))))]
    if kind == 'policy':
        return ['policy', o['policy']] if o['policy'] else None
    if kind == 'group':
        return ['group', rng.choice(o['groups'])] if o['groups'] else None
    if kind == 'asi':
        return ['asi'] + list(rng.choice(o['asi'])) if o['asi'] else None
    if kind == 'certtype':
        return ['certtype', enums.CertificateType(o['certtype']).name] if tname == 'CERTIFICATE' else None
    if kind == 'uid':
        return ['uid', rng.choice([''] * 6 + ['0']) + str(o['uid'])]
    if kind == 'sensitive':
        return ['sensitive', o['sensitive']]
    if kind == 'date':
        return ['date', o['idate']]
    return None


FAR_FUTURE = 4102444800          # 2100-01-01, beyond 32 bits
HUGE = 2 ** 62                   # beyond what time.gmtime converts (the debug message of _is_valid_date must cope)
DATE_EDGES = [0, 0, 1, -1, FAR_FUTURE, HUGE, -HUGE]


def boundary_dates(rng, store, target):
    """One or two Initial Date filter values drawn from the boundary menu - 0, 1, -1, the exact creation second of an
    object, one before / after, far future - in either position and order, so that ranges such as [0, T], [T, 0],
    [T, far future] and exact matches on 0 occur with objects on both sides of the bounds."""
    dates = sorted({o['idate'] for o in store.objs}) or [1600000000]
    t = target['idate'] if target is not None else rng.choice(dates)
    menu = [0, 0, 1, -1, FAR_FUTURE, HUGE, -HUGE, t, t, t - 1, t + 1, dates[0], dates[-1], dates[len(dates) // 2]]
    k = rng.choice([1, 2, 2, 2, 2])
    return [['date', rng.choice(menu)] for _ in range(k)]


def gen_filters(rng, store, req):
    n = rng.choice([0, 1, 1, 1, 2, 2, 2, 3, 3, 4])
    kinds = list(FILTER_KINDS) + ['otype', 'other'] + (['maskraw'] if rng.random() < 0.3 else [])
    visible = [o for o in store.objs if may_locate(store.pols, req[0], req[1], o['owner'], OT(o['type']).name, o['policy'])]
    target = rng.choice(visible) if visible and rng.random() < 0.85 else None
    fs = []
    for _ in range(n):
        kind = rng.choice(kinds)
        f = None
        if target is not None and rng.random() < 0.92:
            for _try in range(8):
                f = gen_filter_matching(rng, kind, target)
                if f is not None:
                    break
                kind = rng.choice(kinds)
        fs.append(f if f is not None else gen_filter(rng, kind, store))
    epoch_objs = [o for o in visible if o['idate'] == 0]
    if epoch_objs and rng.random() < 0.6:
        # an object created at the epoch and a date filter that does not fit it (the truthiness test on the Initial Date)
        t = rng.choice(epoch_objs)
        fs = [f for f in (gen_filter_matching(rng, rng.choice(['otype', 'uid', 'sensitive', 'policy']), t) for _ in range(rng.choice([0, 1, 2]))) if f]
        fs.insert(rng.randint(0, len(fs)), ['date', rng.choice([1600000000, 5, -3, 1])])
        if rng.random() < 0.3:
            fs.append(['date', rng.choice([1600000001, 7])])
        return fs
    r = rng.random()
    if r < 0.10:      # boundary values of the date filters, in both positions
        ds = boundary_dates(rng, store, target)
        fs = [f for f in fs if f[0] != 'date'][:2] + ds
        if rng.random() < 0.5:
            rng.shuffle(fs)
        assert all(f is not None for f in fs), fs
        return fs
    r = rng.random()
    if r < 0.12:      # explicit date range / too many dates
        k = rng.choice([2, 2, 2, 3])
        ds = [gen_filter(rng, 'date', store) for _ in range(k)]
        if target is not None and k == 2:
            ds = [['date', target['idate'] - rng.choice([0, 1, 7])], ['date', target['idate'] + rng.choice([0, 0, 1, 7])]]
            rng.shuffle(ds)
        fs = fs[:max(0, 4 - k)] + ds
        rng.shuffle(fs)
    elif r < 0.22:    # type-guarded algorithm/length filter (does not reach the certificate crash)
        g = None
        if target is not None and target['alg'] is not None:
            kind = rng.choice(['alg', 'len'])
            g = [['otype', OT(target['type']).name], gen_filter_matching(rng, kind, target) or gen_filter(rng, kind, store)]
        fs = (g or [['otype', rng.choice(KEY_TYPES)], gen_filter(rng, rng.choice(['alg', 'len']), store)]) + fs[:2]
    assert all(f is not None for f in fs), fs
    return fs


# ---------------------------------------------------------------------------------------------- running Locate
WIRE = {'roundtrip': 0, 'fallback': 0}


def _through_the_wire(payload, cls, version):
    """Encode and decode the payload as TTLV under the request's version (kmip/core/messages/payloads/locate.py);
    None when this version cannot carry it (e.g. Operation Policy Name under KMIP 2.0)."""
    from kmip.core import utils
    kv = enums.KMIPVersion['KMIP_%d_%d' % tuple(version)]
    try:
        st = utils.BytearrayStream()
        payload.write(st, kmip_version=kv)
        q = cls()
        q.read(utils.BytearrayStream(st.buffer), kmip_version=kv)
        return q
    except Exception:
        return None


def run_locate(store, req, fs, off, mx, version):
    op, payload = kdrv.locate([filter_to_attr(f) for f in fs], offset=off, maximum=mx)
    wired = _through_the_wire(payload, kdrv.payloads.LocateRequestPayload, version)
    WIRE['roundtrip' if wired is not None else 'fallback'] += 1
    r = store.eng.request([(op, wired if wired is not None else payload)], version=tuple(version), user=req[0], groups=req[1])
    if r['error']:
        return {'ids': None, 'reason': 'REQUEST:' + r['error']['reason'], 'message': r['error']['message']}
    it = r['items'][0]
    if not kdrv.ok(it):
        return {'ids': None, 'reason': it['reason'], 'message': it['message']}
    resp = it['raw'].response_payload
    back = _through_the_wire(resp, kdrv.payloads.LocateResponsePayload, version)
    ids = [str(x) for x in ((back if back is not None else resp).unique_identifiers or [])]
    return {'ids': ids, 'reason': None, 'message': None}


GATE = {'on': False}


def case_to_coq(store_name, req, fs, off, mx, obs, version=(1, 2), pols_name='pols_'):
    ids = None
    if obs['ids'] is not None:
        ids = []
        for s in obs['ids']:
            if str(int(s)) != s:
                raise RuntimeError('non-canonical identifier in a Locate response: %r' % s)
            ids.append(int(s))
    return '(mkCase (%s, %s) %s (mkReq %s %s) %s %s %s %s %s)' % (
        cp.z(version[0]), cp.z(version[1]), pols_name, cp.string(req[0]), cp.option(req[1], lambda g: cp.lst(g, cp.string)), store_name,
        cp.lst(fs, filter_to_coq), cp.option(off, cp.z), cp.option(mx, cp.z), cp.option(ids, lambda l: cp.lst(l, cp.z)))


# ---------------------------------------------------------------------------------------------- direct oracle
def oracle_matches(a, f):
    """Does the object whose GetAttributes answer is `a` carry the value the filter asks for?"""
    k = f[0]
    if k == 'name':
        return (f[1], f[2]) in a['Name']
    if k == 'state':
        return a.get('State') == f[1]
    if k == 'otype':
        return a.get('Object Type') == f[1]
    if k == 'alg':
        return a.get('Cryptographic Algorithm') == f[1]
    if k == 'len':
        return 'Cryptographic Length' in a and a['Cryptographic Length'] == f[1]
    if k == 'mask':
        if 'Cryptographic Usage Mask' not in a:
            return False
        want = mask_bits(f[1])
        return a['Cryptographic Usage Mask'] & want == want
    if k == 'policy':
        return a.get('Operation Policy Name') == f[1]
    if k == 'group':
        return f[1] in a['Object Group']
    if k == 'asi':
        return (f[1], f[2]) in a['Application Specific Information']
    if k == 'certtype':
        return a.get('Certificate Type') == f[1]
    if k == 'uid':
        return a.get('Unique Identifier') == f[1]
    if k == 'sensitive':
        return 'Sensitive' in a and a['Sensitive'] == f[1]
    if k == 'other':
        if f[1] in a:
            raise RuntimeError('GetAttributes shows a value for %r; the oracle has no comparison for it' % f[1])
        return False                # the object has no value for the attribute, so it does not match
    raise KeyError(k)


def oracle_expected(store, req, fs):
    """Set of uids the property demands (None when the request is outside the property: >2 dates, unsupported filter)."""
    dates = [f[1] for f in fs if f[0] == 'date']
    if len(dates) > 2 or any(f[0] == 'maskraw' for f in fs):
        return None
    want = set()
    for o in store.objs:
        tname = OT(o['type']).name
        if not may_locate(store.pols, req[0], req[1], o['owner'], tname, o['policy']):
            continue
        a = store.attrs[o['uid']]
        if a is None:
            # the owner cannot read the attributes; fall back to the raw rows for the date only is not possible -> treat as unknown
            return None
        if not all(oracle_matches(a, f) for f in fs if f[0] != 'date'):
            continue
        d = a['Initial Date']
        if len(dates) == 1 and d != dates[0]:
            continue
        if len(dates) == 2 and not (min(dates) <= d <= max(dates)):
            continue
        want.add(o['uid'])
    return want


def version_has(version, f):
    """policy.is_attribute_supported for the filter's attribute under the request's version."""
    from kmip.services.server import policy as spol
    name = f[1] if f[0] == 'other' else filter_to_attr(f).attribute_name.value
    return spol.AttributePolicy(kdrv.contents.ProtocolVersion(*version)).is_attribute_supported(name)


def witness(store, req, fs, off, mx, version, obs, extra=None):
    w = {'plan': store.plan, 'requester': list(req), 'filters': fs, 'offset': off, 'maximum': mx, 'version': list(version),
         'observed': obs, 'store': store.objs if len(store.objs) <= 40 else '%d objects (rebuild from the plan)' % len(store.objs)}
    for k, v in (getattr(store, 'extra', None) or {}).items():      # e.g. the policy history of a live-reload run, as it is NOW
        w[k] = list(v) if isinstance(v, list) else v
    if extra:
        w.update(extra)
    return w


def filter_class(fs):
    return '+'.join(sorted({f[0] for f in fs})) or 'none'


def oracle_check(ctx, store, req, fs, off, mx, version, obs, full_obs):
    """The property on the implementation's own behaviour.  Returns True when a violation was recorded."""
    hit = False
    dates = [f[1] for f in fs if f[0] == 'date']
    idate = {o['uid']: (store.attrs[o['uid']] or {}).get('Initial Date', o['idate']) for o in store.objs}
    if obs['ids'] is None:
        if 'attribute is unsupported' in (obs['message'] or '') and any(not version_has(version, f) for f in fs):
            ctx.count('oracle.version_gate.refused')
            return False
        if len(dates) > 2 and 'Too many' in (obs['message'] or ''):
            ctx.count('oracle.too_many_dates.refused')
            return False
        ctx.violation({'op': 'LOCATE', 'kind': 'unexpected-failure', 'reason': obs['reason'], 'filters': filter_class(fs)},
                      witness(store, req, fs, off, mx, version, obs), 'Locate failed (%s: %s) on a well-formed request' % (obs['reason'], obs['message']))
        return True
    ids = [int(x) for x in obs['ids']]
    if any(o.get('idate') == 0 for o in store.objs):
        ctx.count('oracle.skipped.epoch_store')
        return False
    if any(o.get('null') for o in store.plan):
        ctx.count('oracle.skipped.doctored_store')
        return False
    # newest first (non-increasing Initial Date); no identifier twice
    if any(idate[a] < idate[b] for a, b in zip(ids, ids[1:])) and (off is None or off >= 0) and (mx is None or mx >= 0):
        ctx.violation({'op': 'LOCATE', 'kind': 'order', 'filters': filter_class(fs)}, witness(store, req, fs, off, mx, version, obs),
                      'Locate result is not ordered newest first')
        hit = True
    if len(set(ids)) != len(ids):
        ctx.violation({'op': 'LOCATE', 'kind': 'duplicate', 'filters': filter_class(fs)}, witness(store, req, fs, off, mx, version, obs),
                      'Locate answered the same identifier twice')
        hit = True
    if off is None and mx is None:
        want = oracle_expected(store, req, fs)
        if want is None:
            ctx.count('oracle.skipped.outside_property')
        else:
            ctx.count('oracle.set_checked')
            if set(ids) != want:
                extra = sorted(set(ids) - want)
                missing = sorted(want - set(ids))
                ctx.violation({'op': 'LOCATE', 'kind': 'extra' if extra else 'missing', 'filters': filter_class(fs)},
                              witness(store, req, fs, off, mx, version, obs, {'expected': sorted(want), 'extra': extra, 'missing': missing}),
                              ('Locate answered %s but the permitted matching objects are %s' % (sorted(ids), sorted(want))) if len(want) + len(ids) <= 24 else
                              ('Locate answered %d identifiers but %d objects are permitted and match; missing %s%s, extra %s%s' % (
                                  len(ids), len(want), missing[:12], '...' if len(missing) > 12 else '', extra[:12], '...' if len(extra) > 12 else '')))
                hit = True
    elif (off is None or off >= 0) and (mx is None or mx >= 0) and full_obs is not None and full_obs['ids'] is not None:
        full = [int(x) for x in full_obs['ids']]
        lo = off or 0
        want = full[lo:] if mx is None else full[lo:lo + mx]
        ctx.count('oracle.slice_checked')
        if ids != want:
            ctx.violation({'op': 'LOCATE', 'kind': 'slice', 'filters': filter_class(fs)},
                          witness(store, req, fs, off, mx, version, obs, {'full': full, 'expected': want}),
                          'offset=%r maximum=%r answered %s; the full ordered result is %s' % (off, mx, ids, full))
            hit = True
    else:
        ctx.count('oracle.skipped.negative_slice')
    return hit


def pages_check(ctx, store, req, fs, version, full_obs, n):
    """Consecutive pages of size n concatenate to the full result and are pairwise disjoint."""
    if full_obs['ids'] is None:
        return
    full = full_obs['ids']
    pages, k = [], 0
    while True:
        o = run_locate(store, req, fs, k * n, n, version)
        if o['ids'] is None:
            ctx.violation({'op': 'LOCATE', 'kind': 'page-failure', 'filters': filter_class(fs)},
                          witness(store, req, fs, k * n, n, version, o, {'full': full}), 'a page request failed although the full request succeeded')
            return
        if not o['ids']:
            break
        pages.append(o['ids'])
        k += 1
        if k > len(full) + 2:
            break
    flat = [x for p in pages for x in p]
    ctx.count('oracle.pages_checked')
    if flat != full or len(set(flat)) != len(flat):
        ctx.violation({'op': 'LOCATE', 'kind': 'pages', 'filters': filter_class(fs)},
                      witness(store, req, fs, None, None, version, full_obs, {'page_size': n, 'pages': pages}),
                      'pages of size %d (%s) do not partition the full result %s' % (n, pages, full))


# ---------------------------------------------------------------------------------------------- main
def slice_menu(rng, n_full):
    n = max(n_full, 1)
    vals = [None, 0, 1, n, n + 1, 2]
    menu = [(None, None)]
    for _ in range(3):
        menu.append((rng.choice(vals), rng.choice(vals)))
    if rng.random() < 0.3:
        menu.append((rng.choice([-1, -2, 1, None]), rng.choice([-1, -3, 2, None])))
    out = []
    for m in menu:
        if m not in out:
            out.append(m)
    return out


def run_store(ctx, rng, idx, plan, pols, n_requests, cases, meta, defs, epoch=False):
    store = Store(ctx, plan, pols)
    try:
        sname = 'store_%d' % idx
        defs.append('Definition %s : list obj := %s.' % (sname, cp.lst(store.objs, obj_to_coq).replace('; (mkObj', ';\n   (mkObj')))
        ctx.count('store.size.%02d' % len(store.objs))
        for o in store.objs:
            ctx.count('store.type.%s' % OT(o['type']).name)
        if len({o['idate'] for o in store.objs}) < len(store.objs):
            ctx.count('store.with_equal_dates')
        for _ in range(n_requests):
            req = rng.choice(REQUESTERS[:2] * 8 + REQUESTERS[2:4] * 2 + REQUESTERS[4:8] * 2 + REQUESTERS)
            fs = gen_filters(rng, store, req)
            version = rng.choice(kdrv.VERSIONS)
            if any(f[0] == 'sensitive' for f in fs) and rng.random() < 0.75:
                version = rng.choice([(1, 4), (2, 0)])      # Sensitive exists from KMIP 1.4 on; earlier versions refuse the filter
            full_obs = run_locate(store, req, fs, None, None, version)
            n_full = len(full_obs['ids']) if full_obs['ids'] is not None else len(store.objs)
            n_vis = len([o for o in store.objs if may_locate(store.pols, req[0], req[1], o['owner'], OT(o['type']).name, o['policy'])])
            ctx.count('full.%s' % ('failed' if full_obs['ids'] is None else 'empty' if not n_full else
                                    'all_visible' if n_full == n_vis else 'proper_nonempty_subset_of_visible'))
            for (off, mx) in slice_menu(rng, n_full):
                obs = full_obs if (off is None and mx is None) else run_locate(store, req, fs, off, mx, version)
                cases.append(case_to_coq(sname, req, fs, off, mx, obs, version))
                meta.append({'store': idx, 'plan': plan, 'requester': list(req), 'filters': fs, 'offset': off, 'maximum': mx,
                             'version': list(version), 'observed': obs, 'objs': store.objs})
                nontrivial = obs['ids'] is not None and 0 < len(obs['ids'])
                ctx.case_seen((idx, req, fs, off, mx), nontrivial=nontrivial or bool(fs))
                ctx.count('locate.%s' % ('failed.' + str(obs['reason']) if obs['ids'] is None else ('empty' if not obs['ids'] else 'nonempty')))
                ctx.count('filters.n%d' % len(fs))
                for f in fs:
                    ctx.count('filter.' + f[0])
                ctx.count('requester.%s' % ('nogroups' if req[1] is None else 'groups'))
                ctx.count('version.%d.%d' % tuple(version))
                ctx.count('slice.%s.%s' % ('absent' if off is None else ('neg' if off < 0 else 'given'), 'absent' if mx is None else ('neg' if mx < 0 else 'given')))
                oracle_check(ctx, store, req, fs, off, mx, version, obs, full_obs)
            if full_obs and full_obs['ids'] and rng.random() < 0.5 and not epoch:
                pages_check(ctx, store, req, fs, version, full_obs, rng.choice([1, 2, 3]))
        if len(ctx.cov['samples']) < 3 and store.objs:
            ctx.sample({'store': store.objs[:3], 'request': meta[-1]['filters'], 'requester': meta[-1]['requester'], 'observed': meta[-1]['observed']})
    finally:
        store.close()


def gen_large_plan(rng, n):
    """A large store: many objects per second of the harness clock (bulk creation), several owners and policies,
    mostly cheap symmetric keys with a sprinkling of the other types; the clock now and then steps forward, rarely back."""
    plan = gen_plan(rng, n)
    per_second = rng.choice([15, 40, 40, 90])
    for o in plan:
        if o['type'] not in ('SYMMETRIC_KEY',) and rng.random() < 0.7:
            o.pop('alg', None)
            o.pop('len', None)
            o.update({'type': 'SYMMETRIC_KEY', 'how': 'create', 'alg': 'AES', 'len': rng.choice([128, 256])})
        if o['type'] == 'SYMMETRIC_KEY':
            o['how'] = 'create'
        o['policy'] = rng.choice(['default', 'open', 'team', 'team', 'mixed', 'mixedrev', 'partial', 'closed'])
        if rng.random() < 0.85:
            o['state'] = 'PRE_ACTIVE'
        r = rng.random()
        o['advance'] = 1 if r < 1.0 / per_second else (-2 if r > 0.995 else 0)
    return plan


def run_large(ctx, rng, idx, n, pols, cases, meta, defs):
    """The size dimension of "all stores": a store of n objects (n around powers of ten and of two) with many objects
    sharing a second; unfiltered, filtered and paged Locates by several requesters.  The direct oracle runs on the whole
    answer (set, order, slices, page partition); Coq compares every answer in full as well."""
    plan = gen_large_plan(rng, n)
    store = Store(ctx, plan, pols)
    try:
        sname = 'store_%d' % idx
        defs.append('Definition %s : list obj := %s.' % (sname, cp.lst(store.objs, obj_to_coq).replace('; (mkObj', ';\n   (mkObj')))
        ctx.count('store.large.%d_objects' % len(store.objs))
        ctx.count('store.large.distinct_seconds', len({o['idate'] for o in store.objs}))
        reqs = [('alice', None), ('bob', None), ('carol', ['g1']), ('bob', ['g3']), ('dave', None)]
        dates = sorted(o['idate'] for o in store.objs)
        requests = []
        for req in reqs:
            requests.append((req, []))
        # filters on columns of the base row are cheap for the engine (no per-object lazy load); two requests per store
        # use attributes of the subclass rows (about 1 ms per object and filter in the engine)
        for req in reqs[:3]:
            requests.append((req, [['otype', 'SYMMETRIC_KEY']]))
            requests.append((req, [['policy', rng.choice(['open', 'team', 'default'])]]))
            requests.append((req, [['date', dates[len(dates) // 3]], ['date', dates[-1]]]))
            requests.append((req, [['date', 0], ['date', dates[len(dates) // 2]]]))
            requests.append((req, [['date', dates[len(dates) // 2]]]))
            requests.append((req, [['sensitive', False], ['otype', rng.choice(['SYMMETRIC_KEY', 'CERTIFICATE', 'PUBLIC_KEY'])]]))
        heavy = [(reqs[0], [['state', 'PRE_ACTIVE'], ['mask', []]]), (reqs[1], gen_filters(rng, store, reqs[1]))]
        requests += heavy
        for req, fs in requests:
            version = rng.choice([(1, 2), (1, 4), (2, 0)]) if not any(f[0] == 'policy' for f in fs) else (1, 4)
            full_obs = run_locate(store, req, fs, None, None, version)
            n_full = len(full_obs['ids']) if full_obs['ids'] is not None else 0
            ctx.count('large.full.%s' % ('failed' if full_obs['ids'] is None else 'empty' if not n_full else 'over_100' if n_full > 100 else 'up_to_100'))
            menu = [(None, None)]
            is_heavy = any(rf is fs for _, rf in heavy)
            if n_full:
                b = rng.choice([100, 100, 64, 128, 256, 10])
                menu += [(b - 1, 2), (b, None), (None, b), (None, b + 1), (b + 1, 5), (n_full - 1, 3), (0, n_full)][:(1 if is_heavy else rng.choice([2, 4, 7]))]
            for (off, mx) in menu:
                obs = full_obs if (off is None and mx is None) else run_locate(store, req, fs, off, mx, version)
                cases.append(case_to_coq(sname, req, fs, off, mx, obs, version))
                meta.append({'store': idx, 'plan': plan, 'requester': list(req), 'filters': fs, 'offset': off, 'maximum': mx,
                             'version': list(version), 'observed': obs, 'objs': None})
                ctx.case_seen((idx, req, fs, off, mx), nontrivial=True)
                ctx.count('large.locate.%s' % ('failed' if obs['ids'] is None else ('empty' if not obs['ids'] else 'nonempty')))
                oracle_check(ctx, store, req, fs, off, mx, version, obs, full_obs)
            if n_full and not is_heavy:
                pages_check(ctx, store, req, fs, version, full_obs, rng.choice([50, 100, 100, 64, 33] if n_full > 40 else [7, 10]))
    finally:
        store.close()


# ---------------------------------------------------------------------------------------------- requests through the TTLV decoder
# An encoder of KMIP 1.x Locate request MESSAGES written here from the TTLV rules (tag 3 bytes, type 1 byte, length 4 bytes,
# value padded to a multiple of 8), independent of the library's write methods; the bytes are decoded by the library
# (messages.RequestMessage.read, as KmipSession does) and the decoded request is given to the engine.
def _ttlv(tag, typ, body, length=None):
    n = len(body) if length is None else length
    pad = (-len(body)) % 8
    return tag.to_bytes(3, 'big') + bytes([typ]) + n.to_bytes(4, 'big') + body + b'\x00' * pad


def _w_struct(tag, *children):
    return _ttlv(tag, 1, b''.join(children))


def _w_int(tag, v):
    return _ttlv(tag, 2, int(v).to_bytes(4, 'big', signed=True) + b'\x00' * 4, 4)


def _w_enum(tag, v):
    return _ttlv(tag, 5, int(v).to_bytes(4, 'big') + b'\x00' * 4, 4)


def _w_bool(tag, v):
    return _ttlv(tag, 6, (1 if v else 0).to_bytes(8, 'big'))


def _w_text(tag, t):
    return _ttlv(tag, 7, t.encode('utf-8'))


def _w_date(tag, v):
    return _ttlv(tag, 9, int(v).to_bytes(8, 'big', signed=True))


def _w_interval(tag, v):
    return _ttlv(tag, 10, int(v).to_bytes(4, 'big') + b'\x00' * 4, 4)


T_ATTRIBUTE, T_ATTR_NAME, T_ATTR_VALUE = 0x420008, 0x42000A, 0x42000B
DATE_NAMES = {'Activation Date', 'Process Start Date', 'Protect Stop Date', 'Deactivation Date', 'Destroy Date', 'Compromise Occurrence Date',
              'Compromise Date', 'Archive Date', 'Last Change Date', 'Original Creation Date'}
BOOL_NAMES = {'Fresh', 'Key Value Present', 'Always Sensitive', 'Extractable', 'Never Extractable'}
TEXT_NAMES = {'Contact Information', 'Custom Attribute'}


def wire_attribute(f):
    """One Attribute structure for an abstract filter; ['other', name] carries a value of the type the KMIP specification
    gives that attribute (a small structure for the structured ones)."""
    k = f[0]
    V = T_ATTR_VALUE
    if k == 'name':
        name, val = 'Name', _w_struct(V, _w_text(0x420055, f[1]), _w_enum(0x420054, enums.NameType[f[2]].value))
    elif k == 'state':
        name, val = 'State', _w_enum(V, enums.State[f[1]].value)
    elif k == 'otype':
        name, val = 'Object Type', _w_enum(V, OT[f[1]].value)
    elif k == 'alg':
        name, val = 'Cryptographic Algorithm', _w_enum(V, enums.CryptographicAlgorithm[f[1]].value)
    elif k == 'len':
        name, val = 'Cryptographic Length', _w_int(V, f[1])
    elif k == 'mask':
        name, val = 'Cryptographic Usage Mask', _w_int(V, mask_bits(f[1]))
    elif k == 'policy':
        name, val = 'Operation Policy Name', _w_text(V, f[1])
    elif k == 'group':
        name, val = 'Object Group', _w_text(V, f[1])
    elif k == 'asi':
        name, val = 'Application Specific Information', _w_struct(V, _w_text(0x420003, f[1]), _w_text(0x420002, f[2]))
    elif k == 'certtype':
        name, val = 'Certificate Type', _w_enum(V, enums.CertificateType[f[1]].value)
    elif k == 'uid':
        name, val = 'Unique Identifier', _w_text(V, f[1])
    elif k == 'sensitive':
        name, val = 'Sensitive', _w_bool(V, f[1])
    elif k == 'date':
        name, val = 'Initial Date', _w_date(V, f[1])
    elif k == 'other':
        name = f[1]
        if name in DATE_NAMES:
            val = _w_date(V, 1600000000)
        elif name in BOOL_NAMES:
            val = _w_bool(V, True)
        elif name in TEXT_NAMES:
            val = _w_text(V, 'ops')
        elif name == 'Lease Time':
            val = _w_interval(V, 60)
        elif name == 'Certificate Length':
            val = _w_int(V, 1024)
        elif name in ('Digital Signature Algorithm', 'Key Value Location'):
            val = _w_enum(V, 1)
        elif name == 'Link':
            val = _w_struct(V, _w_enum(0x42004B, 0x101), _w_text(0x42004C, '1'))
        elif name == 'Revocation Reason':
            val = _w_struct(V, _w_enum(0x420082, 1))
        elif name == 'Usage Limits':
            val = _w_struct(V, _ttlv(0x420097, 3, (100).to_bytes(8, 'big')), _ttlv(0x420096, 3, (100).to_bytes(8, 'big')), _w_enum(0x420098, 1))
        else:
            val = _w_struct(V, _w_text(0x42004C, 'x'))
    else:
        raise KeyError(k)
    return _w_struct(T_ATTRIBUTE, _w_text(T_ATTR_NAME, name), val)


def wire_locate_message(version, fs, off, mx):
    payload = b''
    if mx is not None:
        payload += _w_int(0x42004F, mx)
    if off is not None:
        payload += _w_int(0x4200D4, off)
    payload += b''.join(wire_attribute(f) for f in fs)
    header = _w_struct(0x420077, _w_struct(0x420069, _w_int(0x42006A, version[0]), _w_int(0x42006B, version[1])), _w_int(0x42000D, 1))
    item = _w_struct(0x42000F, _w_enum(0x42005C, 8), _w_struct(0x420079, payload))
    return _w_struct(0x420078, header, item)


def run_locate_wire(store, req, fs, off, mx, version):
    """-> observation; 'decode' marks a request the server's decoder refused."""
    from kmip.core import utils
    data = wire_locate_message(version, fs, off, mx)
    msg = kdrv.messages.RequestMessage()
    try:
        kv = kdrv.contents.protocol_version_to_kmip_version(store.eng.engine.default_protocol_version)
        msg.read(utils.BytearrayStream(data), kmip_version=kv)
    except Exception as e:
        return {'ids': None, 'reason': 'DECODE', 'message': type(e).__name__}
    r = store.eng.process(msg, req[0], req[1])
    if r['error']:
        return {'ids': None, 'reason': 'REQUEST:' + r['error']['reason'], 'message': r['error']['message']}
    it = r['items'][0]
    if not kdrv.ok(it):
        return {'ids': None, 'reason': it['reason'], 'message': it['message']}
    return {'ids': [str(x) for x in (it['raw'].response_payload.unique_identifiers or [])], 'reason': None, 'message': None}


def run_wire(ctx, rng, idx, pols, cases, meta, defs):
    """Every attribute name of enums.AttributeType as a Locate filter - alone, first, last - in messages encoded here and
    decoded by the library.  Oracle: the request is refused, or the answer is the specification's over ALL filters sent."""
    plan = GRID_PLAN[:4] + [GRID_CERT] + GRID_PLAN[4:8]
    store = Store(ctx, plan, pols)
    known = {'Name': 'name', 'State': 'state', 'Object Type': 'otype', 'Cryptographic Algorithm': 'alg', 'Cryptographic Length': 'len',
             'Cryptographic Usage Mask': 'mask', 'Operation Policy Name': 'policy', 'Object Group': 'group',
             'Application Specific Information': 'asi', 'Certificate Type': 'certtype', 'Unique Identifier': 'uid', 'Sensitive': 'sensitive',
             'Initial Date': 'date'}
    try:
        sname = 'store_%d' % idx
        defs.append('Definition %s : list obj := %s.' % (sname, cp.lst(store.objs, obj_to_coq).replace('; (mkObj', ';\n   (mkObj')))
        req = ('alice', None)
        for a in enums.AttributeType:
            target = rng.choice(store.objs)
            if a.value in known:
                x = gen_filter_matching(rng, known[a.value], target) or gen_filter(rng, known[a.value], store)
            else:
                x = ['other', a.value]
            companion = gen_filter_matching(rng, rng.choice(['otype', 'policy', 'uid', 'date']), target)
            for fs in ([x], [x, companion], [companion, x], [companion, x, ['otype', OT(target['type']).name]]):
                version = rng.choice([(1, 0), (1, 1), (1, 2), (1, 3), (1, 4)])
                if a.value == 'Sensitive' and rng.random() < 0.7:
                    version = (1, 4)
                full_obs = run_locate_wire(store, req, fs, None, None, version)
                for (off, mx) in [(None, None), (1, 1)][:rng.choice([1, 1, 2])]:
                    obs = full_obs if off is None else run_locate_wire(store, req, fs, off, mx, version)
                    ctx.count('wire_message.%s' % ('refused_by_decoder' if obs['reason'] == 'DECODE' else
                                                   'failed' if obs['ids'] is None else 'empty' if not obs['ids'] else 'nonempty'))
                    ctx.case_seen((idx, a.value, repr(fs), off, mx), nontrivial=True)
                    if obs['reason'] == 'DECODE':
                        continue                    # refused before the engine saw it: allowed by the property, outside the engine model
                    cases.append(case_to_coq(sname, req, fs, off, mx, obs, version))
                    meta.append({'store': idx, 'plan': plan, 'requester': list(req), 'filters': fs, 'offset': off, 'maximum': mx,
                                 'version': list(version), 'observed': obs, 'objs': store.objs, 'through_decoder': True})
                    store.extra = {'through_decoder': True}
                    oracle_check(ctx, store, req, fs, off, mx, version, obs, full_obs if full_obs['reason'] != 'DECODE' else None)
    finally:
        store.close()


# ---------------------------------------------------------------------------------------------- live policy reload
def edit_documents(rng, docs, original, step):
    """The next content of the policy file: replace / remove / re-add policy names, change Locate permissions."""
    docs = copy.deepcopy(docs)

    def set_locate(doc, perm):
        for sec in [doc.get('preset')] + list((doc.get('groups') or {}).values()):
            for ops in (sec or {}).values():
                if perm is None:
                    ops.pop('LOCATE', None)
                else:
                    ops['LOCATE'] = perm
    if step == 1:        # ALLOW_ALL edited to ALLOW_OWNER, group sections tightened
        set_locate(docs['open'], 'ALLOW_OWNER')
        set_locate(docs['team'], 'ALLOW_OWNER')
    elif step == 2:      # policies removed
        docs.pop('team', None)
        docs.pop('mixed', None)
        set_locate(docs['closed'], 'ALLOW_ALL')
    elif step == 3:      # re-added with other content
        docs['team'] = copy.deepcopy(original['open'])
        docs['mixed'] = copy.deepcopy(original['mixedrev'])
        docs['mixedrev'] = copy.deepcopy(original['mixed'])
    elif step == 4:      # back to the first content
        docs = copy.deepcopy(original)
    else:
        for name in rng.sample(sorted(original), 3):
            r = rng.random()
            if r < 0.25:
                docs.pop(name, None)
            elif r < 0.5:
                docs[name] = copy.deepcopy(original[rng.choice(sorted(original))])
            else:
                docs.setdefault(name, copy.deepcopy(original[name]))
                set_locate(docs[name], rng.choice(['ALLOW_ALL', 'ALLOW_OWNER', 'DISALLOW_ALL', None]))
    return docs


class LiveStore:
    """ONE engine whose policy store is the dict a PolicyDirectoryMonitor maintains from a policy directory; the
    policy file is rewritten between Locates and picked up by scan_policies(), as in a server with live policies."""
    def __init__(self, ctx, plan, tag):
        from kmip.services.server import monitor as smon
        self.dir = Path(ctx.work) / ('live_policies_%s' % tag)
        if self.dir.exists():
            for f in self.dir.iterdir():
                f.unlink()
        self.dir.mkdir(parents=True, exist_ok=True)
        self.file = self.dir / 'policies.json'
        base = copy.deepcopy(kdrv.core_policy.policies)
        self.policy_store = {'default': base['default'], 'public': base['public']}     # shared with the engine
        self.builtin_docs = {'default': _doc_of_builtin(base['default']), 'public': _doc_of_builtin(base['public'])}
        import signal
        saved = (signal.getsignal(signal.SIGINT), signal.getsignal(signal.SIGTERM))
        self.monitor = smon.PolicyDirectoryMonitor(str(self.dir), self.policy_store, live_monitoring=False)
        signal.signal(signal.SIGINT, saved[0])          # the monitor installs its own handlers; keep the harness's
        signal.signal(signal.SIGTERM, saved[1])
        self.monitor.logger.setLevel(100)
        self.mtime = 1700000000
        self.history = []
        self.prior = []
        docs = policy_documents()
        self.load(docs)
        self.store = Store(ctx, plan, Pols(self.policy_store, self.in_force(), str(self.file)))
        self.store.extra = {'policy_history': self.history, 'prior_requests': self.prior}

    def in_force(self):
        d = dict(self.builtin_docs)
        d.update(json.loads(self.file.read_text()))          # the specification reads the file as it is now
        return d

    def load(self, docs):
        self.file.write_text(json.dumps(docs, indent=1))
        self.mtime += 10
        import os
        os.utime(str(self.file), (self.mtime, self.mtime))
        self.monitor.scan_policies()
        self.history.append(docs)
        if hasattr(self, 'store'):
            self.store.pols = self.in_force()

    def close(self):
        self.store.close()


LIVE_REQUESTERS = [('alice', None), ('bob', None), ('carol', ['g1']), ('bob', ['g3']), ('alice', ['g2']), ('dave', None)]


def run_live(ctx, rng, idx, n_steps, cases, meta, defs):
    plan = gen_plan(rng, rng.choice([6, 8, 10]))
    for o in plan:
        o['policy'] = rng.choice(['open', 'open', 'team', 'team', 'mixed', 'mixedrev', 'closed', 'partial', 'default'])
        o['owner'] = rng.choice(['alice', 'bob'])
    live = LiveStore(ctx, plan, str(idx))
    store = live.store
    try:
        sname = 'store_%d' % idx
        defs.append('Definition %s : list obj := %s.' % (sname, cp.lst(store.objs, obj_to_coq).replace('; (mkObj', ';\n   (mkObj')))
        original = copy.deepcopy(live.history[0])
        docs = original
        for step in range(n_steps):
            if step > 0:
                docs = edit_documents(rng, docs, original, step)
                live.load(docs)
            pname = 'pols_%d_%d' % (idx, step)
            defs.append('Definition %s : policies :=\n  %s.' % (pname, policies_to_coq(store.pols)))
            ctx.count('live.policy_loads')
            requests = [(rq, []) for rq in LIVE_REQUESTERS] + [(rq, gen_filters(rng, store, rq)) for rq in LIVE_REQUESTERS[:4]]
            for req, fs in requests:
                version = (1, 4) if any(f[0] == 'policy' for f in fs) else rng.choice([(1, 2), (1, 4), (2, 0)])
                full_obs = run_locate(store, req, fs, None, None, version)
                for (off, mx) in [(None, None), (1, 2)][:rng.choice([1, 2])]:
                    obs = full_obs if off is None else run_locate(store, req, fs, off, mx, version)
                    cases.append(case_to_coq(sname, req, fs, off, mx, obs, version, pols_name=pname))
                    meta.append({'store': idx, 'plan': plan, 'requester': list(req), 'filters': fs, 'offset': off, 'maximum': mx,
                                 'version': list(version), 'observed': obs, 'objs': store.objs, 'policy_step': step})
                    ctx.case_seen((idx, step, req, fs, off, mx), nontrivial=True)
                    ctx.count('live.locate.%s' % ('failed' if obs['ids'] is None else ('empty' if not obs['ids'] else 'nonempty')))
                    oracle_check(ctx, store, req, fs, off, mx, version, obs, full_obs)
                live.prior.append({'policy_step': step, 'requester': list(req), 'filters': fs, 'version': list(version)})
                if full_obs['ids'] and rng.random() < 0.3:
                    pages_check(ctx, store, req, fs, version, full_obs, 2)
    finally:
        live.close()


MODEL_BRANCHES = ['Application Specific Information', 'Object Group', 'Name', 'State', 'Object Type', 'Cryptographic Algorithm',
                  'Cryptographic Length', 'Unique Identifier', 'Operation Policy Name', 'Cryptographic Usage Mask', 'Certificate Type',
                  'Sensitive', 'Initial Date']
MODEL_FETCH = {'Unique Identifier': 'unique_identifier', 'Name': 'names', 'Object Type': 'object_type',
               'Cryptographic Algorithm': 'cryptographic_algorithm', 'Cryptographic Length': 'cryptographic_length',
               'Certificate Type': 'certificate_type', 'Operation Policy Name': 'operation_policy_name',
               'Cryptographic Usage Mask': 'cryptographic_usage_masks', 'State': 'state', 'Initial Date': 'initial_date',
               'Object Group': 'object_groups', 'Application Specific Information': 'app_specific_info', 'Sensitive': 'sensitive'}


def structure_check(ctx):
    """Fail closed when the shape of the anchored code leaves what Locate.v mirrors: the chain of attribute branches in
    _process_locate and the attribute -> field / None map of _get_attribute_from_managed_object (read with ast)."""
    import ast
    src = (ctx.repo / 'kmip/services/server/engine.py').read_text()
    tree = ast.parse(src)
    fns = {n.name: n for n in ast.walk(tree) if isinstance(n, ast.FunctionDef)}
    problems = []

    def const_of(node):
        if isinstance(node, ast.Constant) and isinstance(node.value, str):
            return node.value
        if isinstance(node, ast.Attribute) and node.attr == 'value' and isinstance(node.value, ast.Attribute):
            try:
                return getattr(enums.AttributeType, node.value.attr).value       # enums.AttributeType.STATE.value
            except AttributeError:
                return None
        return None

    # 1. _get_attribute_from_managed_object: name -> set of managed_object fields read, or None
    fetch = {}
    node = fns['_get_attribute_from_managed_object'].body
    chain = [n for n in node if isinstance(n, ast.If)]
    cur = chain[0] if chain else None
    while cur is not None:
        t = cur.test
        name = const_of(t.comparators[0]) if isinstance(t, ast.Compare) and len(t.comparators) == 1 else None
        if name is None:
            problems.append('unrecognised test in _get_attribute_from_managed_object: %s' % ast.dump(t)[:120])
            break
        rets = [r for r in ast.walk(ast.Module(body=cur.body, type_ignores=[])) if isinstance(r, ast.Return)]
        if len(rets) == 1 and isinstance(rets[0].value, ast.Constant) and rets[0].value.value is None:
            fetch[name] = None
        elif (len(rets) == 1 and isinstance(rets[0].value, ast.Call) and isinstance(rets[0].value.func, ast.Name)
              and rets[0].value.func.id == 'getattr' and len(rets[0].value.args) == 3
              and isinstance(rets[0].value.args[0], ast.Name) and rets[0].value.args[0].id == 'managed_object'
              and isinstance(rets[0].value.args[1], ast.Constant)
              and isinstance(rets[0].value.args[2], ast.Constant) and rets[0].value.args[2].value is None):
            fetch[name] = ['getattr-or-None', rets[0].value.args[1].value]       # absent on classes without the field
        else:
            fetch[name] = sorted({a.attr for b in cur.body for a in ast.walk(b)
                                  if isinstance(a, ast.Attribute) and isinstance(a.value, ast.Name) and a.value.id == 'managed_object'})
        cur = cur.orelse[0] if len(cur.orelse) == 1 and isinstance(cur.orelse[0], ast.If) else None
    for name, field in MODEL_FETCH.items():
        want = ['getattr-or-None', field] if name in ('Cryptographic Algorithm', 'Cryptographic Length') else [field]
        if fetch.get(name) != want:
            problems.append('%r is fetched from %r (model: managed_object.%s)' % (name, fetch.get(name), field))
    for name in OTHER_FILTERS:
        if fetch.get(name, 'missing') is not None:
            problems.append('%r is no longer answered with None (%r)' % (name, fetch.get(name)))
    extra = sorted(n for n, v in fetch.items() if v is not None and n not in MODEL_FETCH)
    if extra:
        problems.append('attributes with a stored value the model does not know: %r' % extra)
    # 2. _process_locate: the elif chain after `if attribute is None: continue`
    branches = []
    for n in ast.walk(fns['_process_locate']):
        if isinstance(n, ast.If) and isinstance(n.test, ast.Compare) and isinstance(n.test.left, ast.Name) and n.test.left.id == 'attribute' \
                and isinstance(n.test.ops[0], ast.Is):
            b = [x for x in n.body if not isinstance(x, ast.Expr)]         # debug logging aside
            if not (len(b) == 2 and isinstance(b[0], ast.Assign) and isinstance(b[0].targets[0], ast.Name) and b[0].targets[0].id == 'add_object'
                    and isinstance(b[0].value, ast.Constant) and b[0].value.value is False and isinstance(b[1], ast.Break)):
                problems.append('`attribute is None` is no longer `add_object = False; break`')
            cur = n.orelse[0] if n.orelse else None
            while isinstance(cur, ast.If):
                nm = const_of(cur.test.comparators[0]) if isinstance(cur.test, ast.Compare) and isinstance(cur.test.left, ast.Name) and cur.test.left.id == 'name' else None
                if nm is None:
                    break           # the final `else: if value != attribute` fallback
                branches.append(nm)
                cur = cur.orelse[0] if len(cur.orelse) == 1 and isinstance(cur.orelse[0], ast.If) else None
    # version gate: _process_locate asks is_attribute_supported for every filter name
    GATE['on'] = any(isinstance(n, ast.Call) and isinstance(n.func, ast.Attribute) and n.func.attr == 'is_attribute_supported'
                     for n in ast.walk(fns['_process_locate']))
    if not GATE['on']:
        problems.append('_process_locate no longer calls is_attribute_supported (version gate)')
    if branches != MODEL_BRANCHES:
        problems.append('attribute branches of _process_locate are %r (model: %r)' % (branches, MODEL_BRANCHES))
    ctx.cov['structure_check'] = {'version_gate_present': GATE['on'], 'fetch_map_entries': len(fetch), 'none_valued': sorted(n for n, v in fetch.items() if v is None),
                                  'locate_branches': branches, 'problems': problems}
    if problems:
        ctx.broken.append({'kind': 'translation', 'name': 'c14.structure_check', 'detail': '; '.join(problems), 'candidates': []})
    return not problems


GRID_PLAN = [
    {'type': 'SYMMETRIC_KEY', 'how': 'create', 'alg': 'AES', 'len': 256, 'owner': 'alice', 'policy': 'open', 'names': [['k1', 'UNINTERPRETED_TEXT_STRING'], ['web', 'URI']],
     'groups': ['grpA', 'prod'], 'asi': [['ssl', 'www.example.com']], 'sensitive': True, 'mask': ['DECRYPT', 'ENCRYPT'], 'state': 'ACTIVE', 'advance': 1},
    {'type': 'PUBLIC_KEY', 'alg': 'RSA', 'len': 2048, 'owner': 'alice', 'policy': 'open', 'names': [['k2', 'UNINTERPRETED_TEXT_STRING']], 'groups': ['grpB'],
     'asi': [], 'sensitive': None, 'mask': ['VERIFY'], 'state': 'PRE_ACTIVE', 'advance': 0},
    {'type': 'PRIVATE_KEY', 'alg': 'RSA', 'len': 2048, 'owner': 'alice', 'policy': 'open', 'names': [['k2', 'UNINTERPRETED_TEXT_STRING']], 'groups': ['grpB'],
     'asi': [['ldap', 'uid=7']], 'sensitive': True, 'mask': ['SIGN'], 'state': 'DEACTIVATED', 'advance': 2},
    {'type': 'SPLIT_KEY', 'alg': 'AES', 'len': 128, 'owner': 'alice', 'policy': 'open', 'names': [], 'groups': [], 'asi': [], 'sensitive': False,
     'mask': ['ENCRYPT'], 'state': 'COMPROMISED', 'advance': 0},
    {'type': 'SECRET_DATA', 'owner': 'alice', 'policy': 'open', 'names': [['db', 'UNINTERPRETED_TEXT_STRING']], 'groups': ['prod'], 'asi': [['ssl', 'db.example.com']],
     'sensitive': None, 'mask': ['DERIVE_KEY', 'EXPORT'], 'state': 'ACTIVE', 'advance': 0},
    {'type': 'OPAQUE_DATA', 'owner': 'alice', 'policy': 'open', 'names': [['shared name', 'UNINTERPRETED_TEXT_STRING']], 'groups': ['grpA'], 'asi': [['ssl', 'www.example.com']],
     'sensitive': True, 'mask': [], 'state': 'PRE_ACTIVE', 'advance': 3},
    {'type': 'KEY_PAIR', 'alg': 'RSA', 'len': 1024, 'owner': 'bob', 'policy': 'default', 'names': [], 'groups': ['grpA'], 'asi': [], 'sensitive': None,
     'mask': [], 'state': 'PRE_ACTIVE', 'advance': 1},
    {'type': 'SYMMETRIC_KEY', 'how': 'register', 'alg': 'TRIPLE_DES', 'len': 192, 'owner': 'bob', 'policy': 'team', 'names': [['k1', 'UNINTERPRETED_TEXT_STRING']],
     'groups': [], 'asi': [], 'sensitive': False, 'mask': ['MAC_GENERATE', 'MAC_VERIFY'], 'state': 'PRE_ACTIVE', 'advance': 0},
]
GRID_PLAN += [
    # policies from the policy FILE whose Locate rules differ per object type (both listing orders), other owner
    {'type': 'PRIVATE_KEY', 'alg': 'RSA', 'len': 1024, 'owner': 'bob', 'policy': 'mixedrev', 'names': [['k1', 'UNINTERPRETED_TEXT_STRING']], 'groups': ['grpB'],
     'asi': [], 'sensitive': None, 'mask': ['SIGN'], 'state': 'PRE_ACTIVE', 'advance': 0},
    {'type': 'PUBLIC_KEY', 'alg': 'RSA', 'len': 1024, 'owner': 'bob', 'policy': 'mixed', 'names': [['k2', 'UNINTERPRETED_TEXT_STRING']], 'groups': [],
     'asi': [], 'sensitive': None, 'mask': ['VERIFY'], 'state': 'PRE_ACTIVE', 'advance': 1},
    {'type': 'SYMMETRIC_KEY', 'how': 'create', 'alg': 'AES', 'len': 128, 'owner': 'bob', 'policy': 'mixed', 'names': [], 'groups': ['prod'],
     'asi': [], 'sensitive': None, 'mask': ['ENCRYPT'], 'state': 'PRE_ACTIVE', 'advance': 0},
    {'type': 'SECRET_DATA', 'owner': 'bob', 'policy': 'mixedrev', 'names': [], 'groups': [], 'asi': [], 'sensitive': None, 'mask': [], 'state': 'PRE_ACTIVE', 'advance': 1},
]
GRID_CERT = {'type': 'CERTIFICATE', 'owner': 'alice', 'policy': 'open', 'names': [['web', 'UNINTERPRETED_TEXT_STRING']], 'groups': ['prod'], 'asi': [],
             'sensitive': False, 'mask': ['VERIFY', 'CERTIFICATE_SIGN'], 'state': 'ACTIVE', 'advance': 1}


def grid_requests(rng, store):
    """Every filter kind aimed at every stored object (matching value and a near miss), plus fixed scenarios."""
    out = []
    reqs = [('alice', None), ('bob', None), ('carol', ['g1'])]
    for o in store.objs:
        for kind in FILTER_KINDS + ['other']:
            f = gen_filter_matching(rng, kind, o)
            if f is None:
                f = gen_filter(rng, kind, store)       # e.g. a certificate-type filter aimed at a key: inapplicable
            out.append((reqs[0], [f]))
            out.append((rng.choice(reqs), [f, gen_filter(rng, rng.choice(FILTER_KINDS), store)]))
    for rq in reqs + [('alice', ['g3']), ('bob', ['g2']), ('dave', None)]:
        out.append((rq, []))
        out.append((rq, [['otype', 'PRIVATE_KEY']]))
        out.append((rq, [['policy', 'mixed']]))
    dates = sorted({o['idate'] for o in store.objs})
    lo, hi = dates[0], dates[-1]
    mid = dates[len(dates) // 2]
    for ds in ([lo, hi], [hi, lo], [mid, mid], [mid, hi], [lo - 5, lo - 1], [hi + 1, hi + 9], [mid], [mid + 1], [lo, mid, hi], [hi, hi, hi]):
        out.append((reqs[0], [['date', d] for d in ds]))
        out.append((reqs[1], [['otype', 'PUBLIC_KEY']] + [['date', d] for d in ds]))
    # boundary values in BOTH positions of a range, and as exact matches: 0, 1, -1, first / middle / last creation second,
    # one after the last, far future; the store's dates straddle every pair
    edges = [0, 1, -1, lo, mid, hi, hi + 1, FAR_FUTURE]
    for ds in ([HUGE], [-HUGE], [HUGE, mid], [mid, HUGE], [-HUGE, mid], [mid, -HUGE], [-HUGE, HUGE], [HUGE, -HUGE], [0, HUGE]):
        out.append((reqs[0], [['date', d] for d in ds]))
    for a in edges:
        out.append((reqs[0], [['date', a]]))
        for b in edges:
            out.append((reqs[0], [['date', a], ['date', b]]))
    for ds in ([0, lo, hi], [lo, 0, hi], [0, 0, 0], [0, 0, hi], [FAR_FUTURE, 0, mid]):
        out.append((reqs[0], [['date', d] for d in ds]))
    out.append((reqs[0], [['date', 0], ['otype', 'SYMMETRIC_KEY'], ['date', hi]]))
    out.append((reqs[1], [['date', 0], ['date', hi]]))
    out.append((('dave', None), [['date', lo], ['date', mid], ['date', hi]]))            # nothing visible: the third date goes unnoticed
    out.append((reqs[0], [['otype', 'TEMPLATE'], ['date', lo], ['date', mid], ['date', hi]]))
    out.append((reqs[0], [['otype', 'SYMMETRIC_KEY'], ['len', 256]]))
    out.append((reqs[0], [['len', 256], ['otype', 'SYMMETRIC_KEY']]))
    out.append((reqs[0], [['certtype', 'X_509'], ['alg', 'RSA']]))
    return out


def run_grid(ctx, rng, idx, plan, pols, cases, meta, defs):
    store = Store(ctx, plan, pols)
    try:
        sname = 'store_%d' % idx
        defs.append('Definition %s : list obj := %s.' % (sname, cp.lst(store.objs, obj_to_coq).replace('; (mkObj', ';\n   (mkObj')))
        for req, fs in grid_requests(rng, store):
            version = rng.choice(kdrv.VERSIONS)
            if any(f[0] == 'sensitive' for f in fs) and rng.random() < 0.75:
                version = rng.choice([(1, 4), (2, 0)])
            full_obs = run_locate(store, req, fs, None, None, version)
            n_full = len(full_obs['ids']) if full_obs['ids'] is not None else 2
            for (off, mx) in [(None, None), (1, None), (None, 1), (0, n_full), (1, max(n_full - 1, 0)), (n_full, 1)][:rng.choice([1, 1, 1, 2, 3])]:
                obs = full_obs if (off is None and mx is None) else run_locate(store, req, fs, off, mx, version)
                cases.append(case_to_coq(sname, req, fs, off, mx, obs, version))
                meta.append({'store': idx, 'plan': plan, 'requester': list(req), 'filters': fs, 'offset': off, 'maximum': mx,
                             'version': list(version), 'observed': obs, 'objs': store.objs})
                ctx.case_seen((idx, req, fs, off, mx), nontrivial=True)
                ctx.count('grid.%s' % ('failed.' + str(obs['reason']) if obs['ids'] is None else ('empty' if not obs['ids'] else 'nonempty')))
                for f in fs:
                    ctx.count('filter.' + f[0])
                oracle_check(ctx, store, req, fs, off, mx, version, obs, full_obs)
            if full_obs['ids']:
                pages_check(ctx, store, req, fs, version, full_obs, rng.choice([1, 2, 3]))
    finally:
        store.close()


def run(ctx):
    WIRE['roundtrip'] = WIRE['fallback'] = 0
    ctx.cov['rule'] = ('fixed grid (every filter kind aimed at every object of a store holding all seven stored types and a key pair, with and without a '
                       'certificate in sight; date ranges in both orders, exact, empty, three dates with and without a visible object; type-guarded length filters) '
                       'seeded stores of 0-15 objects and large stores (quick: one of ~100-130 and one of ~255-300 objects; thorough: 99..1025, sizes around powers of ten and two; 15-90 objects per clock second, so date ties straddle any page boundary) built through Register/Create/CreateKeyPair/Activate/Revoke under a controlled clock '
                       '(7 object types, 3 owners, 8 policy choices incl. group sections, refusing, missing and absent policies, 4 states, names of both name types, '
                       'object groups, application specific information, sensitive flag, equal / distinct / non-monotone Initial Dates; every 9th store partly created at '
                       'the epoch, every 9th with NULL length or absent algorithm written through SQL) x conjunctions of 0-4 filters over the 13 filter kinds of the '
                       'property (85% aimed at an object the requester can see; + attributes the server keeps no value for, + masks with undefined bits, '
                       '+ type-guarded algorithm/length filters, + 1, 2, 3 date filters) x offset/maximum in {absent,0,1,2,n,n+1,negative} x 12 requesters '
                       '(with and without groups) x 6 protocol versions; request and response payloads pass through TTLV write/read.  '
                       'A case is distinct by (store, requester, filter list, offset, maximum) and non-trivial when it has a filter or a non-empty answer.')
    ctx.regen(only=['attrrules', 'enums'])
    ctx.prove('props/C14.v')
    structure_check(ctx)
    quick = ctx.tier == 'quick'
    rng = ctx.subrng('locate')
    pols = build_policies(ctx)
    cases, meta, defs = [], [], ['Definition pols_ : policies :=\n  %s.' % policies_to_coq(pols.docs)]
    n_stores = 22 if quick else 160
    n_requests = 12 if quick else 30
    sizes = [0, 1, 2, 3, 5, 8, 12]
    # fixed grid first: every filter kind x every stored type, without and with a certificate in sight
    run_grid(ctx, rng, 9000, GRID_PLAN, pols, cases, meta, defs)
    run_grid(ctx, rng, 9001, GRID_PLAN[:4] + [GRID_CERT] + GRID_PLAN[4:], pols, cases, meta, defs)
    for idx in range(n_stores):
        n = sizes[idx] if idx < len(sizes) else rng.choice([2, 3, 4, 5, 6, 7, 8, 9, 10, 12])
        epoch = (idx % 9 == 8)
        doctored = (idx % 9 == 7)
        plan = gen_plan(rng, n, epoch=epoch, doctored=doctored)
        run_store(ctx, rng, idx, plan, pols, n_requests, cases, meta, defs, epoch=epoch or doctored)
    # Locate messages encoded here and decoded by the library: every attribute name as a filter
    run_wire(ctx, rng, 6000, pols, cases, meta, defs)
    # live policy reload: ONE engine, the policy file rewritten and rescanned between Locates
    for k in range(1 if quick else 6):
        run_live(ctx, rng, 7000 + k, 6 if quick else 9, cases, meta, defs)
    # the size dimension: large stores with many objects per second, sizes around powers of ten and of two
    if quick:
        large = [rng.choice([99, 100, 101, 128, 129, 130]), rng.choice([255, 256, 257, 300])]
    else:
        large = [99, 100, 101, 127, 128, 129, 200, 255, 256, 257, 511, 512, 513, 1000, 1001, 1025]
    ctx.log('grid and seeded stores done: %d cases' % len(cases))
    cases_l, meta_l, defs_l = [], [], [defs[0]]
    for k, n in enumerate(large):
        run_large(ctx, rng, 8000 + k, n, pols, cases_l, meta_l, defs_l)
    ctx.log('large stores done: %s objects, %d cases' % (large, len(cases_l)))
    header_l = HEADER + '\n'.join(defs_l) + '\n'
    bad_l = ctx.run_cases('locate_large', header_l, cases_l, 'check_case', shard=120,
                          what='the same comparison on stores of ~100 to ~1000 objects with many objects per second')
    for i in bad_l[:5]:
        m = meta_l[i]
        ctx.disagreement('locate_large', {k: m[k] for k in ('plan', 'requester', 'filters', 'offset', 'maximum', 'version', 'observed')},
                         impl_says=m['observed'])
    header = HEADER + '\n'.join(defs) + '\n'
    bad = ctx.run_cases('locate', header, cases, 'check_case',
                        what='Locate.locate_model (allowed_of policies requester) vs KmipEngine._process_locate: identifier list in order, failures as one class')
    for i in bad[:20]:
        m = meta[i]
        ctx.disagreement('locate', {k: m[k] for k in ('plan', 'requester', 'filters', 'offset', 'maximum', 'version', 'observed', 'objs')},
                         model_says=ctx.model_output(header, 'model_of_case %s' % cases[i]) if i == bad[0] else None,
                         impl_says=m['observed'])
    shrink_first_violation(ctx)
    ctx.count('wire.request_roundtrip', WIRE['roundtrip'])
    ctx.count('wire.request_in_process_only', WIRE['fallback'])
    ctx.cov['trusted_extra'] = [
        'harness/c14.py: store read-back from raw SQL rows (model input), GetAttributes read-back and policy reading (oracle input), printers to Coq terms',
        'hand model coq/theories/Locate/Locate.v of _process_locate and its helpers, tied by the correspondence above on every run; '
        'applicability comes from the generated rule table (tie T)']


class _Collect:
    """Stands in for ctx while the shrinker re-evaluates the oracle."""
    def __init__(self):
        self.hits = []

    def violation(self, sig, w, what):
        self.hits.append((sig, w, what))
        return 'new'

    def count(self, *a, **k):
        pass


def violates(ctx, plan, req, fs, off, mx, version, kind, page_size=None, wire=False):
    col = _Collect()
    try:
        store = Store(ctx, plan, build_policies(ctx))
    except RuntimeError:
        return None
    try:
        loc = run_locate_wire if wire else run_locate
        if wire:
            store.extra = {'through_decoder': True}
        full = loc(store, req, fs, None, None, version)
        obs = full if (off is None and mx is None) else loc(store, req, fs, off, mx, version)
        if obs['reason'] == 'DECODE':
            return None
        oracle_check(col, store, req, fs, off, mx, version, obs, full if full['reason'] != 'DECODE' else None)
        if page_size:
            pages_check(col, store, req, fs, version, full, page_size)
    finally:
        store.close()
    for sig, w, what in col.hits:
        if sig.get('kind') == kind:
            return sig, w, what
    return None


def shrink_first_violation(ctx):
    """Greedy one-at-a-time removal of stored objects and filters while the same kind of violation persists."""
    if not ctx.violations:
        return
    v = ctx.violations[0]
    w = v['witness']
    kind = v['signature'].get('kind')
    if 'plan' not in w or kind is None or 'policy_history' in w:
        return                      # (a live-reload witness is a history; it is replayed as recorded)
    plan, fs = list(w['plan']), list(w['filters'])
    req = (w['requester'][0], w['requester'][1])
    off, mx, version, ps = w.get('offset'), w.get('maximum'), tuple(w.get('version') or (1, 2)), w.get('page_size')
    wire = bool(w.get('through_decoder'))
    best, budget, changed = None, 80, True
    if len(plan) > 40:
        # large store: remove chunks (halving sizes) under a wall-clock budget, then go on one at a time if small enough
        import time as _t
        deadline = _t.time() + 75
        chunk = len(plan) // 2
        while chunk >= 1 and _t.time() < deadline:
            i = 0
            while i < len(plan) and _t.time() < deadline:
                cand = plan[:i] + plan[i + chunk:]
                r = violates(ctx, cand, req, fs, off, mx, version, kind, ps, wire)
                if r:
                    plan, best = cand, r
                else:
                    i += chunk
            chunk //= 2
        for j in range(len(fs) - 1, -1, -1):
            cand = fs[:j] + fs[j + 1:]
            r = violates(ctx, plan, req, cand, off, mx, version, kind, ps, wire)
            if r:
                fs, best = cand, r
        changed = len(plan) <= 40
    while changed and budget > 0:
        changed = False
        for i in range(len(plan) - 1, -1, -1):
            cand = plan[:i] + plan[i + 1:]
            budget -= 1
            r = violates(ctx, cand, req, fs, off, mx, version, kind, ps, wire)
            if r:
                plan, best, changed = cand, r, True
            if budget <= 0:
                break
        for j in range(len(fs) - 1, -1, -1):
            cand = fs[:j] + fs[j + 1:]
            budget -= 1
            r = violates(ctx, plan, req, cand, off, mx, version, kind, ps, wire)
            if r:
                fs, best, changed = cand, r, True
            if budget <= 0:
                break
    if best:
        sig, w2, what = best
        w2['shrunk_from'] = {'objects': len(w['plan']), 'filters': len(w['filters'])}
        v['witness'], v['what'] = w2, what
        ctx.log('shrunk the first violation to %d objects, %d filters' % (len(plan), len(fs)))


def replay_live(ctx, w):
    """Re-run a live-reload history: same store plan, same sequence of policy files and of Locates."""
    live = LiveStore(ctx, w['plan'], 'replay')
    store = live.store
    try:
        hist = w['policy_history']
        step = 0
        for pr in w.get('prior_requests', []):
            while step < pr['policy_step']:
                step += 1
                live.load(hist[step])
            run_locate(store, tuple(pr['requester'][:1]) + (pr['requester'][1],), pr['filters'], None, None, pr['version'])
        while step < len(hist) - 1:
            step += 1
            live.load(hist[step])
        req = (w['requester'][0], w['requester'][1])
        version = w.get('version') or (1, 2)
        full = run_locate(store, req, w['filters'], None, None, version)
        obs = full if (w.get('offset') is None and w.get('maximum') is None) else run_locate(store, req, w['filters'], w.get('offset'), w.get('maximum'), version)
        print('policy file loads: %d; Locates before the failing one: %d' % (len(hist), len(w.get('prior_requests', []))))
        print('request : requester=%r filters=%r offset=%r maximum=%r' % (req, w['filters'], w.get('offset'), w.get('maximum')))
        print('observed:', obs)
        print('expected:', sorted(oracle_expected(store, req, w['filters']) or []), '(under the policy documents in force at that time)')
        oracle_check(ctx, store, req, w['filters'], w.get('offset'), w.get('maximum'), version, obs, full)
    finally:
        live.close()
    if ctx.violations:
        print('REPRODUCED:', ctx.violations[0]['what'])
        return 1
    print('not reproduced')
    return 0


def replay(ctx, payload):
    w = payload.get('input') or {}
    if 'plan' not in w:
        cands = payload.get('first_disagreeing_cases') or []
        if not cands:
            print('replay file names no concrete input')
            return 2
        w = cands[0]['case']
    if 'policy_history' in w:
        return replay_live(ctx, w)
    pols = build_policies(ctx)
    store = Store(ctx, w['plan'], pols)
    try:
        req = (w['requester'][0], w['requester'][1])
        fs = w['filters']
        loc = run_locate_wire if w.get('through_decoder') else run_locate
        obs = loc(store, req, fs, w.get('offset'), w.get('maximum'), w.get('version') or (1, 2))
        full = loc(store, req, fs, None, None, w.get('version') or (1, 2))
        print('store   :', json.dumps(store.objs))
        print('request : requester=%r filters=%r offset=%r maximum=%r' % (req, fs, w.get('offset'), w.get('maximum')))
        print('observed:', obs)
        print('expected:', sorted(oracle_expected(store, req, fs) or []), '(set demanded by the property when no offset/maximum is given)')
        oracle_check(ctx, store, req, fs, w.get('offset'), w.get('maximum'), w.get('version') or (1, 2), obs, full)
        if w.get('page_size'):
            pages_check(ctx, store, req, fs, w.get('version') or (1, 2), full, w['page_size'])
    finally:
        store.close()
    if ctx.violations:
        print('REPRODUCED:', ctx.violations[0]['what'])
        return 1
    print('not reproduced')
    return 0
