"""Independent TTLV parser written from the KMIP specification (section 9.1); shares no code with PyKMIP.

parse(bs) -> (item, rest)   item = {'tag': int, 'type': int, 'length': int, 'value': int|bool|bytes|list[item]}
check(bs) -> list of problems (empty = the byte string is exactly one well-formed TTLV item)
"""
FIXED = {2: 4, 3: 8, 5: 4, 6: 8, 9: 8, 10: 4}


class Malformed(Exception):
    pass


def parse(bs, depth=0):
    if depth > 200:
        raise Malformed('nesting deeper than 200')
    if len(bs) < 8:
        raise Malformed('item header needs 8 bytes, %d left' % len(bs))
    tag = int.from_bytes(bs[0:3], 'big')
    ty = bs[3]
    length = int.from_bytes(bs[4:8], 'big')
    if not 1 <= ty <= 10:
        raise Malformed('item type %d is not 1..10' % ty)
    if ty in FIXED and length != FIXED[ty]:
        raise Malformed('type %d must have length %d, has %d' % (ty, FIXED[ty], length))
    if ty == 4 and (length == 0 or length % 8):
        raise Malformed('big integer length %d is not a positive multiple of 8' % length)
    padded = length + (-length) % 8
    if len(bs) < 8 + padded:
        raise Malformed('item value needs %d bytes, %d left' % (padded, len(bs) - 8))
    raw = bs[8:8 + length]
    pad = bs[8 + length:8 + padded]
    if any(pad):
        raise Malformed('non-zero padding')
    rest = bs[8 + padded:]
    if ty == 1:
        children = []
        body = raw
        while body:
            child, body = parse(body, depth + 1)
            children.append(child)
        value = children
    elif ty in (2, 3, 4, 9):
        value = int.from_bytes(raw, 'big', signed=True)
    elif ty in (5, 10):
        value = int.from_bytes(raw, 'big')
    elif ty == 6:
        v = int.from_bytes(raw, 'big')
        if v not in (0, 1):
            raise Malformed('boolean value %d' % v)
        value = bool(v)
    elif ty == 7:
        value = bytes(raw)          # text: raw bytes (UTF-8 per specification)
    else:
        value = bytes(raw)
    return {'tag': tag, 'type': ty, 'length': length, 'value': value}, rest


def check(bs):
    try:
        item, rest = parse(bytes(bs))
    except Malformed as e:
        return ['malformed TTLV: %s' % e]
    if rest:
        return ['%d trailing bytes after the item' % len(rest)]
    return []


def children(item, tag):
    return [c for c in item['value'] if c['tag'] == tag] if item['type'] == 1 else []


# tags used by the envelope check (KMIP specification, tag table)
T_RESPONSE_MESSAGE = 0x42007B
T_RESPONSE_HEADER = 0x42007A
T_PROTOCOL_VERSION = 0x420069
T_PV_MAJOR = 0x42006A
T_PV_MINOR = 0x42006B
T_TIME_STAMP = 0x420092
T_BATCH_COUNT = 0x42000D
T_BATCH_ITEM = 0x42000F
T_OPERATION = 0x42005C
T_UNIQUE_BATCH_ITEM_ID = 0x420093
T_RESULT_STATUS = 0x42007F
T_RESULT_REASON = 0x42007E
T_RESULT_MESSAGE = 0x42007D
T_RESPONSE_PAYLOAD = 0x42007C


def envelope_problems(bs, request_version=None):
    """Problems with a server response w.r.t. the message envelope of property C02."""
    try:
        msg, rest = parse(bytes(bs))
    except Malformed as e:
        return ['malformed TTLV: %s' % e], None
    out = []
    if rest:
        out.append('%d trailing bytes' % len(rest))
    if msg['tag'] != T_RESPONSE_MESSAGE or msg['type'] != 1:
        return out + ['not a ResponseMessage structure (tag %#x)' % msg['tag']], None
    hdrs = children(msg, T_RESPONSE_HEADER)
    if len(hdrs) != 1 or msg['value'][0] is not hdrs[0]:
        return out + ['response header missing or not first'], None
    hdr = hdrs[0]
    pv = children(hdr, T_PROTOCOL_VERSION)
    ver = None
    if len(pv) != 1:
        out.append('header has %d protocol versions' % len(pv))
    else:
        ma, mi = children(pv[0], T_PV_MAJOR), children(pv[0], T_PV_MINOR)
        if len(ma) != 1 or len(mi) != 1:
            out.append('protocol version lacks major/minor')
        else:
            ver = (ma[0]['value'], mi[0]['value'])
            if request_version is not None and ver != tuple(request_version):
                out.append('header version %r differs from the request version %r' % (ver, tuple(request_version)))
    ts = children(hdr, T_TIME_STAMP)
    if len(ts) != 1 or ts[0]['type'] != 9:
        out.append('header has no time stamp')
    bc = children(hdr, T_BATCH_COUNT)
    items = children(msg, T_BATCH_ITEM)
    if len(bc) != 1 or bc[0]['type'] != 2:
        out.append('header has no batch count')
    elif bc[0]['value'] != len(items):
        out.append('batch count %d but %d batch items' % (bc[0]['value'], len(items)))
    if len(msg['value']) != 1 + len(items):
        out.append('unexpected members in the response message')
    summary = []
    for k, it in enumerate(items):
        st = children(it, T_RESULT_STATUS)
        rs = children(it, T_RESULT_REASON)
        rm = children(it, T_RESULT_MESSAGE)
        if len(st) != 1 or st[0]['type'] != 5:
            out.append('item %d has no result status' % k)
            continue
        success = st[0]['value'] == 0
        if success and (rs or rm):
            out.append('item %d is successful but carries a result reason/message' % k)
        if not success and not (len(rs) == 1 and len(rm) == 1):
            out.append('item %d failed (status %d) with %d reasons and %d messages' % (k, st[0]['value'], len(rs), len(rm)))
        summary.append((st[0]['value'], rs[0]['value'] if rs else None))
    return out, {'version': ver, 'items': summary}
