"""In-process driver for kmip.services.server.session.KmipSession (C12, C17).

    conn  = FakeConn(stream_bytes, chunk_sizes, cert_der)    scripted transport: recv serves the chunking, sendall records
    proxy = EngineProxy(kdrv.Engine())                      real KmipEngine behind a recording wrapper
    obs   = run_connection(proxy, conn, tls_client_auth=True, auth_settings=[...], slugs=SlugsStub({...}))

`run_connection` repeats `_handle_message_loop()` exactly as `KmipSession.run` does (ConnectionClosed ends it, any
other exception is recorded and the loop goes on) and returns one record per framed request:
    {'frame': bytes, 'sent': [bytes...], 'recv_sizes': [n...], 'escaped': None | 'ExcName',
     'engine': None | {'credential': (user, groups), 'kind': 'resp'|'kmiperr'|'crash', ...}, 'dump_before', 'dump_after'}

Nothing in /repo is modified; `requests.get` inside the SLUGS plugin is replaced by a scripted stub for the
duration of a connection.  Also holds an independent TTLV reader (written from the KMIP specification, does not
import PyKMIP) used by the direct oracles.
"""
import copy
import datetime
import hashlib
import json
import logging
import struct

from cryptography import x509
from cryptography.hazmat.backends import default_backend
from cryptography.hazmat.primitives import hashes, serialization
from cryptography.hazmat.primitives.asymmetric import ec

from kmip.core import enums, exceptions as kexc, utils as kutils
from kmip.core.messages import contents, messages
from kmip.services.server import session as session_mod
from kmip.services.server import engine as engine_mod
from kmip.services.server.auth import slugs as slugs_mod

logging.getLogger('kmip').setLevel(logging.CRITICAL + 1)

# ---------------------------------------------------------------------------------------------- certificates
_KEY = None
_CERTS = {}


_E = x509.oid.ExtendedKeyUsageOID
# every standard extended key usage, anyExtendedKeyUsage and an OID nobody knows
EKU_OIDS = {'server': _E.SERVER_AUTH, 'client': _E.CLIENT_AUTH, 'code': _E.CODE_SIGNING, 'email': _E.EMAIL_PROTECTION,
            'time': _E.TIME_STAMPING, 'ocsp': _E.OCSP_SIGNING, 'any': x509.ObjectIdentifier('2.5.29.37.0'),
            'unknown': x509.ObjectIdentifier('1.3.6.1.4.1.55555.7.1')}


def eku_kind(eku):
    """What the property cares about: 'absent' (no extension), 'client' (clientAuth listed), 'noclient' (anything else -
    anyExtendedKeyUsage does not count: the certificate must CARRY the client-authentication usage)."""
    if isinstance(eku, str):
        return {'absent': 'absent', 'server': 'noclient', 'client': 'client', 'both': 'client'}[eku]
    return 'client' if 'client' in eku[1] else 'noclient'


def make_cert(cns, eku, layout=None):
    """DER certificate with the given common names; eku in {'absent', 'server', 'client', 'both'} or
    ('set', (names from EKU_OIDS...), critical).
    layout (optional): the subject as a list of RDNs, each a list of 'CN:<value>' / 'O:<value>' / 'OU:<value>' - lets the
    same number of common names be encoded in every way X.509 allows (several CNs in ONE multi-valued RDN, a CN sharing
    its RDN with another attribute, the CN not in the first RDN).  Without layout every CN is an RDN of its own."""
    global _KEY
    k = (tuple(cns), repr(eku), repr(layout))
    if k in _CERTS:
        return _CERTS[k]
    if _KEY is None:
        _KEY = ec.generate_private_key(ec.SECP256R1(), default_backend())
    N = x509.oid.NameOID
    if layout is None:
        layout = [['CN:' + cn] for cn in cns] + [['O:verif']]
    kinds = {'CN': N.COMMON_NAME, 'O': N.ORGANIZATION_NAME, 'OU': N.ORGANIZATIONAL_UNIT_NAME}
    rdns = [x509.RelativeDistinguishedName([x509.NameAttribute(kinds[a.split(':', 1)[0]], a.split(':', 1)[1]) for a in rdn])
            for rdn in layout]
    assert sorted(a.split(':', 1)[1] for rdn in layout for a in rdn if a.startswith('CN:')) == sorted(cns), 'layout and cns differ'
    name = x509.Name(rdns)
    t = datetime.datetime(2020, 1, 1)
    b = (x509.CertificateBuilder().serial_number(1).issuer_name(name).subject_name(name)
         .not_valid_before(t).not_valid_after(t + datetime.timedelta(days=36500)).public_key(_KEY.public_key()))
    if isinstance(eku, str):
        usages = {'absent': None, 'server': [EKU_OIDS['server']], 'client': [EKU_OIDS['client']],
                  'both': [EKU_OIDS['server'], EKU_OIDS['client']]}[eku]
        critical = True
    else:                                   # ('set', (usage names...), critical)
        usages, critical = [EKU_OIDS[n] for n in eku[1]], bool(eku[2])
    if usages is not None:
        b = b.add_extension(x509.ExtendedKeyUsage(usages), critical)
    der = b.sign(_KEY, hashes.SHA256(), default_backend()).public_bytes(serialization.Encoding.DER)
    _CERTS[k] = der
    return der


# ---------------------------------------------------------------------------------------------- fake transport
class FakeConn:
    """recv(n) returns at most n bytes of the current scripted chunk (the rest of the chunk stays first in line);
    when the script is exhausted it returns b'' (peer closed).  A scripted chunk of size 0 is delivered as b''."""

    def __init__(self, stream, sizes, cert_der, hold=None):
        self.hold = hold                     # {'drained': Event, 'release': Event} or None
        self.chunks = []
        pos = 0
        for s in sizes:
            self.chunks.append(bytes(stream[pos:pos + s]))
            pos += s
        assert pos == len(stream), 'chunk sizes do not cover the stream'
        self.cert = cert_der
        self.sent = []
        self.recv_sizes = []

    def recv(self, n):
        self.recv_sizes.append(n)
        if not self.chunks:
            if self.hold is not None:            # the peer keeps the connection open until released
                self.hold['drained'].set()
                self.hold['release'].wait(120)
            return b''
        c = self.chunks[0]
        if len(c) <= n:
            self.chunks.pop(0)
            return c
        self.chunks[0] = c[n:]
        return c[:n]

    def sendall(self, data):
        self.sent.append(bytes(data))

    def getpeercert(self, binary_form=False):
        return self.cert

    def cipher(self):
        return ('ECDHE-RSA-AES256-GCM-SHA384', 'TLSv1.2', 256)

    def shared_ciphers(self):
        return [self.cipher()]


# ---------------------------------------------------------------------------------------------- SLUGS stub
class _Resp:
    def __init__(self, status, body):
        self.status_code = status
        self._body = body

    def json(self):
        if self._body == 'badjson':
            raise ValueError('No JSON object could be decoded')
        return self._body


class SlugsStub:
    """script: {base_url (with trailing slash): {'user': ('unreachable',) | ('status', code),
                                                 'groups': ('unreachable',) | ('status', code, body)}}
    body: dict (the JSON document) or 'badjson'; with 'users': {name: groups} the service answers 200 for exactly
    those names (compared byte for byte with what the URL asks) and 404 for every other.  `phases`, when given, is a list of such scripts: phase i answers
    while frame i of the connection is being handled (a service whose answers change during a connection)."""

    def __init__(self, script, phases=None):
        self.script = script
        self.phases = phases
        self.calls = []

    def set_frame(self, i):
        if self.phases:
            self.script = self.phases[min(i, len(self.phases) - 1)]

    def get(self, url, timeout=None):
        self.calls.append(url)
        for base, sc in self.script.items():
            if url.startswith(base + 'users/'):
                which = 'groups' if url.endswith('/groups') else 'user'
                if 'users' in sc:                 # a service that knows its users by name, byte for byte
                    asked = url[len(base + 'users/'):]
                    asked = asked[:-len('/groups')] if which == 'groups' else asked
                    if asked not in sc['users']:
                        return _Resp(404, {})
                    return _Resp(200, {'groups': sc['users'][asked]} if which == 'groups' else {})
                o = sc[which]
                if o[0] == 'unreachable':
                    raise ConnectionError('unreachable ' + url)
                return _Resp(o[1], o[2] if len(o) > 2 else {})
        raise ConnectionError('no such host ' + url)


# ---------------------------------------------------------------------------------------------- engine proxy
def snapshot(proxy):
    """Canonical raw store dump, with a fast path: SQLite (rollback-journal mode) writes the main file at every commit
    and only then, so identical file bytes mean an identical committed store and the previous dump can be reused; when
    the bytes differ the store is dumped in full again (differing bytes alone are NOT taken as a changed store)."""
    paths = [proxy.eng.path + sfx for sfx in ('', '-wal')]
    h = hashlib.md5()
    for p in paths:
        try:
            with open(p, 'rb') as f:
                h.update(f.read())
        except OSError:
            h.update(b'<absent>')
    key = h.digest()
    cache = getattr(proxy, '_snap', None)
    if cache is not None and cache[0] == key:
        return cache[1]
    d = proxy.eng.dump()
    proxy._snap = (key, d)
    return d


def dump_digest(dump):
    return hashlib.sha1(json.dumps(dump, sort_keys=True, default=str).encode()).hexdigest()[:15]


class EngineProxy:
    """Stands where KmipSession expects its engine; forwards to the real one and records."""

    def __init__(self, eng):
        self.eng = eng                      # kdrv.Engine
        self.calls = []                     # one entry per process_request
        self.errors_built = []
        self.faults = []                    # injected engine behaviours, consumed one per process_request

    @property
    def default_protocol_version(self):
        return self.eng.engine.default_protocol_version

    def build_error_response(self, version, reason, message):
        self.errors_built.append(((version.major, version.minor), reason.name, message))
        return self.eng.engine.build_error_response(version, reason, message)

    def process_request(self, request, credential=None):
        rec = {'credential': credential}
        self.calls.append(rec)
        fault = self.faults.pop(0) if self.faults else None
        try:
            if fault is not None and fault[0] == 'crash':
                raise RuntimeError('injected engine failure')
            if fault is not None and fault[0] == 'kmiperr':
                raise kexc.KmipError(reason=fault[1], message=fault[2])
            res = self.eng.engine.process_request(request, credential)
            if fault is not None and fault[0] == 'max':
                res = (res[0], fault[1], res[2])
            if fault is not None and fault[0] == 'unencodable':
                res[0].batch_items[0].result_status = None          # ResponseBatchItem.write raises AttributeError
        except kexc.KmipError as e:
            rec.update(kind='kmiperr', reason=e.reason, message=str(e))
            raise
        except Exception as e:
            rec.update(kind='crash', exc=type(e).__name__)
            raise
        response, max_size, version = res
        rec.update(kind='resp', max_size=max_size, version=(version.major, version.minor))
        try:
            s = kutils.BytearrayStream()
            copy.deepcopy(response).write(s, kmip_version=contents.protocol_version_to_kmip_version(version))
            rec['bytes'] = bytes(s.buffer)
        except Exception as e:            # the session's own write will fail the same way
            rec['bytes'] = None
            rec['encode_exc'] = type(e).__name__
        return res


# ---------------------------------------------------------------------------------------------- one connection
def real_parse(frame):
    """The real parser's verdict on one frame, asked outside the session: (major, minor) or None."""
    rq = messages.RequestMessage()
    try:
        rq.read(kutils.BytearrayStream(frame), kmip_version=enums.KMIPVersion.KMIP_1_2)
    except Exception:
        return None
    v = rq.request_header.protocol_version
    return (v.major, v.minor)


def run_connection(proxy, conn, tls_client_auth=True, auth_settings=None, slugs=None, dumps=True, max_frames=10000,
                   session_factory=None):
    """Drive one connection to its end.  Returns {'frames': [...], 'end': 'closed' | 'frame-limit', 'stray_sent': n}.
    session_factory(proxy, conn, address) -> KmipSession, when given, supplies the session (e.g. the one a real KmipServer
    creates in _setup_connection_handler) instead of the one built here from tls_client_auth / auth_settings."""
    engine_mod.time = proxy.eng.clock
    if session_factory is not None:
        s = session_factory(proxy, conn, ('192.0.2.7', 5696))
    else:
        s = session_mod.KmipSession(proxy, conn, ('192.0.2.7', 5696), name='verif',
                                    enable_tls_client_auth=tls_client_auth, auth_settings=auth_settings)
    s._logger.setLevel(logging.CRITICAL + 1)
    frames = []
    cur = {}
    orig_receive = s._receive_request

    def receive():
        cur.clear()
        if slugs is not None:
            slugs.set_frame(len(frames))
        cur['recv0'] = len(conn.recv_sizes)
        data = orig_receive()
        cur['frame'] = bytes(data.buffer)
        cur['recv1'] = len(conn.recv_sizes)
        return data
    s._receive_request = receive

    old_get = slugs_mod.requests.get
    slugs_mod.requests.get = (slugs or SlugsStub({})).get
    end = 'frame-limit'
    try:
        for _ in range(max_frames):
            sent0, calls0 = len(conn.sent), len(proxy.calls)
            before = snapshot(proxy) if dumps else None
            escaped = None
            try:
                s._handle_message_loop()
            except kexc.ConnectionClosed:
                # bytes received for an incomplete frame are dropped; anything sent or executed now is a stray
                return {'frames': frames, 'end': 'closed', 'stray_sent': len(conn.sent) - sent0,
                        'tail_calls': len(proxy.calls) - calls0}
            except Exception as e:          # KmipSession.run logs this and goes on with the next message
                escaped = type(e).__name__
            if 'frame' not in cur:          # the exception came out of _receive_request itself
                frames.append({'frame': None, 'sent': conn.sent[sent0:], 'recv_sizes': conn.recv_sizes[cur.get('recv0', 0):],
                               'escaped': escaped, 'engine': None, 'dump_before': before, 'dump_after': before, 'ncalls': 0})
                continue
            after = snapshot(proxy) if dumps else None
            calls = proxy.calls[calls0:]
            frames.append({'frame': cur['frame'], 'sent': conn.sent[sent0:],
                           'recv_sizes': conn.recv_sizes[cur['recv0']:cur['recv1']], 'escaped': escaped,
                           'engine': calls[0] if calls else None, 'ncalls': len(calls),
                           'dump_before': before, 'dump_after': after})
        return {'frames': frames, 'end': end, 'stray_sent': 0, 'tail_calls': 0}
    finally:
        slugs_mod.requests.get = old_get


def encode_request(req, version=(1, 2)):
    s = kutils.BytearrayStream()
    req.write(s, kmip_version=contents.protocol_version_to_kmip_version(contents.ProtocolVersion(*version)))
    return bytes(s.buffer)


# ---------------------------------------------------------------------------------------------- specs -> runs -> Coq cases
GOOD_CERT = (('alice',), 'client')


def default_spec(stream, sizes=None, cert=GOOD_CERT, tls=True, plugins=(), ts=1600000000):
    """A connection script.  cert: None | (tuple of CNs, eku kind[, subject layout - see make_cert]); plugins: list of dicts
    {'name', 'enabled' (str|None), 'url' (str|None|int), 'user': ('unreachable',)|('status', c),
     'groups': ('unreachable',)|('status', c, body)}, body = {'groups': [...]} | {} | 'badjson'."""
    return {'stream': bytes(stream), 'sizes': list(sizes) if sizes is not None else ([len(stream)] if stream else []),
            'cert': cert, 'tls': tls, 'plugins': list(plugins), 'ts': ts}


def run_spec(proxy, spec, dumps=True, settings_from=None, tls_from=None, session_factory=None):
    """Run one scripted connection against the real session; returns (obs, conn)."""
    cert = make_cert(list(spec['cert'][0]), spec['cert'][1], spec['cert'][2] if len(spec['cert']) > 2 else None) if spec['cert'] is not None else None
    conn = FakeConn(spec['stream'], spec['sizes'], cert, hold=spec.get('hold'))
    settings = []
    nph = max([len(p['phases']) for p in spec['plugins'] if p.get('phases')] or [0])
    scripts = [{} for _ in range(max(nph, 1))]
    for p in spec['plugins']:
        conf = {}
        if p.get('enabled') is not None:
            conf['enabled'] = p['enabled']
        if p.get('url') is not None:
            conf['url'] = p['url']
        settings.append((p['name'], conf))
        if isinstance(p.get('url'), str):
            base = p['url'] if p['url'].endswith('/') else p['url'] + '/'
            for i, sc in enumerate(scripts):
                u, g = (p['phases'][min(i, len(p['phases']) - 1)] if p.get('phases') else (p['user'], p['groups']))
                sc[base] = {'user': u, 'groups': g}
                if p.get('users') is not None:
                    sc[base]['users'] = p['users']
    script = scripts[0]
    if settings_from is not None:          # e.g. the list KmipServerConfig produced from a configuration file
        settings = settings_from(settings)
    proxy.eng.clock.t = spec['ts']
    stub = SlugsStub(script, phases=scripts if nph else None)
    # spec['tls'] is what the configuration MEANS; tls_from (if given) yields what the loaded server settings hand over
    tls = spec['tls'] if tls_from is None else tls_from()
    obs = run_connection(proxy, conn, tls_client_auth=tls, auth_settings=settings, slugs=stub, dumps=dumps,
                         session_factory=session_factory)
    obs['recv_sizes'] = list(conn.recv_sizes)
    obs['slugs_calls'] = list(stub.calls)
    obs['parse'] = [real_parse(f['frame']) if f['frame'] is not None else None for f in obs['frames']]
    return obs, conn


def _cq():
    from vlib import coqprint
    return coqprint


def coq_hex(b):
    """bytes -> `packed` literal of Session/Hex.v: 7 bytes per primitive integer under a sentinel bit."""
    b = bytes(b)
    return '[' + ';'.join(str(int.from_bytes(b[i:i + 7], 'big') + (1 << (8 * len(b[i:i + 7])))) for i in range(0, len(b), 7)) + ']%uint63'


def coq_cert(cert):
    cq = _cq()
    if cert is None:
        return 'None'
    cns, eku = cert[0], cert[1]
    k = {'absent': 'EkuAbsent', 'noclient': 'EkuNoClient', 'client': 'EkuClient'}[eku_kind(eku)]
    return '(Some {| c_cns := %s; c_eku := %s |})' % (cq.lst(cns, cq.string), k)


def coq_groups(g):
    cq = _cq()
    return cq.option(g, lambda xs: cq.lst(xs, cq.string))


def coq_plugin(p):
    cq = _cq()
    url = 'UrlAbsent' if p.get('url') is None else ('UrlString' if isinstance(p['url'], str) else 'UrlNotString')
    u = p.get('user', ('unreachable',))
    g = p.get('groups', ('unreachable',))
    user = 'UUnreachable' if u[0] == 'unreachable' else '(UStatus %s)' % cq.z(u[1])
    if g[0] == 'unreachable':
        grp = 'GUnreachable'
    else:
        body = g[2] if len(g) > 2 else {}
        b = 'GBadJson' if body == 'badjson' else '(GJson %s)' % coq_groups(body.get('groups'))
        grp = '(GStatus %s %s)' % (cq.z(g[1]), b)
    return '{| p_name := %s; p_enabled_text := %s; p_url := %s; p_user := %s; p_groups := %s |}' % (
        cq.string(p['name']), cq.option(p.get('enabled'), cq.string), url, user, grp)


def coq_identity(cred):
    cq = _cq()
    if cred is None:
        return 'None'
    user, groups = cred
    if not isinstance(user, str) or not (groups is None or (isinstance(groups, list) and all(isinstance(g, str) for g in groups))):
        raise ValueError('credential %r is not (user text, group list)' % (cred,))
    return '(Some (%s, %s))' % (cq.string(user), coq_groups(groups))


def coq_engine_result(rec):
    cq = _cq()
    if rec['kind'] == 'resp':
        enc = 'None' if rec['bytes'] is None else '(Some %s)' % coq_hex(rec['bytes'])
        return '(KResp %s %s (%s, %s))' % (enc, cq.option(rec['max_size'], cq.z), cq.z(rec['version'][0]), cq.z(rec['version'][1]))
    if rec['kind'] == 'kmiperr':
        return '(KKmipErr %s %s)' % (cq.z(rec['reason'].value), cq.byts(rec['message'].encode('utf-8', 'surrogatepass')))
    return 'KCrash'


def coq_case(spec, obs, proxy_calls):
    """The kcase term for Session/SessionCases.v; raises ValueError when something cannot be printed
    (then the caller must treat the case as a disagreement, not skip it)."""
    cq = _cq()
    pos, chunks = 0, []
    for n in spec['sizes']:
        chunks.append(coq_hex(spec['stream'][pos:pos + n]))
        pos += n
    frames = [f for f in obs['frames']]
    if any(f['frame'] is None for f in frames):
        raise ValueError('an exception left _receive_request')
    cfg = '{| tls_client_auth := %s; plugins := %s; peer := %s; now := %s |}' % (
        cq.boolean(spec['tls']), cq.lst(spec['plugins'], coq_plugin), coq_cert(spec['cert']), cq.z(spec['ts']))
    steps = []
    for f in frames:
        steps.append('{| o_sent := %s; o_call := %s; o_ncalls := %s; o_escaped := %s; o_store_changed := %s |}' % (
            cq.lst(f['sent'], coq_hex), coq_identity(f['engine']['credential'] if f['engine'] else None),
            cq.z(f['ncalls']), cq.boolean(f['escaped'] is not None), cq.boolean(f['dump_before'] != f['dump_after'])))
    parse = cq.lst(obs['parse'], lambda v: cq.option(v, lambda x: '(%s, %s)' % (cq.z(x[0]), cq.z(x[1]))))
    return ('{| k_chunks := %s; k_cfg := %s; k_parse := %s; k_engine := %s; k_frames := %s; k_asked := %s; '
            'k_closed := %s; k_steps := %s |}') % (
        cq.lst(chunks, str), cfg, parse, cq.lst(proxy_calls, coq_engine_result),
        cq.lst([f['frame'] for f in frames], coq_hex), cq.lst(obs['recv_sizes'], cq.z),
        cq.boolean(obs['end'] == 'closed' and obs['stray_sent'] == 0 and obs['tail_calls'] == 0), cq.lst(steps, str))


CASE_HEADER = ('From Coq Require Import String List ZArith Uint63.\nFrom PK Require Import Session.SessionCases.\n'
               'Import ListNotations.\nOpen Scope Z_scope.\nOpen Scope string_scope.\n')


# ---------------------------------------------------------------------------------------------- independent TTLV reader
# Written from the KMIP specification (section 9.1 of KMIP 1.x): Tag 3 bytes (0x42xxxx standard, 0x54xxxx extension),
# Type 1 byte, Length 4 bytes, Value padded to a multiple of 8.  No PyKMIP import is used below this line.
T_STRUCT, T_INT, T_LONG, T_BIG, T_ENUM, T_BOOL, T_TEXT, T_BYTES, T_DATE, T_INTERVAL, T_DATE_EXT = range(1, 12)
TAG_RESPONSE_MESSAGE, TAG_RESPONSE_HEADER, TAG_PROTOCOL_VERSION = 0x42007B, 0x42007A, 0x420069
TAG_MAJOR, TAG_MINOR, TAG_TIME_STAMP, TAG_BATCH_COUNT, TAG_BATCH_ITEM = 0x42006A, 0x42006B, 0x420092, 0x42000D, 0x42000F
TAG_OPERATION, TAG_UBID, TAG_RESULT_STATUS, TAG_RESULT_REASON, TAG_RESULT_MESSAGE = 0x42005C, 0x420093, 0x42007F, 0x42007E, 0x42007D
TAG_SERVER_HASHED_PASSWORD = 0x420155
REASON_INVALID_MESSAGE, REASON_AUTH_NOT_SUCCESSFUL, REASON_RESPONSE_TOO_LARGE, REASON_GENERAL_FAILURE = 0x04, 0x03, 0x02, 0x100
FIXED_LEN = {T_INT: 4, T_LONG: 8, T_ENUM: 4, T_BOOL: 8, T_DATE: 8, T_INTERVAL: 4, T_DATE_EXT: 8}


class TTLVError(Exception):
    pass


def ttlv_items(buf, depth=0):
    """Parse a byte string consisting of zero or more complete TTLV items -> [(tag, type, value)];
    structures have a list of items as value.  Raises TTLVError on anything the specification forbids."""
    out, pos = [], 0
    if depth > 64:
        raise TTLVError('nesting too deep')
    while pos < len(buf):
        if len(buf) - pos < 8:
            raise TTLVError('truncated item header at %d' % pos)
        tag = int.from_bytes(buf[pos:pos + 3], 'big')
        typ = buf[pos + 3]
        ln = struct.unpack('>I', buf[pos + 4:pos + 8])[0]
        if buf[pos] not in (0x42, 0x54):
            raise TTLVError('tag %06x is neither standard nor extension' % tag)
        if not (1 <= typ <= 11):
            raise TTLVError('unknown item type %d' % typ)
        if typ in FIXED_LEN and ln != FIXED_LEN[typ]:
            raise TTLVError('type %d with length %d' % (typ, ln))
        if typ == T_BIG and (ln % 8 or ln == 0):
            raise TTLVError('big integer length %d' % ln)
        padded = ln + (-ln) % 8
        if pos + 8 + padded > len(buf):
            raise TTLVError('item at %d overruns its container' % pos)
        body, pad = buf[pos + 8:pos + 8 + ln], buf[pos + 8 + ln:pos + 8 + padded]
        if any(pad):
            raise TTLVError('non-zero padding')
        if typ == T_STRUCT:
            val = ttlv_items(body, depth + 1)
        elif typ in (T_INT,):
            val = int.from_bytes(body, 'big', signed=True)
        elif typ in (T_LONG, T_BIG, T_DATE, T_DATE_EXT):
            val = int.from_bytes(body, 'big', signed=True)
        elif typ in (T_ENUM, T_INTERVAL):
            val = int.from_bytes(body, 'big')
        elif typ == T_BOOL:
            val = int.from_bytes(body, 'big')
            if val not in (0, 1):
                raise TTLVError('boolean %d' % val)
            val = bool(val)
        elif typ == T_TEXT:
            try:
                val = body.decode('utf-8')
            except UnicodeDecodeError:
                raise TTLVError('text string is not UTF-8')
        else:
            val = bytes(body)
        out.append((tag, typ, val))
        pos += 8 + padded
    return out


def check_response_envelope(data):
    """Check one sent byte string against the response envelope of the specification (KMIP 1.x section 6/7.2:
    ResponseMessage = ResponseHeader{ProtocolVersion{Major,Minor}, TimeStamp, [2.0: ServerHashedPassword], BatchCount}
    followed by BatchCount BatchItems{[Operation], [UniqueBatchItemID], ResultStatus, [ResultReason], [ResultMessage], ...};
    a failed item carries a ResultReason).  Returns a summary dict; raises TTLVError."""
    items = ttlv_items(bytes(data))
    if len(items) != 1:
        raise TTLVError('%d top-level items' % len(items))
    tag, typ, body = items[0]
    if tag != TAG_RESPONSE_MESSAGE or typ != T_STRUCT:
        raise TTLVError('top-level item is not a ResponseMessage structure')
    if not body or body[0][0] != TAG_RESPONSE_HEADER or body[0][1] != T_STRUCT:
        raise TTLVError('ResponseHeader missing')
    hdr = body[0][2]
    want = [(TAG_PROTOCOL_VERSION, T_STRUCT), (TAG_TIME_STAMP, T_DATE)]
    if len(hdr) < 3 or [(t, y) for t, y, _ in hdr[:2]] != want:
        raise TTLVError('ResponseHeader fields out of order')
    pv = hdr[0][2]
    if [(t, y) for t, y, _ in pv] != [(TAG_MAJOR, T_INT), (TAG_MINOR, T_INT)]:
        raise TTLVError('ProtocolVersion malformed')
    rest = hdr[2:]
    if rest and rest[0][0] == TAG_SERVER_HASHED_PASSWORD:
        rest = rest[1:]
    if len(rest) != 1 or rest[0][0] != TAG_BATCH_COUNT or rest[0][1] != T_INT:
        raise TTLVError('BatchCount missing or followed by other fields')
    count = rest[0][2]
    batch = body[1:]
    if len(batch) != count:
        raise TTLVError('BatchCount %d but %d batch items' % (count, len(batch)))
    out = []
    for t, y, fields in batch:
        if t != TAG_BATCH_ITEM or y != T_STRUCT:
            raise TTLVError('non batch item %06x in the message body' % t)
        tags = [f[0] for f in fields]
        order = [TAG_OPERATION, TAG_UBID, TAG_RESULT_STATUS, TAG_RESULT_REASON, TAG_RESULT_MESSAGE]
        known = [x for x in tags if x in order]
        if known != sorted(set(known), key=order.index):
            raise TTLVError('batch item fields out of order or repeated')
        d = {f[0]: f[2] for f in fields}
        if TAG_RESULT_STATUS not in d:
            raise TTLVError('ResultStatus missing')
        if d[TAG_RESULT_STATUS] == 1 and TAG_RESULT_REASON not in d:
            raise TTLVError('failed item without ResultReason')
        out.append({'status': d[TAG_RESULT_STATUS], 'reason': d.get(TAG_RESULT_REASON), 'message': d.get(TAG_RESULT_MESSAGE),
                    'operation': d.get(TAG_OPERATION)})
    return {'version': (pv[0][2], pv[1][2]), 'time_stamp': hdr[1][2], 'items': out}
