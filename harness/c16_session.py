"""C16 - whole requests through the real KmipSession: bytes in, bytes out, with a real engine behind it.

The request is encoded by the real message classes (for a version the codec does not know, with the 1.0 layout and
the foreign version in the header), handed to KmipSession._handle_message_loop over a fake connection that carries a
generated client certificate, and the answer is decoded again.  Observed: the version in the response header, the
result reason of an error answer, the class (entered / refused by version / unknown operation) of every batch item.
"""
import datetime
import re

import kdrv
from kmip.core import enums, utils
from kmip.core.messages import messages, contents
from kmip.services.server import session as session_mod
from vlib import coqprint as cp

OP = enums.Operation
R = enums.ResultReason


def make_cert():
    from cryptography import x509
    from cryptography.x509.oid import NameOID, ExtendedKeyUsageOID
    from cryptography.hazmat.primitives import hashes, serialization
    from cryptography.hazmat.primitives.asymmetric import rsa
    key = rsa.generate_private_key(public_exponent=65537, key_size=1024)
    name = x509.Name([x509.NameAttribute(NameOID.COMMON_NAME, u'alice')])
    now = datetime.datetime(2020, 1, 1)
    cert = (x509.CertificateBuilder().subject_name(name).issuer_name(name).public_key(key.public_key())
            .serial_number(1000).not_valid_before(now).not_valid_after(now + datetime.timedelta(days=36500))
            .add_extension(x509.ExtendedKeyUsage([ExtendedKeyUsageOID.CLIENT_AUTH]), critical=False)
            .sign(key, hashes.SHA256()))
    return cert.public_bytes(serialization.Encoding.DER)


class FakeConn:
    def __init__(self, der, data):
        self.der = der
        self.inp = data
        self.out = b''

    def recv(self, n):
        chunk, self.inp = self.inp[:n], self.inp[n:]
        return chunk

    def sendall(self, data):
        self.out += bytes(data)

    def getpeercert(self, binary_form=False):
        return self.der

    def cipher(self):
        return ('ECDHE-RSA-AES256-GCM-SHA384', 'TLSv1.2', 256)

    def shared_ciphers(self):
        return None


def kmip_version_of(v):
    return contents.protocol_version_to_kmip_version(contents.ProtocolVersion(*v))


def gclass(bi):
    if bi.result_reason is not None and bi.result_reason.value == R.OPERATION_NOT_SUPPORTED:
        msg = bi.result_message.value if bi.result_message is not None else ''
        if re.match(r'^\w+ is not supported by KMIP ', msg):
            return 'GVersion'
        if msg.endswith(' operation is not supported by the server.'):
            return 'GUnknown'
    return 'GRun'


def exchange(eng, der, v, items, **kw):
    """-> (header version, [batch items]) decoded from what the session sent."""
    req = eng.build(items, version=v, **kw)
    kv = kmip_version_of(v) or enums.KMIPVersion.KMIP_1_0
    s = utils.BytearrayStream()
    req.write(s, kmip_version=kv)
    conn = FakeConn(der, bytes(s.buffer))
    import kmip.services.server.engine as engine_mod
    engine_mod.time = eng.clock
    sess = session_mod.KmipSession(eng.engine, conn, ('127.0.0.1', 5696), name='c16', enable_tls_client_auth=True, auth_settings=[])
    sess._logger.disabled = True
    sess._handle_message_loop()
    resp = messages.ResponseMessage()
    # decode with the version the answer announces (the library's own reader switches to the header's version)
    resp.read(utils.BytearrayStream(conn.out), kmip_version=enums.KMIPVersion.KMIP_1_0)
    hv = resp.response_header.protocol_version
    return (hv.major, hv.minor), resp.batch_items, conn.out


def cver(v):
    return '(%s, %s)' % (cp.z(v[0]), cp.z(v[1]))


def session_cases(ctx, cases, meta):
    import c16
    der = make_cert()
    quick = ctx.tier == 'quick'
    rng = ctx.subrng('session')
    versions = c16.SUPPORTED + [v for v in c16.UNSUPPORTED if v[0] >= 0 and v[1] >= 0 and v[1] < 2 ** 31]
    sc = c16.Scene(ctx)
    eng = sc.eng
    spy = c16.Spy(eng.engine, ['process_request', '_process_batch', '_process_operation'])
    wire_ops = [OP.QUERY, OP.DISCOVER_VERSIONS, OP.GET, OP.GET_ATTRIBUTE_LIST, OP.LOCATE, OP.ENCRYPT, OP.ACTIVATE]
    try:
        for v in versions:
            known = kmip_version_of(v) is not None
            sets = [[o] for o in wire_ops] + [[OP.QUERY, OP.ENCRYPT, OP.GET], [OP.DISCOVER_VERSIONS, OP.QUERY]]
            if not quick:
                sets += [[rng.choice(wire_ops) for _ in range(rng.randrange(2, 5))] for _ in range(10)]
            for ops in sets:
                for extra, reject in (({}, None), ({'time_stamp': eng.clock.t + 1000}, 4)):
                    if reject and ops != [OP.QUERY]:
                        continue
                    items = []
                    for o in ops:
                        p = sc.payload(o, v if known else (1, 0))
                        items.append(p)
                    before = eng.dump()
                    del spy.calls[:]
                    try:
                        hv, bis, raw = exchange(eng, der, v, items, batch_option=enums.BatchErrorContinuationOption.CONTINUE, **extra)
                    except Exception as e:     # noqa - an answer the library cannot decode is a finding of its own kind
                        ctx.disagreement('c16', {'session exchange failed': repr(e)[:300], 'version': v, 'ops': [o.name for o in ops]})
                        continue
                    after = eng.dump()
                    entered = list(spy.calls)
                    whole_error = len(bis) == 1 and bis[0].operation is None
                    if whole_error:
                        err = bis[0].result_reason.value.value
                        classes, flags = [], [False] * len(ops)
                    else:
                        err = None
                        classes = [gclass(b) for b in bis]
                        flags = [b.result_status.value == enums.ResultStatus.SUCCESS for b in bis] + [False] * (len(ops) - len(bis))
                    cases.append('CSession %s %s %s false %s %s %s %s' % (
                        cver(v), cp.boolean(known), cp.option(reject, cp.z),
                        cp.lst(list(zip(ops, flags)), lambda p: '(%s, %s)' % (cp.z(p[0].value), cp.boolean(p[1]))),
                        cver(hv), cp.option(err, cp.z), cp.lst(classes, str)))
                    meta.append(('session', v, [o.name for o in ops], sorted(extra)))
                    ctx.case_seen(('session', v, tuple(o.name for o in ops), tuple(sorted(extra))))
                    ctx.count('session.%s' % ('supported' if v in c16.SUPPORTED else 'unsupported'))
                    # direct oracle on the wire
                    if v in c16.SUPPORTED:
                        if hv != v:
                            ctx.violation({'class': 'echo-wire', 'version': c16.vstr(v)},
                                          {'version': v, 'operations': [o.name for o in ops], 'answer_version': hv, 'answer_hex': raw.hex()[:300]},
                                          'the session answered a KMIP %s request in KMIP %s' % (c16.vstr(v), c16.vstr(hv)))
                        for o, b in zip(ops, bis if not whole_error else []):
                            if c16.SPEC_OP_MIN[o] > v and (b.result_reason is None or b.result_reason.value != R.OPERATION_NOT_SUPPORTED):
                                ctx.violation({'class': 'op-gate', 'op': o.name, 'version': c16.vstr(v)}, {'version': v, 'operation': o.name, 'via': 'session'},
                                              '%s accepted under KMIP %s through the session' % (o.name, c16.vstr(v)))
                    else:
                        touched = [c for c in entered if c != 'process_request']
                        if err != R.INVALID_MESSAGE.value or before != after or touched:
                            ctx.violation({'class': 'unsupported-version', 'version': c16.vstr(v)},
                                          {'version': v, 'operations': [o.name for o in ops], 'via': 'session', 'error_reason': err,
                                           'store_changed': before != after, 'engine_methods_entered': entered},
                                          'request in unsupported KMIP %s was not refused with InvalidMessage by the session' % c16.vstr(v))
    finally:
        sc.close()


# ====================================================================================== several versions on ONE connection
# tag -> specification version that introduced the field (by tag, anywhere in a message)
def _later_tags():
    import c16_fields
    T = enums.Tags
    out = {T[n].value: (n, v) for n, v in c16_fields.SPEC_FIELD_MIN.items()
           if n not in ('ATTESTATION_TYPE', 'EXTENSION_INFORMATION')}      # also legitimate inside other 1.0 structures? no: keep strict ones only
    out[T.ATTESTATION_TYPE.value] = ('ATTESTATION_TYPE', (1, 2))
    out[T.EXTENSION_INFORMATION.value] = ('EXTENSION_INFORMATION', (1, 1))
    out[T.SENSITIVE.value] = ('SENSITIVE', (1, 4))
    out[T.FRESH.value] = ('FRESH', (1, 1))
    return out


# tags the 2.0 specification no longer has in any message
REMOVED_20 = ('TEMPLATE_ATTRIBUTE', 'COMMON_TEMPLATE_ATTRIBUTE', 'PRIVATE_KEY_TEMPLATE_ATTRIBUTE', 'PUBLIC_KEY_TEMPLATE_ATTRIBUTE',
              'TEMPLATE', 'OPERATION_POLICY_NAME', 'CERTIFICATE_IDENTIFIER', 'CERTIFICATE_SUBJECT', 'CERTIFICATE_ISSUER')
# direct children of a response payload that belong to one layout only: operation value -> (1.x only, 2.0 only)
PAYLOAD_LAYOUT = {OP.GET_ATTRIBUTES.value: ('ATTRIBUTE', 'ATTRIBUTES'), OP.GET_ATTRIBUTE_LIST.value: ('ATTRIBUTE_NAME', 'ATTRIBUTE_REFERENCE')}


def walk(item):
    yield item
    if item['type'] == 1:
        for c in item['value']:
            for x in walk(c):
                yield x


def answer_problems(sent, v):
    """Direct oracle for one answer: is it in the version of its request?  -> (problems, layout flags per operation)."""
    import ttlvparse
    T = enums.Tags
    probs, summ = ttlvparse.envelope_problems(sent, v)
    probs = [p for p in probs if 'version' in p or 'malformed' in p or 'ResponseMessage' in p or 'header' in p]
    layouts = []
    try:
        msg, _ = ttlvparse.parse(bytes(sent))
    except ttlvparse.Malformed:
        return probs or ['malformed TTLV'], layouts
    later = _later_tags()
    for it in walk(msg):
        if it['tag'] in later and later[it['tag']][1] > v:
            probs.append('contains %s (tag %#x), introduced in KMIP %d.%d' % (later[it['tag']][0], it['tag'], later[it['tag']][1][0], later[it['tag']][1][1]))
        if v >= (2, 0):
            for n in REMOVED_20:
                if it['tag'] == T[n].value:
                    probs.append('contains %s (tag %#x), which KMIP 2.0 no longer has' % (n, it['tag']))
    for bi in ttlvparse.children(msg, ttlvparse.T_BATCH_ITEM):
        ops = ttlvparse.children(bi, ttlvparse.T_OPERATION)
        pls = ttlvparse.children(bi, ttlvparse.T_RESPONSE_PAYLOAD)
        if not ops or not pls or ops[0]['value'] not in PAYLOAD_LAYOUT:
            continue
        old, new = PAYLOAD_LAYOUT[ops[0]['value']]
        tags = [c['tag'] for c in pls[0]['value']]
        has_old, has_new = T[old].value in tags, T[new].value in tags
        if has_old or has_new:
            layouts.append((ops[0]['value'], has_new))
        if v >= (2, 0) and has_old:
            probs.append('%s response payload carries the KMIP 1.x item %s (tag %#x)' % (OP(ops[0]['value']).name, old, T[old].value))
        if v < (2, 0) and has_new:
            probs.append('%s response payload carries the KMIP 2.0 item %s (tag %#x)' % (OP(ops[0]['value']).name, new, T[new].value))
    # the real decoder, the way a client speaking v uses it
    try:
        resp = messages.ResponseMessage()
        resp.read(utils.BytearrayStream(bytes(sent)), kmip_version=kmip_version_of(v))
        for b in resp.batch_items:
            if b.result_status.value == enums.ResultStatus.SUCCESS and b.operation.value == OP.GET_ATTRIBUTES \
                    and not b.response_payload.attributes:
                probs.append('GET_ATTRIBUTES answer decodes under KMIP %d.%d without any attribute' % v)
    except Exception as e:      # noqa
        probs.append('does not decode under KMIP %d.%d with the library\'s own reader: %s' % (v[0], v[1], type(e).__name__))
    return probs, layouts


def mixed_version_cases(ctx, cases, meta):
    """2-4 requests of DIFFERENT supported versions over ONE KmipSession; every answer must be in its request's version."""
    import itertools
    import c16
    import sessdrv
    quick = ctx.tier == 'quick'
    rng = ctx.subrng('mixed-versions')
    seqs = [list(p) for p in itertools.permutations(c16.SUPPORTED, 2)]
    seqs += [rng.sample(c16.SUPPORTED, rng.choice((3, 4))) for _ in range(12 if quick else 150)]
    seqs += [[(1, 2), (2, 0), (1, 2)], [(2, 0), (1, 0), (2, 0), (1, 4)], [(1, 0), (1, 1), (1, 2), (1, 3)]]
    sc = c16.Scene(ctx)
    eng = sc.eng
    proxy = sessdrv.EngineProxy(eng)
    flavours = [
        lambda v: [sc.payload(OP.GET_ATTRIBUTES, v)],
        lambda v: [sc.payload(OP.GET_ATTRIBUTE_LIST, v), sc.payload(OP.GET_ATTRIBUTES, v)],
        lambda v: [sc.payload(OP.DISCOVER_VERSIONS, v)] if v >= (1, 1) else [sc.payload(OP.QUERY, v)],
        lambda v: [sc.payload(OP.QUERY, v), sc.payload(OP.LOCATE, v), sc.payload(OP.GET, v), kdrv.get_attributes(sc.cert)],
        lambda v: [kdrv.create(names=()), kdrv.register(), kdrv.get_attributes(sc.priv, ['Cryptographic Algorithm', 'State', 'Sensitive'])],
    ]
    nbad = 0
    hvs = c16.header_variants(eng)
    try:
        for k, seq in enumerate(seqs):
            picks = []
            stream = b''
            for j, v in enumerate(seq):
                # the first request of a connection is a plain successful one half of the time (version negotiation style)
                f = flavours[(k + j) % len(flavours)] if (j or k % 2) else flavours[2]
                items = f(v)
                picks.append([i[0].name for i in items])
                hname, hkw = hvs[(k + 2 * j) % len(hvs)]
                hkw = dict(hkw)
                hkw['batch_option'] = enums.BatchErrorContinuationOption.CONTINUE
                picks[-1].append('header:' + hname)
                stream += sessdrv.encode_request(eng.build(items, version=v, **hkw), v)
            obs, conn = sessdrv.run_spec(proxy, sessdrv.default_spec(stream, ts=eng.clock.t), dumps=False)
            frames = obs['frames']
            if len(frames) != len(seq):
                ctx.violation({'class': 'answer-not-in-request-version', 'problem': 'answers != requests'},
                              {'versions_on_one_connection': seq, 'operations': picks, 'answers': len(frames)},
                              '%d requests on one connection got %d answers' % (len(seq), len(frames)))
            for j, (v, fr) in enumerate(zip(seq, frames)):
                sent = b''.join(fr['sent'])
                probs, layouts = answer_problems(sent, v) if sent else (['no answer was sent'], [])
                ctx.case_seen(('mixed', tuple(seq), j, tuple(picks[j])))
                ctx.count('mixed.%s' % ('first' if j == 0 else 'later'))
                for opv, two in layouts:
                    cls = 'GetAttributesResponsePayload' if opv == OP.GET_ATTRIBUTES.value else 'GetAttributeListResponsePayload'
                    tag = 'ATTRIBUTES' if opv == OP.GET_ATTRIBUTES.value else 'ATTRIBUTE_REFERENCE'
                    cases.append('CFieldRead %s %s %s %s' % (cp.string(cls), cver(v), cp.string(tag), cp.boolean(two)))
                    meta.append(('wire-layout', seq, j, cls))
                # Query answers on a connection/engine that has seen other versions: the list is the one of THIS version
                try:
                    rm = messages.ResponseMessage()
                    rm.read(utils.BytearrayStream(bytes(sent)), kmip_version=kmip_version_of(v))
                    for b in rm.batch_items:
                        if b.operation is not None and b.operation.value == OP.QUERY and b.result_status.value == enums.ResultStatus.SUCCESS:
                            qops = [o if isinstance(o, OP) else o.value for o in (b.response_payload.operations or [])]
                            cases.append('CQuery %s %s' % (cver(v), cp.lst(qops, lambda o: cp.z(o.value))))
                            meta.append(('wire-query', seq, j))
                            late = [o.name for o in qops if c16.SPEC_OP_MIN[o] > v]
                            if late:
                                ctx.violation({'class': 'query-advertises-later-op', 'op': late[0], 'version': c16.vstr(v)},
                                              {'versions_on_one_connection': seq, 'request_index': j, 'request_version': v,
                                               'advertised': [o.name for o in qops]},
                                              'Query under KMIP %s (request %d of a connection carrying %s) advertises %s, introduced later' % (
                                                  c16.vstr(v), j + 1, ', '.join(c16.vstr(x) for x in seq), late[0]))
                except Exception:        # noqa - undecodable answers are reported by answer_problems
                    pass
                if probs:
                    nbad += 1
                    ctx.violation({'class': 'answer-not-in-request-version', 'version': c16.vstr(v), 'position': 'first' if j == 0 else 'later'},
                                  {'versions_on_one_connection': seq, 'operations_per_request': picks, 'request_index': j,
                                   'request_version': v, 'problems': probs[:6], 'answer_hex': sent.hex()[:1200]},
                                  'request %d of a connection carrying KMIP %s requests (KMIP %s, %s) was not answered in KMIP %s: %s' % (
                                      j + 1, ', '.join(c16.vstr(x) for x in seq), c16.vstr(v), '+'.join(picks[j]), c16.vstr(v), probs[0]))
    finally:
        sc.close()
    ctx.cov['mixed_version_connections'] = {'connections': len(seqs), 'answers_with_problems': nbad}


# ====================================================================================== every answer path of the session
def answer_path_cases(ctx, cases, meta):
    """Per version (several versions interleaved on each connection): requests that end in each answer the session can
    give once the request is decoded - ordinary, too large (single / multi item), request-level refusals, engine
    failure, KmipError from the engine, unencodable response, failed client authentication.  Every answer must carry the
    version of ITS request; the whole record goes to the model (CSessionF)."""
    import c16
    import sessdrv
    quick = ctx.tier == 'quick'
    rng = ctx.subrng('answer-paths')
    BO = enums.BatchErrorContinuationOption
    sc = c16.Scene(ctx)
    eng = sc.eng
    proxy = sessdrv.EngineProxy(eng)
    ts = eng.clock.t

    def q(v):
        return sc.payload(OP.QUERY, v)

    # name, items(v), build kwargs, proxy fault, model fault, model header-level refusal
    scen = [
        ('ordinary', lambda v: [q(v)], {}, None, 'SfNone', None),
        ('too-large-single', lambda v: [q(v)], {'max_size': 16}, None, 'SfTooLarge', None),
        ('too-large-multi', lambda v: [q(v), sc.payload(OP.GET, v), sc.payload(OP.GET_ATTRIBUTES, v)], {'max_size': 64}, None, 'SfTooLarge', None),
        ('limit-that-fits', lambda v: [q(v)], {'max_size': 65536}, None, 'SfNone', None),
        ('stale-time-stamp', lambda v: [q(v)], {'time_stamp': ts - 1000}, None, 'SfNone', 4),
        ('future-time-stamp', lambda v: [q(v)], {'time_stamp': ts + 1000}, None, 'SfNone', 4),
        ('stale-and-small-limit', lambda v: [q(v)], {'time_stamp': ts - 1000, 'max_size': 16}, None, 'SfTooLarge', 4),
        ('asynchronous', lambda v: [q(v)], {'asynchronous': True}, None, 'SfNone', 4),
        ('undo', lambda v: [q(v), q(v)], {'batch_option': BO.UNDO}, None, 'SfNone', 4),
        ('batch-without-ids', lambda v: [q(v), q(v)], {'ids': False}, None, 'SfNone', 4),
        ('engine-crash', lambda v: [q(v)], {}, ('crash',), 'SfEngineCrash', None),
        ('engine-kmip-error', lambda v: [q(v)], {}, ('kmiperr', enums.ResultReason.INVALID_FIELD, 'injected'), 'SfNone', 7),
        ('unencodable-response', lambda v: [q(v)], {}, ('unencodable',), 'SfUnencodable', None),
        ('gated-operation', lambda v: [sc.payload(OP.ENCRYPT, v), sc.payload(OP.DISCOVER_VERSIONS, v), q(v)], {'batch_option': BO.CONTINUE}, None, 'SfNone', None),
    ]
    nbad = 0
    try:
        conns = []
        for off in range(len(c16.SUPPORTED)):
            # scenario j runs under version (off + j) mod 6: over the six connections every scenario meets every version;
            # the order on the wire is shuffled, so neighbouring requests of a connection differ in version
            pairs = [(sc_, c16.SUPPORTED[(off + j) % len(c16.SUPPORTED)]) for j, sc_ in enumerate(scen)]
            rng.shuffle(pairs)
            conns.append((sessdrv.GOOD_CERT, None, [p[0] for p in pairs], [p[1] for p in pairs]))
        # a client the session cannot authenticate (certificate without a common name): every request is decoded, none runs
        for off in (0, 3):
            order = scen[:3] + scen[4:5]
            vs = [c16.SUPPORTED[(off + i) % len(c16.SUPPORTED)] for i in range(len(order))]
            conns.append((((), 'client'), 'SfAuthFails', order, vs))
        if not quick:
            for v in c16.SUPPORTED:
                conns.append((sessdrv.GOOD_CERT, None, list(scen), [v] * len(scen)))
        for cert, force_fault, order, vs in conns:
            stream = b''
            del proxy.faults[:]
            for (name, items, kw, fault, mf, hr), v in zip(order, vs):
                stream += sessdrv.encode_request(eng.build(items(v), version=v, **kw), v)
                if force_fault is None:
                    proxy.faults.append(fault)
            obs, conn = sessdrv.run_spec(proxy, sessdrv.default_spec(stream, cert=cert, ts=ts), dumps=False)
            frames = obs['frames']
            if len(frames) != len(order):
                ctx.violation({'class': 'echo-wire', 'problem': 'answers != requests'},
                              {'scenarios': [x[0] for x in order], 'versions': vs, 'answers': len(frames)},
                              '%d requests on one connection got %d answers' % (len(order), len(frames)))
            for k, ((name, items, kw, fault, mf, hr), v, fr) in enumerate(zip(order, vs, frames)):
                sent = b''.join(fr['sent'])
                mf = force_fault or mf
                ctx.case_seen(('answer-path', name, v, mf))
                ctx.count('answer-path.%s' % (name if force_fault is None else 'unauthenticated.' + name))
                witness = {'connection': [(x[0], c16.vstr(y)) for x, y in zip(order, vs)], 'request_index': k, 'scenario': name,
                           'request_version': v, 'request_kwargs': repr(kw), 'injected_engine_fault': repr(fault),
                           'client_certificate': 'no common name' if force_fault else 'CN=alice', 'answer_hex': sent.hex()[:600]}
                try:
                    rm = messages.ResponseMessage()
                    rm.read(utils.BytearrayStream(bytes(sent)), kmip_version=enums.KMIPVersion.KMIP_1_0)
                    hv = (rm.response_header.protocol_version.major, rm.response_header.protocol_version.minor)
                    bis = rm.batch_items
                except Exception as e:      # noqa
                    nbad += 1
                    ctx.violation({'class': 'echo-wire', 'path': name, 'version': c16.vstr(v), 'problem': 'undecodable answer'}, witness,
                                  'the answer to a KMIP %s request (%s) cannot be decoded: %s' % (c16.vstr(v), name, type(e).__name__))
                    continue
                whole_error = len(bis) == 1 and bis[0].operation is None
                ops = [i[0] for i in items(v)]
                if whole_error:
                    err, classes, flags = bis[0].result_reason.value.value, [], [False] * len(ops)
                else:
                    err = None
                    classes = [gclass(b) for b in bis]
                    flags = [b.result_status.value == enums.ResultStatus.SUCCESS for b in bis] + [False] * (len(ops) - len(bis))
                stop = kw.get('batch_option') != BO.CONTINUE
                cases.append('CSessionF %s true %s %s %s %s %s %s %s' % (
                    cver(v), mf, cp.option(hr, cp.z), cp.boolean(stop),
                    cp.lst(list(zip(ops, flags)), lambda p: '(%s, %s)' % (cp.z(p[0].value), cp.boolean(p[1]))),
                    cver(hv), cp.option(err, cp.z), cp.lst(classes, str)))
                meta.append(('answer-path', name, v, mf, [(x[0], c16.vstr(y)) for x, y in zip(order, vs)]))
                if hv != v:
                    nbad += 1
                    witness['answer_version'] = hv
                    witness['answer_reason'] = enums.ResultReason(err).name if err is not None else None
                    ctx.violation({'class': 'echo-wire', 'path': name, 'version': c16.vstr(v)}, witness,
                                  'the session answered a KMIP %s request (%s%s) under a KMIP %s header' % (
                                      c16.vstr(v), name, ', ' + enums.ResultReason(err).name if err is not None else '', c16.vstr(hv)))
    finally:
        sc.close()
    ctx.cov['session_answer_paths'] = {'connections': len(conns), 'scenarios': [x[0] for x in scen] + ['unauthenticated client'],
                                       'answers_with_problems': nbad}
