"""C16 - whole requests through the real KmipSession (filled in below)."""


def session_cases(ctx, cases, meta):
    return
