"""C16 - whole requests through the real KmipSession: bytes in, bytes out, with a real engine behind it.

The request is encoded by the real message classes (for a version the codec does not know, with the 1.0 layout and
the foreign version in the header), handed to KmipSession._handle_message_loop over a fake connection that carries a
generated client certificate, and the answer is decoded again.  Observed: the version in the response header, the
result reason of an error answer, the class (entered / refused by version / unknown operation) of every batch item.
"""
import datetime
import re

import kdrv
from kmip.core import enums, utils
from kmip.core.messages import messages, contents
from kmip.services.server import session as session_mod
from vlib import coqprint as cp

OP = enums.Operation
R = enums.ResultReason


def make_cert():
    from cryptography import x509
    from cryptography.x509.oid import NameOID, ExtendedKeyUsageOID
    from cryptography.hazmat.primitives import hashes, serialization
    from cryptography.hazmat.primitives.asymmetric import rsa
    key = rsa.generate_private_key(public_exponent=65537, key_size=1024)
    name = x509.Name([x509.NameAttribute(NameOID.COMMON_NAME, u'alice')])
    now = datetime.datetime(2020, 1, 1)
    cert = (x509.CertificateBuilder().subject_name(name).issuer_name(name).public_key(key.public_key())
            .serial_number(1000).not_valid_before(now).not_valid_after(now + datetime.timedelta(days=36500))
            .add_extension(x509.ExtendedKeyUsage([ExtendedKeyUsageOID.CLIENT_AUTH]), critical=False)
            .sign(key, hashes.SHA256()))
    return cert.public_bytes(serialization.Encoding.DER)


class FakeConn:
    def __init__(self, der, data):
        self.der = der
        self.inp = data
        self.out = b''

    def recv(self, n):
        chunk, self.inp = self.inp[:n], self.inp[n:]
        return chunk

    def sendall(self, data):
        self.out += bytes(data)

    def getpeercert(self, binary_form=False):
        return self.der

    def cipher(self):
        return ('ECDHE-RSA-AES256-GCM-SHA384', 'TLSv1.2', 256)

    def shared_ciphers(self):
        return None


def kmip_version_of(v):
    return contents.protocol_version_to_kmip_version(contents.ProtocolVersion(*v))


def gclass(bi):
    if bi.result_reason is not None and bi.result_reason.value == R.OPERATION_NOT_SUPPORTED:
        msg = bi.result_message.value if bi.result_message is not None else ''
        if re.match(r'^\w+ is not supported by KMIP ', msg):
            return 'GVersion'
        if msg.endswith(' operation is not supported by the server.'):
            return 'GUnknown'
    return 'GRun'


def exchange(eng, der, v, items, **kw):
    """-> (header version, [batch items]) decoded from what the session sent."""
    req = eng.build(items, version=v, **kw)
    kv = kmip_version_of(v) or enums.KMIPVersion.KMIP_1_0
    s = utils.BytearrayStream()
    req.write(s, kmip_version=kv)
    conn = FakeConn(der, bytes(s.buffer))
    import kmip.services.server.engine as engine_mod
    engine_mod.time = eng.clock
    sess = session_mod.KmipSession(eng.engine, conn, ('127.0.0.1', 5696), name='c16', enable_tls_client_auth=True, auth_settings=[])
    sess._logger.disabled = True
    sess._handle_message_loop()
    resp = messages.ResponseMessage()
    # decode with the version the answer announces (the library's own reader switches to the header's version)
    resp.read(utils.BytearrayStream(conn.out), kmip_version=enums.KMIPVersion.KMIP_1_0)
    hv = resp.response_header.protocol_version
    return (hv.major, hv.minor), resp.batch_items, conn.out


def cver(v):
    return '(%s, %s)' % (cp.z(v[0]), cp.z(v[1]))


def session_cases(ctx, cases, meta):
    import c16
    der = make_cert()
    quick = ctx.tier == 'quick'
    rng = ctx.subrng('session')
    versions = c16.SUPPORTED + [v for v in c16.UNSUPPORTED if v[0] >= 0 and v[1] >= 0 and v[1] < 2 ** 31]
    sc = c16.Scene(ctx)
    eng = sc.eng
    spy = c16.Spy(eng.engine, ['process_request', '_process_batch', '_process_operation'])
    wire_ops = [OP.QUERY, OP.DISCOVER_VERSIONS, OP.GET, OP.GET_ATTRIBUTE_LIST, OP.LOCATE, OP.ENCRYPT, OP.ACTIVATE]
    try:
        for v in versions:
            known = kmip_version_of(v) is not None
            sets = [[o] for o in wire_ops] + [[OP.QUERY, OP.ENCRYPT, OP.GET], [OP.DISCOVER_VERSIONS, OP.QUERY]]
            if not quick:
                sets += [[rng.choice(wire_ops) for _ in range(rng.randrange(2, 5))] for _ in range(10)]
            for ops in sets:
                for extra, reject in (({}, None), ({'time_stamp': eng.clock.t + 1000}, 4)):
                    if reject and ops != [OP.QUERY]:
                        continue
                    items = []
                    for o in ops:
                        p = sc.payload(o, v if known else (1, 0))
                        items.append(p)
                    before = eng.dump()
                    del spy.calls[:]
                    try:
                        hv, bis, raw = exchange(eng, der, v, items, batch_option=enums.BatchErrorContinuationOption.CONTINUE, **extra)
                    except Exception as e:     # noqa - an answer the library cannot decode is a finding of its own kind
                        ctx.disagreement('c16', {'session exchange failed': repr(e)[:300], 'version': v, 'ops': [o.name for o in ops]})
                        continue
                    after = eng.dump()
                    entered = list(spy.calls)
                    whole_error = len(bis) == 1 and bis[0].operation is None
                    if whole_error:
                        err = bis[0].result_reason.value.value
                        classes, flags = [], [False] * len(ops)
                    else:
                        err = None
                        classes = [gclass(b) for b in bis]
                        flags = [b.result_status.value == enums.ResultStatus.SUCCESS for b in bis] + [False] * (len(ops) - len(bis))
                    cases.append('CSession %s %s %s false %s %s %s %s' % (
                        cver(v), cp.boolean(known), cp.option(reject, cp.z),
                        cp.lst(list(zip(ops, flags)), lambda p: '(%s, %s)' % (cp.z(p[0].value), cp.boolean(p[1]))),
                        cver(hv), cp.option(err, cp.z), cp.lst(classes, str)))
                    meta.append(('session', v, [o.name for o in ops], sorted(extra)))
                    ctx.case_seen(('session', v, tuple(o.name for o in ops), tuple(sorted(extra))))
                    ctx.count('session.%s' % ('supported' if v in c16.SUPPORTED else 'unsupported'))
                    # direct oracle on the wire
                    if v in c16.SUPPORTED:
                        if hv != v:
                            ctx.violation({'class': 'echo-wire', 'version': c16.vstr(v)},
                                          {'version': v, 'operations': [o.name for o in ops], 'answer_version': hv, 'answer_hex': raw.hex()[:300]},
                                          'the session answered a KMIP %s request in KMIP %s' % (c16.vstr(v), c16.vstr(hv)))
                        for o, b in zip(ops, bis if not whole_error else []):
                            if c16.SPEC_OP_MIN[o] > v and (b.result_reason is None or b.result_reason.value != R.OPERATION_NOT_SUPPORTED):
                                ctx.violation({'class': 'op-gate', 'op': o.name, 'version': c16.vstr(v)}, {'version': v, 'operation': o.name, 'via': 'session'},
                                              '%s accepted under KMIP %s through the session' % (o.name, c16.vstr(v)))
                    else:
                        touched = [c for c in entered if c != 'process_request']
                        if err != R.INVALID_MESSAGE.value or before != after or touched:
                            ctx.violation({'class': 'unsupported-version', 'version': c16.vstr(v)},
                                          {'version': v, 'operations': [o.name for o in ops], 'via': 'session', 'error_reason': err,
                                           'store_changed': before != after, 'engine_methods_entered': entered},
                                          'request in unsupported KMIP %s was not refused with InvalidMessage by the session' % c16.vstr(v))
    finally:
        sc.close()
