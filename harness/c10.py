"""C10 - concurrent sessions behave as if served one request at a time.

proof (partial): theorems about the interleaving model coq/theories/Conc/Interleave.v (props/C10.v);
tie K: (1) lock-set discipline on the real engine: the engine instance's class is swapped for a tracing
subclass that logs every access to the six shared per-request fields together with `_lock._is_owned()`;
real threads (2-4 clients, different identities and protocol versions, switch interval 1e-6) run workloads;
EVERY tracked access must happen under the lock; an `ast` pass checks that process_request is wrapped by
_synchronize and that no other public entry point (nor session.py / server.py) touches the shared fields;
(2) the responses and the final store equal the model's sequential execution in the recorded order of entry into
process_request (Coq compares), and that order is a merge of the clients' own sequences;
(3) forced schedules (a hook parks one client right after its identity / version was stored while another
client is served) are run against the deployed process_request - the parked client must still be answered under
its own identity and version - and against the undecorated body kept in the wrapper's closure, where the
crossing of `unlocked_refuted` must show (non-vacuity of the probe).
CPython's scheduler, threading.RLock and SQLite's locking are TRUSTED (runtime remainder).
"""
import ast
import logging
import sys
import threading
import time
from pathlib import Path

import copy

import kdrv
from kdrv import enums, AT
from kmip.core import policy as core_policy
from kmip.services.server import engine as engine_mod
from vlib import coqprint as cp

LEVEL = 'proof (partial)'

HEADER = ('From PK Require Import Conc.InterleaveCases.\nFrom Coq Require Import List ZArith.\n'
          'Import ListNotations.\nOpen Scope Z_scope.\n')

TRACKED = ('_client_identity', '_protocol_version', '_attribute_policy', '_data_session', '_id_placeholder', 'is_asynchronous')
USERS = [('alice', 101), ('bob', 202), ('carol', 303), ('dave', 404)]
VERSIONS = [(1, 0), (1, 1), (1, 2), (1, 4), (2, 0)]
CODES = {'ITEM_NOT_FOUND': 1, 'PERMISSION_DENIED': 2, 'OPERATION_NOT_SUPPORTED': 3, 'ILLEGAL_OPERATION': 4}
OPC = {'create': 1, 'get': 10, 'attrlist': 12, 'activate': 18, 'destroy': 20, 'discover': 30, 'query': 24}
OPC['getstate'] = 11
PUBLIC = -1          # owner code of objects stored under the ALLOW_ALL operation policy 'open' (Interleave.v PUBLIC)


def open_policies():
    """The built-in policies plus 'open' (every client may perform every operation, with or without the group 'ops') and
    'grouped' (preset: the built-in owner-only rules; members of the group 'ops': everything)."""
    pol = copy.deepcopy(core_policy.policies)
    everything = copy.deepcopy(pol['default']['preset'])
    for ot, ops in everything.items():
        for op in ops:
            ops[op] = enums.Policy.ALLOW_ALL
    pol['open'] = {'preset': copy.deepcopy(everything), 'groups': {'ops': copy.deepcopy(everything)}}
    pol['grouped'] = {'preset': copy.deepcopy(pol['default']['preset']), 'groups': {'ops': copy.deepcopy(everything)}}
    return pol


GROUPS = [None, ['ops'], []]          # group code g = index: no group information / member of 'ops' / empty group list


def allowed(owner_code, user_code, g):
    """What the operation policies say (python twin of Interleave.allowed; used by the direct oracle only)."""
    if g == 2:
        return False
    if owner_code == PUBLIC:
        return True
    if owner_code <= -100:
        return g == 1 or user_code == -100 - owner_code
    return g == 0 and user_code == owner_code


QF = enums.QueryFunction
FNSETS = [[QF.QUERY_OPERATIONS, QF.QUERY_OBJECTS], [QF.QUERY_OPERATIONS], [QF.QUERY_SERVER_INFORMATION, QF.QUERY_OBJECTS],
          [QF.QUERY_OPERATIONS, QF.QUERY_OBJECTS, QF.QUERY_SERVER_INFORMATION]]
_REF = {}


def reference_answer(version, spec_op):
    """Sequential reference under the session's OWN version: the same read-only request served alone by a fresh engine."""
    key = (version, spec_op)
    if key not in _REF:
        e = kdrv.Engine()
        try:
            r = e.request(build_items([spec_op]), version=version, user='reference')
            it = r['items'][0]
            _REF[key] = (it['status'], it['reason'], readonly_view(it))
        finally:
            e.close()
    return _REF[key]


def readonly_view(it):
    p = it['payload'] or {}
    if it['op'] == 'QUERY':
        return {'operations': sorted(str(x) for x in (p.get('operations') or [])), 'object_types': sorted(str(x) for x in (p.get('object_types') or [])),
                'vendor': p.get('vendor_identification')}
    if it['op'] == 'DISCOVER_VERSIONS':
        return {'versions': [str(v) for v in (p.get('protocol_versions') or [])]}
    return None


# ---------------------------------------------------------------------------------- static part of the tie
def static_checks(ctx):
    """ast: process_request is decorated by _synchronize (which takes self._lock around the call); every other public
    method of KmipEngine reaches none of the shared fields; session.py/server.py use the engine only through
    process_request, build_error_response and default_protocol_version."""
    problems = []
    src = (ctx.repo / 'kmip/services/server/engine.py').read_text()
    tree = ast.parse(src)
    cls = [n for n in tree.body if isinstance(n, ast.ClassDef) and n.name == 'KmipEngine']
    if not cls:
        return ['class KmipEngine not found in engine.py']
    cls = cls[0]
    methods = {n.name: n for n in cls.body if isinstance(n, ast.FunctionDef)}

    def self_attrs(fn):
        touched, called = set(), set()
        for n in ast.walk(fn):
            if isinstance(n, ast.Attribute) and isinstance(n.value, ast.Name) and n.value.id == 'self':
                touched.add(n.attr)
            if isinstance(n, ast.Call) and isinstance(n.func, ast.Attribute) and isinstance(n.func.value, ast.Name) \
                    and n.func.value.id == 'self':
                called.add(n.func.attr)
        return touched, called

    # _synchronize: `with self._lock:` around `return function(self, ...)`
    syn = methods.get('_synchronize')
    ok_syn = False
    if syn is not None:
        for n in ast.walk(syn):
            if isinstance(n, ast.With) and any(isinstance(i.context_expr, ast.Attribute) and i.context_expr.attr == '_lock'
                                               for i in n.items):
                if any(isinstance(b, ast.Return) and isinstance(b.value, ast.Call) for b in n.body):
                    ok_syn = True
    if not ok_syn:
        problems.append('_synchronize does not wrap the call in `with self._lock`')
    pr = methods.get('process_request')
    if pr is None or not any((isinstance(d, ast.Name) and d.id == '_synchronize') for d in pr.decorator_list):
        problems.append('process_request is not decorated by @_synchronize')
    # the lock must be created once per engine (in __init__), re-entrant
    init = methods.get('__init__')
    lock_ok = False
    for n in ast.walk(init) if init else []:
        if isinstance(n, ast.Assign) and any(isinstance(t, ast.Attribute) and t.attr == '_lock' for t in n.targets):
            if isinstance(n.value, ast.Call) and isinstance(n.value.func, ast.Attribute) and n.value.func.attr in ('RLock', 'Lock'):
                lock_ok = True
    if not lock_ok:
        problems.append('__init__ does not create self._lock = threading.RLock()')
    for name, fn in methods.items():
        if 'self._lock' in ast.unparse(fn) and name not in ('__init__', '_synchronize'):
            problems.append('method %s manipulates self._lock itself' % name)
    # the database session: a plain sessionmaker, one session opened and closed per request inside _process_batch
    fac_ok = False
    for n in ast.walk(init) if init else []:
        if isinstance(n, ast.Assign) and any(isinstance(t, ast.Attribute) and t.attr == '_data_store_session_factory' for t in n.targets):
            v = n.value
            fac_ok = isinstance(v, ast.Call) and isinstance(v.func, ast.Attribute) and v.func.attr == 'sessionmaker' and \
                not any(kw.arg == 'class_' for kw in v.keywords)
    if not fac_ok:
        problems.append('__init__: _data_store_session_factory is not a plain sqlalchemy.orm.sessionmaker(bind=...)')
    pb = methods.get('_process_batch')
    per_request = False
    for n in ast.walk(pb) if pb else []:
        if isinstance(n, ast.With):
            for i in n.items:
                c = i.context_expr
                if isinstance(c, ast.Call) and isinstance(c.func, ast.Attribute) and c.func.attr == '_data_store_session_factory' \
                        and i.optional_vars is not None:
                    var = i.optional_vars.id if isinstance(i.optional_vars, ast.Name) else None
                    for b in ast.walk(n):
                        if isinstance(b, ast.Assign) and any(isinstance(t, ast.Attribute) and t.attr == '_data_session' for t in b.targets) \
                                and isinstance(b.value, ast.Name) and b.value.id == var:
                            per_request = True
    if not per_request:
        problems.append('_process_batch does not open its own database session with `with self._data_store_session_factory() as s: '
                        'self._data_session = s` (a session that outlives the request can serve stale objects)')
    writers = [m for m, fn in methods.items() if any(isinstance(b, ast.Assign) and any(isinstance(t, ast.Attribute) and t.attr == '_data_session'
                                                                                         and isinstance(t.value, ast.Name) and t.value.id == 'self'
                                                                                         for t in b.targets) for b in ast.walk(fn))]
    if writers != ['_process_batch']:
        problems.append('_data_session is assigned in %s (expected: only in _process_batch)' % writers)
    # public entry points other than process_request must not reach the shared fields
    for name, fn in methods.items():
        if name.startswith('_') or name == 'process_request':
            continue
        seen, todo, reach = set(), [name], set()
        while todo:
            m = todo.pop()
            if m in seen or m not in methods:
                continue
            seen.add(m)
            t, c = self_attrs(methods[m])
            reach |= t
            todo += list(c)
        bad = sorted(reach & set(TRACKED))
        if bad:
            problems.append('public method %s (not synchronized) reaches shared per-request fields %s' % (name, bad))
        ctx.count('static.public-entry-point.' + name)
    # users of the engine object
    allowed = {'process_request', 'build_error_response', 'default_protocol_version'}
    for rel in ('kmip/services/server/session.py', 'kmip/services/server/server.py'):
        t = ast.parse((ctx.repo / rel).read_text())
        for n in ast.walk(t):
            if isinstance(n, ast.Attribute) and isinstance(n.value, ast.Attribute) and n.value.attr == '_engine' \
                    and n.attr not in allowed:
                problems.append('%s uses engine.%s outside the synchronized entry point' % (rel, n.attr))
    return problems


# ---------------------------------------------------------------------------------- tracing subclass
def install_tracer(engine, log):
    """Swap the instance's class for a subclass logging every access to the tracked fields with lock ownership."""
    base = type(engine)

    class Traced(base):
        def __getattribute__(self, name):
            if name in TRACKED:
                lock = object.__getattribute__(self, '_lock')
                log.append(('r', name, threading.get_ident(), lock._is_owned(), sys._getframe(1).f_code.co_name))
            return base.__getattribute__(self, name)

        def __setattr__(self, name, value):
            if name in TRACKED:
                lock = object.__getattribute__(self, '_lock')
                log.append(('w', name, threading.get_ident(), lock._is_owned(), sys._getframe(1).f_code.co_name))
            base.__setattr__(self, name, value)

    engine.__class__ = Traced
    return base


# ---------------------------------------------------------------------------------- requests
def build_items(spec):
    out = []
    for op in spec:
        k = op[0]
        if k == 'create':
            out.append(kdrv.create())
        elif k == 'get':
            out.append(kdrv.get(None if op[1] is None else str(op[1])))
        elif k == 'activate':
            out.append(kdrv.activate(None if op[1] is None else str(op[1])))
        elif k == 'destroy':
            out.append(kdrv.destroy(None if op[1] is None else str(op[1])))
        elif k == 'attrlist':
            out.append(kdrv.get_attribute_list(None if op[1] is None else str(op[1])))
        elif k == 'discover':
            out.append(kdrv.discover_versions())
        elif k == 'query':
            out.append(kdrv.query(FNSETS[op[1]]))
        elif k == 'revoke':
            out.append(kdrv.revoke(None if op[1] is None else str(op[1])))
        elif k == 'encrypt':
            out.append(kdrv.encrypt(None if op[1] is None else str(op[1]),
                                    params=kdrv.crypto_params(block_cipher_mode=enums.BlockCipherMode.CBC, padding_method=enums.PaddingMethod.PKCS5,
                                                              cryptographic_algorithm=enums.CryptographicAlgorithm.AES),
                                    data=b'sixteen byte msg', iv=b'\x01' * 16))
        elif k == 'getstate':
            out.append(kdrv.get_attributes(None if op[1] is None else str(op[1]), ['Name', 'State']))
    return out


def coq_opt(u):
    return 'None' if u is None else '(Some %s)' % cp.z(u)


def coq_req(version, spec):
    ops = []
    for op in spec:
        k = op[0]
        if k == 'create':
            ops.append('QCreate')
        elif k == 'discover':
            ops.append('QDiscover')
        elif k == 'query':
            ops.append('(QQuery %s)' % cp.boolean(QF.QUERY_OPERATIONS in FNSETS[op[1]]))
        else:
            ops.append('(%s %s)' % ({'get': 'QGet', 'activate': 'QActivate', 'destroy': 'QDestroy', 'attrlist': 'QAttrList',
                                     'getstate': 'QGetState', 'revoke': 'QRevoke', 'encrypt': 'QEncrypt'}[k], coq_opt(op[1])))
    return '(mkReq %s [%s])' % (cp.z(version[0] * 10 + version[1]), '; '.join(ops))


def project_response(resp, spec):
    """[(operation, code, identifier, extra)] of a ResponseMessage."""
    out = []
    for bi in resp.batch_items:
        it = kdrv.project_item(bi)
        opname = it['op']
        opc = bi.operation.value.value
        if it['status'] == 'SUCCESS':
            p = it['payload'] or {}
            uid = p.get('unique_identifier')
            if isinstance(uid, dict):
                uid = uid.get('value')
            extra = 0
            if opname == 'GET_ATTRIBUTE_LIST':
                extra = 1 if 'Sensitive' in (p.get('attribute_names') or []) else 0
            if opname == 'QUERY':
                extra = len(p.get('operations') or [])
            if opname == 'GET_ATTRIBUTES':
                for a in bi.response_payload.attributes:
                    if a.attribute_name.value == 'State':
                        extra = a.attribute_value.value.value
            try:
                uid = int(uid) if uid is not None else 0
            except (TypeError, ValueError):
                uid = -1                 # e.g. the string 'None': an identifier that names no object
            out.append((opc, 0, uid, extra))
        else:
            out.append((opc, CODES.get(it['reason'], 9), 0, 0))
    return out


def gen_queue(rng, n_req, known_uids, max_uid, shared=()):
    """One client's request sequence: operations on its own, others', destroyed and never-issued identifiers, and
    read / conditional-write / read patterns on objects every client may use (`shared`)."""
    q = []
    for _ in range(n_req):
        c = rng.random()
        if shared and c < 0.30:
            u = rng.choice(list(shared))
            q.append(rng.choice([[('getstate', u)], [('getstate', u)], [('activate', u)], [('getstate', u), ('activate', u)],
                                 [('activate', u), ('getstate', u)], [('destroy', u)], [('encrypt', u)], [('encrypt', u)],
                                 [('revoke', u)], [('activate', u), ('encrypt', u)], [('encrypt', u), ('getstate', u)]]))
            continue
        c = rng.random()

        def uid():
            r = rng.random()
            if r < 0.8 and known_uids:
                return rng.choice(known_uids)
            return rng.randint(1, max_uid + 6)
        if c < 0.18:
            spec = [('create',), ('get', None)]                 # the Get uses the ID placeholder set by the Create
        elif c < 0.26:
            spec = [('create',), ('activate', None), ('attrlist', None)]
        elif c < 0.50:
            spec = [('get', uid())]
        elif c < 0.62:
            spec = [('attrlist', uid())]
        elif c < 0.74:
            spec = [('activate', uid())]
        elif c < 0.84:
            spec = [('destroy', uid())]
        elif c < 0.88:
            spec = [('discover',)]
        elif c < 0.95:
            spec = [('query', rng.randrange(len(FNSETS)))]
        else:
            spec = rng.choice([[('get', uid()), ('discover',), ('attrlist', uid())],
                               [('query', 0), ('discover',), ('query', 1)]])
        q.append(spec)
    return q


def describe_diff(got, ref):
    if got[:2] != ref[:2]:
        return 'status %s/%s instead of %s/%s' % (got[0], got[1], ref[0], ref[1])
    g, r = got[2] or {}, ref[2] or {}
    for k in sorted(set(g) | set(r)):
        if g.get(k) != r.get(k):
            a, b = g.get(k), r.get(k)
            if isinstance(a, list) and isinstance(b, list):
                return '%s: not of its version %s, missing %s' % (k, sorted(set(a) - set(b)), sorted(set(b) - set(a)))
            return '%s: %r instead of %r' % (k, a, b)
    return 'different'


def prepopulate(eng, prepop):
    store0 = []
    for user, kind, nm in prepop:
        if kind == 'shared':
            r = eng.request([kdrv.create(names=[nm], extra=[kdrv.attr(AT.OPERATION_POLICY_NAME, 'open')])], user=user)
            store0.append((int(r['items'][0]['payload']['unique_identifier']), PUBLIC, 1))
        elif kind == 'grouped':
            r = eng.request([kdrv.create(names=[nm], extra=[kdrv.attr(AT.OPERATION_POLICY_NAME, 'grouped')])], user=user)
            store0.append((int(r['items'][0]['payload']['unique_identifier']), -100 - dict(USERS)[user], 1))
        else:
            r = eng.request([kdrv.create()], user=user)
            store0.append((int(r['items'][0]['payload']['unique_identifier']), dict(USERS)[user], 1))
    return store0


def final_store_of(eng):
    dump = eng.dump()
    state = {r['uid']: r['state'] for r in dump.get('crypto_objects', [])}
    codes = dict(USERS)
    return sorted((r['uid'], PUBLIC if r['operation_policy_name'] == 'open' else
                   (-100 - codes.get(r['owner'], 0) if r['operation_policy_name'] == 'grouped' else codes.get(r['owner'], 0)), state.get(r['uid'], 0))
                  for r in dump.get('managed_objects', []))


def one_at_a_time_reference(ctx, name, prepop, users, versions, queues, entries, groups):
    """The same requests in the same order of entry, served strictly one at a time by a second engine, EACH REQUEST IN A
    THREAD OF ITS OWN and by an ENGINE OBJECT OF ITS OWN (restart on the same database before every request).
    -> (responses in that order, final store)."""
    eng = kdrv.Engine(workdir=str(ctx.work / (name + '_ref')), policies=open_policies())
    try:
        prepopulate(eng, prepop)
        pos = [0] * len(users)
        out = []
        for t in entries:
            i = pos[t]
            pos[t] += 1
            m = eng.build(build_items(queues[t][i]), version=versions[t])
            box = {}
            # a FRESH engine object on the same database for every request: nothing the engine object may have kept from an
            # earlier request (identity, groups, placeholder, sessions) can play a part
            eng.engine._data_store.dispose()
            eng.restart()

            def one():
                try:
                    box['r'] = eng.engine.process_request(m, (users[t][0], copy.deepcopy(groups[t])))
                except Exception as e:  # noqa
                    box['e'] = repr(e)
            th = threading.Thread(target=one)
            th.start()
            th.join(60)
            out.append(project_response(box['r'][0], queues[t][i]) if 'r' in box else [('error', box.get('e'))])
        return out, final_store_of(eng)
    finally:
        eng.close()


# ---------------------------------------------------------------------------------- one concurrent run
def concurrent_run(ctx, name, rng, n_clients, n_req, with_error_responses=True, fixed=None, sequential=None, reference=True):
    """fixed = (versions, queues): a prescribed plan instead of a generated one; sequential = list of client numbers: the
    clients are served strictly in that arrival order (one request at a time, no threads racing)."""
    policies = open_policies()
    eng = kdrv.Engine(workdir=str(ctx.work / name), policies=policies)
    users = USERS[:n_clients]
    versions = [rng.choice(VERSIONS) for _ in users]
    if len(set(versions)) == 1:
        versions[0] = (1, 0) if versions[0] != (1, 0) else (2, 0)
    if fixed is not None:
        versions = list(fixed[0])
    gcodes = [rng.choice([0, 0, 0, 1, 1, 2]) for _ in users]
    if fixed is not None:
        gcodes = list(fixed[2]) if len(fixed) > 2 else [0] * n_clients
    groups = [copy.deepcopy(GROUPS[g]) for g in gcodes]
    # sequential preparation (part of the model's initial store): two named objects under the ALLOW_ALL policy that
    # every client may read and change, then a few objects owned by each client
    prepop = [('alice', 'shared', 'shared-%d' % k) for k in range(2)] + [('alice', 'grouped', 'grouped-0')]
    for (user, code) in users:
        prepop += [(user, 'own', None)] * rng.randint(1, 3)
    store0 = prepopulate(eng, prepop)
    shared = [u for u, c, _ in store0 if c == PUBLIC or c <= -100]
    known = [u for u, _, _ in store0]
    queues = [gen_queue(rng, n_req, known, len(store0) + n_clients * n_req, shared) for _ in users]
    if fixed is not None:
        queues = [[[(op[0], shared[int(op[1][1:])]) if len(op) > 1 and isinstance(op[1], str) else op for op in spec] for spec in q]
                  for q in fixed[1]]
    msgs = [[eng.build(build_items(spec), version=versions[t]) for spec in queues[t]] for t in range(n_clients)]
    log = []
    install_tracer(eng.engine, log)
    tid_of = {}
    results = [[None] * len(q) for q in queues]
    errors = []
    start = threading.Barrier(n_clients)

    turn = {'k': 0}
    turn_cv = threading.Condition()

    def client(t):
        tid_of[threading.get_ident()] = t
        cred = (users[t][0], groups[t])
        start.wait()
        for i, m in enumerate(msgs[t]):
            if sequential is not None:
                with turn_cv:
                    turn_cv.wait_for(lambda: turn['k'] < len(sequential) and sequential[turn['k']] == t, timeout=60)
            try:
                _serve(t, i, m, cred)
            finally:
                if sequential is not None:
                    with turn_cv:
                        turn['k'] += 1
                        turn_cv.notify_all()

    def _serve(t, i, m, cred):
        if True:
            try:
                resp, _, ver = eng.engine.process_request(m, cred)
                results[t][i] = (resp, ver)
            except Exception as e:  # noqa
                errors.append((t, i, repr(e)))
                results[t][i] = None
            if with_error_responses and i % 3 == 0:
                # what the session does for malformed input: called WITHOUT the lock
                eng.engine.build_error_response(kdrv.contents.ProtocolVersion(1, 0), enums.ResultReason.INVALID_MESSAGE, 'x')

    old = sys.getswitchinterval()
    sys.setswitchinterval(1e-6)
    try:
        ths = [threading.Thread(target=client, args=(t,)) for t in range(n_clients)]
        for th in ths:
            th.start()
        for th in ths:
            th.join(120)
    finally:
        sys.setswitchinterval(old)
    eng.engine.__class__ = engine_mod.KmipEngine
    desc = {'run': name, 'seed': ctx.seed, 'clients': [{'user': u, 'groups': g, 'version': v, 'requests': q}
                                                      for (u, _), g, v, q in zip(users, groups, versions, queues)],
            'objects_before': [{'uid': u, 'policy': 'open' if c == PUBLIC else ('grouped (preset owner only, group ops everything), owner %d' % (-100 - c) if c <= -100 else 'default, owner %d' % c)}
                               for u, c, _ in store0]}
    if any(th.is_alive() for th in ths):
        ctx.violation({'class': 'deadlock'}, desc, 'client threads did not finish')
        return None, None
    # ---- (1) lock-set discipline ----------------------------------------------------------------
    unlocked = [e for e in log if not e[3]]
    ctx.count('lockset.accesses', len(log))
    for f in TRACKED:
        ctx.count('lockset.field.' + f, sum(1 for e in log if e[1] == f))
    ctx.count('lockset.unlocked', len(unlocked))
    if unlocked:
        e = unlocked[0]
        ctx.violation({'class': 'unlocked-access', 'field': e[1]},
                      dict(desc, access={'kind': e[0], 'field': e[1], 'in_function': e[4], 'client': tid_of.get(e[2])},
                           count=len(unlocked)),
                      'shared per-request field %s is %s in %s without holding the engine lock (%d such accesses)' % (
                          e[1], 'written' if e[0] == 'w' else 'read', e[4], len(unlocked)))
    if errors:
        ctx.violation({'class': 'exception-under-concurrency'}, dict(desc, errors=errors[:5]),
                      'process_request raised under concurrency: %s' % (errors[0][2],))
    # order of entry into process_request: its first statement writes _client_identity (under the lock)
    entries = [tid_of[e[2]] for e in log if e[0] == 'w' and e[1] == '_client_identity' and e[4] == 'process_request']
    # ---- direct oracle (implementation only) -----------------------------------------------------
    owner = {u: c for u, c, _ in store0}
    created = []
    for t in range(n_clients):
        for i, spec in enumerate(queues[t]):
            if results[t][i] is None:
                continue
            resp, ver = results[t][i]
            obs = project_response(resp, spec)
            hv = resp.response_header.protocol_version
            if (hv.major, hv.minor) != versions[t] or (ver.major, ver.minor) != versions[t]:
                ctx.violation({'class': 'version-crossed', 'where': 'header'}, dict(desc, client=t, request=i),
                              'client %d sent KMIP %s and was answered under %s' % (t, versions[t], (hv.major, hv.minor)))
            for k, (o, sp) in enumerate(zip(obs, spec)):
                if sp[0] == 'create' and o[1] == 0:
                    if o[2] in owner:
                        ctx.violation({'class': 'identifier-issued-twice'}, dict(desc, uid=o[2]), 'identifier %d issued twice' % o[2])
                    owner[o[2]] = users[t][1]
                    created.append(o[2])
    for t in range(n_clients):
        me = users[t][1]
        for i, spec in enumerate(queues[t]):
            if results[t][i] is None:
                continue
            obs = project_response(results[t][i][0], spec)
            last_created = None
            for o, sp in zip(obs, spec):
                w = dict(desc, client=t, request=i, spec=spec, response=obs)
                if sp[0] == 'create' and o[1] == 0:
                    last_created = o[2]
                if sp[0] in ('get', 'attrlist', 'activate', 'destroy', 'getstate', 'revoke', 'encrypt'):
                    target = sp[1] if sp[1] is not None else last_created
                    if o[1] == 0 and o[2] in owner and not allowed(owner[o[2]], me, gcodes[t]):
                        ctx.violation({'class': 'identity-crossed', 'op': sp[0]}, w,
                                      'client %s (groups %r) was served %s on object %s (owner/policy code %s) which the operation policy does '
                                      'not let it use' % (users[t][0], groups[t], sp[0], o[2], owner.get(o[2])))
                    if o[1] == 0 and target is not None and o[2] != target:
                        ctx.violation({'class': 'placeholder-crossed', 'op': sp[0]}, w,
                                      '%s addressed object %s but the answer is about %s' % (sp[0], target, o[2]))
                    if o[1] == 2 and sp[0] in ('get', 'attrlist', 'getstate') and target in owner and allowed(owner[target], me, gcodes[t]):
                        ctx.violation({'class': 'identity-crossed', 'op': sp[0], 'direction': 'denied-own'}, w,
                                      'client %s (groups %r) was denied %s on object %s which the operation policy lets it use' % (users[t][0], groups[t], sp[0], target))
                if sp[0] in ('query', 'discover'):
                    # read-only answers that depend on the session's version: compare with the same request served alone,
                    # under this session's own version, by a fresh engine
                    items_raw = results[t][i][0].batch_items
                    k = [j for j, (oo, ss) in enumerate(zip(obs, spec)) if oo is o and ss is sp][0]
                    mine = kdrv.project_item(items_raw[k])
                    ref = reference_answer(versions[t], sp)
                    got = (mine['status'], mine['reason'], readonly_view(mine))
                    if got != ref:
                        ctx.violation({'class': 'version-crossed', 'op': sp[0], 'how': 'sequential-reference'},
                                      dict(w, version=versions[t], answered=got, alone_under_own_version=ref),
                                      '%s from a KMIP %d.%d session is answered differently from the same request served alone under that '
                                      'version: %s' % (sp[0], versions[t][0], versions[t][1], describe_diff(got, ref)))
                if sp[0] == 'discover':
                    want = 3 if versions[t] < (1, 1) else 0
                    if o[1] != want:
                        ctx.violation({'class': 'version-crossed', 'op': 'discover'}, w,
                                      'DiscoverVersions under KMIP %s answered with code %d' % (versions[t], o[1]))
                if sp[0] == 'attrlist' and o[1] == 0 and o[3] != (1 if versions[t] >= (1, 4) else 0):
                    ctx.violation({'class': 'version-crossed', 'op': 'attrlist'}, w,
                                  'GetAttributeList under KMIP %s %s the Sensitive attribute' % (versions[t], 'lists' if o[3] else 'omits'))
                ctx.count('op.%s.%d' % (sp[0], o[1]))
    # ---- (2) correspondence case ----------------------------------------------------------------------
    final = final_store_of(eng)
    nxt = eng.next_uid()
    eng.close()
    if len(entries) != sum(len(q) for q in queues):
        ctx.disagreement('runs', {'run': desc, 'problem': 'entries into process_request %d != requests %d' % (len(entries), sum(len(q) for q in queues))})
        return None, None
    pos = [0] * n_clients
    responses = []
    for t in entries:
        i = pos[t]
        pos[t] += 1
        r = results[t][i]
        responses.append(project_response(r[0], queues[t][i]) if r else [])
    if reference:
        ref_resp, ref_final = one_at_a_time_reference(ctx, name, prepop, users, versions, queues, entries, groups)
        ctx.count('reference.runs')
        pos2 = [0] * n_clients
        for k, t in enumerate(entries):
            i = pos2[t]
            pos2[t] += 1
            if [tuple(x) for x in responses[k]] != [tuple(x) for x in ref_resp[k]]:
                ctx.violation({'class': 'not-one-at-a-time', 'op': queues[t][i][0][0]},
                              dict(desc, order_of_entry=[users[x][0] for x in entries], position=k, client=users[t][0], request=queues[t][i],
                                   answered=responses[k], one_at_a_time=ref_resp[k],
                                   how='every client in its own long-lived thread against one engine; reference = the same requests in '
                                       'the same order of entry on a second engine, each in a fresh thread'),
                              'request %d in order of entry (%s: %s) was answered %s; served one at a time in that order the answer is %s' % (
                                  k, users[t][0], queues[t][i], responses[k], ref_resp[k]))
                break
        else:
            if ref_final != final:
                ctx.violation({'class': 'not-one-at-a-time', 'op': 'final-store'},
                              dict(desc, order_of_entry=[users[x][0] for x in entries], final_store=final, one_at_a_time=ref_final),
                              'the final store differs from the one left by serving the same requests one at a time in order of entry')
    sh0 = '(mkShared 0 12 12 0 false None [%s] %s)' % ('; '.join('(mkObj %s %s %s)' % (cp.z(u), cp.z(c), cp.z(s)) for u, c, s in store0), cp.z(len(store0) + 1))
    case = 'CRun [%s] %s [%s] [%s] [%s] [%s] %s' % (
        '; '.join(cp.z(c * 10 + g) for (_, c), g in zip(users, gcodes)), sh0,
        '; '.join('[%s]' % '; '.join(coq_req(versions[t], spec) for spec in queues[t]) for t in range(n_clients)),
        '; '.join(cp.nat(t) for t in entries),
        '; '.join('[%s]' % '; '.join('(%s, %s, %s, %s)' % tuple(cp.z(x) for x in o) for o in resp) for resp in responses),
        '; '.join('(%s, %s, %s)' % tuple(cp.z(x) for x in f) for f in final), cp.z(nxt))
    switches = sum(1 for a, b in zip(entries, entries[1:]) if a != b)
    ctx.count('runs.client-switches-between-consecutive-requests', switches)
    ctx.case_seen((name, tuple(entries), tuple(map(tuple, responses))), nontrivial=switches > 0)
    return case, dict(desc, order_of_entry=entries, responses=responses, final_store=final)


# ---------------------------------------------------------------------------------- forced schedules
def forced_probe(ctx, kind, unlocked):
    """Client B is parked right after its identity (kind='identity') or protocol version (kind='version') was stored in the
    shared field; client A is then served completely (if it can enter); B continues.  -> (what B got, description).
    unlocked=True runs the undecorated body of process_request that the _synchronize wrapper keeps in its closure."""
    eng = kdrv.Engine(workdir=str(ctx.work / ('probe_%s_%s' % (kind, 'unlocked' if unlocked else 'deployed'))))
    r = eng.request([kdrv.create()], user='alice')
    uid = r['items'][0]['payload']['unique_identifier']
    e = eng.engine
    deployed = type(e).process_request
    if unlocked:
        cells = [c.cell_contents for c in (deployed.__closure__ or []) if callable(c.cell_contents)]
        if not cells:
            eng.close()
            return None, 'process_request has no wrapped body in its closure (not decorated?)'
        body = cells[0]
    else:
        body = deployed
    parked = threading.Event()
    resume = threading.Event()
    b_thread = {}
    hook_name = '_verify_credential' if kind == 'identity' else '_set_protocol_version'
    orig = getattr(e, hook_name)

    def hook(*a, **kw):
        out = orig(*a, **kw)
        if threading.get_ident() == b_thread.get('id') and not parked.is_set():
            parked.set()
            resume.wait(0.4)          # under the lock A cannot enter: B resumes after the timeout
        return out
    setattr(e, hook_name, hook)
    if kind == 'identity':
        req_b = eng.build([kdrv.get(str(uid))], version=(1, 0))
        req_a = eng.build([kdrv.get(str(uid))], version=(1, 2))
    else:
        req_b = eng.build([kdrv.discover_versions()], version=(1, 0))
        req_a = eng.build([kdrv.get(str(uid))], version=(1, 2))
    out = {}

    def run_b():
        b_thread['id'] = threading.get_ident()
        try:
            out['b'] = body(e, req_b, ('bob', None))
        except Exception as ex:  # noqa
            out['b'] = ex

    def run_a():
        try:
            out['a'] = body(e, req_a, ('alice', None))
        except Exception as ex:  # noqa
            out['a'] = ex
        resume.set()
    tb = threading.Thread(target=run_b)
    tb.start()
    parked.wait(5)
    ta = threading.Thread(target=run_a)
    ta.start()
    tb.join(10)
    ta.join(10)
    delattr(e, hook_name)
    sched = ['B enters process_request and is parked after %s' % hook_name, 'A (alice, KMIP 1.2) sends Get %s' % uid,
             'B (bob, KMIP 1.0) continues with %s' % ('Get %s (alice\'s key)' % uid if kind == 'identity' else 'DiscoverVersions')]
    res = out.get('b')
    eng.close()
    if isinstance(res, Exception) or res is None:
        return ('error', repr(res)), sched
    obs = project_response(res[0], None)
    return ('ok', obs), sched


def run_probes(ctx):
    for kind in ('identity', 'version'):
        # deployed entry point: B must be answered under its own identity / version
        res, sched = forced_probe(ctx, kind, unlocked=False)
        ctx.count('probe.%s.deployed' % kind)
        want = 2 if kind == 'identity' else 3
        if res is None or res[0] != 'ok' or res[1][0][1] != want:
            ctx.violation({'class': 'identity-crossed' if kind == 'identity' else 'version-crossed', 'how': 'forced-schedule'},
                          {'schedule': sched, 'bob_got': res, 'expected_code': want,
                           'how_to_replay': 'harness/c10.py forced_probe(kind=%r, unlocked=False)' % kind},
                          ('bob was handed alice\'s key: his Get was evaluated under her identity' if kind == 'identity' else
                           'bob\'s DiscoverVersions under KMIP 1.0 was evaluated under alice\'s protocol version') +
                          ' (forced schedule on the deployed process_request)')
        # undecorated body: the crossing of c10_unlocked_refuted must show, otherwise the probe proves nothing
        res_u, _ = forced_probe(ctx, kind, unlocked=True)
        ctx.count('probe.%s.unlocked-body' % kind)
        crossed = res_u is not None and res_u[0] == 'ok' and res_u[1][0][1] == 0
        if not crossed:
            ctx.disagreement('probe', {'kind': kind, 'unlocked_body_result': res_u,
                                       'problem': 'the unlocked body did not show the crossing that unlocked_refuted predicts'})
        else:
            ctx.count('probe.%s.unlocked-body-crosses' % kind)


# ---------------------------------------------------------------------------------- the session layer
class TracedDict(dict):
    """A plugin settings dictionary (reachable from every KmipSession) that logs writes."""
    writes = None

    def _log(self, how, key):
        self.writes.append((how, key, threading.current_thread().name))

    def __setitem__(self, k, v):
        self._log('set', k)
        dict.__setitem__(self, k, v)

    def setdefault(self, k, d=None):
        if k not in self:
            self._log('setdefault', k)
        return dict.setdefault(self, k, d)

    def update(self, *a, **kw):
        self._log('update', None)
        dict.update(self, *a, **kw)

    def pop(self, k, *d):
        self._log('pop', k)
        return dict.pop(self, k, *d)


class RecordingEngine:
    """Stands where KmipSession expects its engine: records under which credential each session's request reaches
    process_request, then forwards to the real engine."""

    def __init__(self, eng):
        self.eng = eng
        self.default_protocol_version = eng.engine.default_protocol_version
        self.seen = []

    def process_request(self, request, credential=None):
        self.seen.append((threading.current_thread().name, credential))
        return self.eng.engine.process_request(request, credential)

    def build_error_response(self, version, reason, message):
        return self.eng.engine.build_error_response(version, reason, message)


def session_layer_probe(ctx):
    """Two real KmipSession objects (fake transports, generated client certificates alice / bob) share the plugin
    settings list exactly as KmipServer hands it to every session; authentication goes to a stubbed SLUGS service whose
    answer to alice's FIRST question is held back until bob's whole request has been served.  Each request must reach the
    engine under the identity and groups of ITS session; nothing reachable from both sessions may be written."""
    import sessdrv
    from kmip.services.server import session as session_mod
    from kmip.services.server.auth import slugs as slugs_mod
    eng = kdrv.Engine(workdir=str(ctx.work / 'sessions'))
    rec = RecordingEngine(eng)
    writes = []
    cfg = TracedDict({'enabled': 'True', 'url': 'http://slugs.verif.test/'})
    cfg.writes = writes
    auth_settings = [('auth:slugs', cfg)]
    before = dict(cfg)
    groups = {'alice': ['group-of-alice'], 'bob': ['group-of-bob']}
    parked, release = threading.Event(), threading.Event()
    calls = []

    class Resp:
        def __init__(self, code, body):
            self.status_code, self._b = code, body

        def json(self):
            return self._b

    def fake_get(url, timeout=None):
        who = threading.current_thread().name
        calls.append((who, url))
        user = url.rstrip('/').split('/users/')[1].split('/')[0]
        if who == 'session-alice' and not parked.is_set():
            parked.set()
            release.wait(3)              # alice's first answer is held back while bob is served
        if url.endswith('/groups'):
            return Resp(200, {'groups': groups.get(user, [])})
        return Resp(200 if user in groups else 404, {})

    def one_session(user):
        req = eng.build([kdrv.query()], version=(1, 2))
        frame = sessdrv.encode_request(req, (1, 2))
        conn = sessdrv.FakeConn(frame, [len(frame)], sessdrv.make_cert((user,), 'client'))
        s = session_mod.KmipSession(rec, conn, ('192.0.2.%d' % (7 if user == 'alice' else 8), 5696), name='session-' + user,
                                    enable_tls_client_auth=True, auth_settings=auth_settings)
        s._logger.setLevel(100)
        return s, conn

    sa, ca = one_session('alice')
    sb, cb = one_session('bob')
    shared_objs = sorted(k for k, v in vars(sa).items() if k not in ('_engine', '_logger') and isinstance(v, (list, dict, set))
                         and vars(sb).get(k) is v and v)
    old_get = slugs_mod.requests.get
    slugs_mod.requests.get = fake_get
    errs = []

    def loop(s):
        try:
            s._handle_message_loop()
        except Exception as e:  # noqa
            errs.append((s.name, repr(e)))
    try:
        ta = threading.Thread(target=loop, args=(sa,), name='session-alice')
        tb = threading.Thread(target=loop, args=(sb,), name='session-bob')
        ta.start()
        parked.wait(5)
        tb.start()
        tb.join(10)
        release.set()
        ta.join(10)
    finally:
        slugs_mod.requests.get = old_get
        eng.close()
    ctx.count('session-layer.probes')
    ctx.count('session-layer.objects-shared-between-sessions', len(shared_objs))
    seen = dict(rec.seen)
    sched = ['session-alice (certificate CN=alice) starts authenticating; the SLUGS answer to her first question is held back',
             'session-bob (certificate CN=bob) is authenticated and served completely', 'session-alice continues']
    wit = {'schedule': sched, 'slugs_calls': calls, 'reached_engine_as': {k: list(v) if v else v for k, v in seen.items()},
           'shared_between_sessions': shared_objs, 'errors': errs,
           'how_to_replay': 'harness/c10.py session_layer_probe (two KmipSession objects, shared auth_settings, stubbed requests.get)'}
    for name, user in (('session-alice', 'alice'), ('session-bob', 'bob')):
        want = (user, groups[user])
        got = seen.get(name)
        if got is None or (got[0], list(got[1] or [])) != (want[0], want[1]):
            ctx.violation({'class': 'identity-crossed', 'how': 'session-layer', 'where': 'authenticate'}, dict(wit, session=name, expected=want, got=got),
                          'the request of %s reached the engine under the identity %r (expected %r): authentication of two sessions '
                          'running at the same time exchanged identities' % (name, got, want))
    if writes:
        ctx.violation({'class': 'shared-session-state-written', 'key': str(writes[0][1])}, dict(wit, writes=writes, settings_before=before),
                      'a session wrote %r into the plugin settings shared by all sessions (outside the engine lock): %s' % (
                          writes[0][1], writes[:3]))


# ---------------------------------------------------------------------------------- the path the SERVER uses
class PipeConn:
    """An accepted connection as KmipServer hands it to _setup_connection_handler: blocking recv fed from a queue,
    responses collected; close() of the feeding side ends the session (recv returns b'')."""

    def __init__(self, cert_der):
        import queue
        self.inq = queue.Queue()
        self.outq = queue.Queue()
        self.buf = b''
        self.cert = cert_der
        self.closed = False

    def do_handshake(self):
        return None

    def recv(self, n):
        if not self.buf:
            self.buf = self.inq.get()
            if self.buf == b'':
                return b''
        out, self.buf = self.buf[:n], self.buf[n:]
        return out

    def sendall(self, data):
        self.outq.put(bytes(data))

    def getpeercert(self, binary_form=False):
        return self.cert

    def cipher(self):
        return ('ECDHE-RSA-AES256-GCM-SHA384', 'TLSv1.2', 256)

    def shared_ciphers(self):
        return [self.cipher()]

    def shutdown(self, how):
        return None

    def close(self):
        self.closed = True


class ServerRig:
    """A real KmipServer built from a configuration file; its engine is built exactly as KmipServer.start() builds it
    (start() itself also opens the TLS socket and the policy monitor process, which a check cannot do); client
    connections go through KmipServer._setup_connection_handler and are spoken to in TTLV."""

    def __init__(self, ctx, name):
        import os
        import sessdrv
        from kmip.services.server import server as server_mod
        self.sessdrv = sessdrv
        d = ctx.work / name
        d.mkdir(parents=True, exist_ok=True)
        for fn in ('server.crt', 'server.key', 'ca.crt'):
            open(d / fn, 'w').close()
        (d / 'policies').mkdir(exist_ok=True)
        conf = ('[server]\nhostname=127.0.0.1\nport=5696\ncertificate_path={d}/server.crt\nkey_path={d}/server.key\n'
                'ca_path={d}/ca.crt\nauth_suite=TLS1.2\npolicy_path={d}/policies\ndatabase_path={d}/server.db\n'
                'logging_level=CRITICAL\n').format(d=d)
        (d / 'server.conf').write_text(conf)
        self.logger = logging.getLogger('kmip.server')
        self.before = list(self.logger.handlers)
        self.saved_level = self.logger.level
        engine_mod.time = kdrv.FakeClock()
        self.srv = server_mod.KmipServer(config_path=str(d / 'server.conf'), log_path=str(d / 'log' / 'server.log'))
        # KmipServer.start(): self.policies = <policy store>; self._engine = engine.KmipEngine(policies=self.policies,
        # database_path=self.config.settings.get('database_path'))
        self.srv.policies = open_policies()
        self.srv._engine = engine_mod.KmipEngine(policies=self.srv.policies,
                                                 database_path=self.srv.config.settings.get('database_path'))
        self.db = str(d / 'server.db')
        self.clients = {}

    def connect(self, user):
        conn = PipeConn(self.sessdrv.make_cert((user,), 'client'))
        name = '{0:08}'.format(self.srv._session_id)
        self.srv._setup_connection_handler(conn, ('192.0.2.%d' % (10 + len(self.clients)), 5696))
        sess = [t for t in threading.enumerate() if t.name == name and hasattr(t, '_engine')]
        self.clients[user] = (conn, sess[0] if sess else None)
        return conn, (sess[0] if sess else None)

    def send(self, user, items, version=(1, 2)):
        builder = kdrv.Engine.build
        req = builder(None, items, version=version)
        self.clients[user][0].inq.put(self.sessdrv.encode_request(req, version))

    def receive(self, user, version=(1, 2), timeout=20):
        import queue
        from kmip.core import utils as kutils
        from kmip.core.messages import messages as kmsg
        try:
            data = self.clients[user][0].outq.get(timeout=timeout)
        except queue.Empty:
            return None
        resp = kmsg.ResponseMessage()
        resp.read(kutils.BytearrayStream(data), kmip_version=kdrv.contents.protocol_version_to_kmip_version(kdrv.contents.ProtocolVersion(*version)))
        return project_response(resp, None)

    def call(self, user, items, version=(1, 2)):
        self.send(user, items, version)
        return self.receive(user, version)

    def close(self):
        for conn, sess in self.clients.values():
            conn.inq.put(b'')
        for conn, sess in self.clients.values():
            if sess is not None:
                sess.join(10)
        engines = {id(s._engine): s._engine for _, s in self.clients.values() if s is not None}
        engines[id(self.srv._engine)] = self.srv._engine
        for e in engines.values():
            try:
                e._data_store.dispose()
            except Exception:
                pass
        for h in [h for h in self.logger.handlers if h not in self.before]:
            self.logger.removeHandler(h)
            h.close()
        self.logger.setLevel(self.saved_level)


def logging_quiet():
    logging.getLogger('kmip').setLevel(logging.CRITICAL + 1)


def server_static(ctx):
    """ast on server.py: KmipEngine is constructed once (in start) and _setup_connection_handler hands self._engine to every
    KmipSession."""
    problems = []
    t = ast.parse((ctx.repo / 'kmip/services/server/server.py').read_text())
    cls = [n for n in t.body if isinstance(n, ast.ClassDef) and n.name == 'KmipServer']
    if not cls:
        return ['class KmipServer not found']
    methods = {n.name: n for n in cls[0].body if isinstance(n, ast.FunctionDef)}
    built = [m for m, fn in methods.items() for n in ast.walk(fn)
             if isinstance(n, ast.Call) and isinstance(n.func, ast.Attribute) and n.func.attr == 'KmipEngine']
    if built != ['start']:
        problems.append('KmipServer builds KmipEngine objects in %s (expected: exactly one, in start)' % built)
    h = methods.get('_setup_connection_handler')
    ok = False
    for n in ast.walk(h) if h else []:
        if isinstance(n, ast.Call) and isinstance(n.func, ast.Attribute) and n.func.attr == 'KmipSession' and n.args:
            a = n.args[0]
            ok = isinstance(a, ast.Attribute) and a.attr == '_engine' and isinstance(a.value, ast.Name) and a.value.id == 'self'
    if not ok:
        problems.append('_setup_connection_handler does not pass self._engine to KmipSession')
    return problems


def server_path_probe(ctx):
    """Several clients at the same time THROUGH THE SERVER: connections accepted by KmipServer._setup_connection_handler, one
    KmipSession thread each, requests and responses as TTLV bytes.  (a) every session must work on the very engine object
    the server built; (b) forced schedules: bob's request is held right before its first write (SQLAlchemy
    before_cursor_execute hook on the database engine bob's session uses) while alice's request on the same object is sent;
    the two answers and the final state must be those of serving the two requests one at a time in one of the two orders."""
    from sqlalchemy import event as sa_event
    schedules = [('activate-activate', lambda u: [kdrv.activate(u)], lambda u: [kdrv.activate(u)]),
                 ('destroy-activate', lambda u: [kdrv.destroy(u)], lambda u: [kdrv.activate(u)]),
                 ('activate-destroy', lambda u: [kdrv.activate(u)], lambda u: [kdrv.destroy(u)])]
    for label, bob_items, alice_items in schedules:
        rig = ServerRig(ctx, 'server_' + label)
        logging_quiet()
        later = []          # the identity tie is reported after the behaviour, so that a concrete schedule heads the replay
        try:
            ca, sa = rig.connect('alice')
            cb, sb = rig.connect('bob')
            ctx.count('server-path.sessions', 2)
            for who, sess in (('alice', sa), ('bob', sb)):
                if sess is None or sess._engine is not rig.srv._engine:
                    later.append(({'class': 'engine-not-shared', 'where': '_setup_connection_handler'},
                                  {'session': who, 'session_engine': repr(getattr(sess, '_engine', None)), 'server_engine': repr(rig.srv._engine),
                                   'how': 'KmipServer from a configuration file; two connections through _setup_connection_handler; '
                                          'compare session._engine with server._engine'},
                                  'the session serving %s does not work on the engine object the server built: every connection has '
                                  'its own engine lock while all share one database file' % who))
            r = rig.call('alice', [kdrv.create(names=['shared-key'], extra=[kdrv.attr(AT.OPERATION_POLICY_NAME, 'open')])])
            uid = str(r[0][2]) if r else None
            if not r or r[0][1] != 0:
                ctx.disagreement('server-path', {'problem': 'prelude Create failed', 'answer': r})
                continue
            parked, release = threading.Event(), threading.Event()
            bob_thread = sb.ident

            def hold(conn, cursor, statement, parameters, context, executemany):
                if threading.get_ident() == bob_thread and not parked.is_set() and statement.lstrip()[:6].upper() in ('UPDATE', 'DELETE', 'INSERT'):
                    parked.set()
                    release.wait(0.6)      # with one shared engine alice waits for the engine lock and bob resumes after the timeout
            ds = sb._engine._data_store
            sa_event.listen(ds, 'before_cursor_execute', hold)
            try:
                rig.send('bob', bob_items(uid))
                parked.wait(5)
                rig.send('alice', alice_items(uid))
                ra = rig.receive('alice', timeout=8)
                release.set()
                rb = rig.receive('bob', timeout=8)
                if ra is None:
                    ra = rig.receive('alice', timeout=8)
            finally:
                sa_event.remove(ds, 'before_cursor_execute', hold)
            st = rig.call('alice', [kdrv.get_attributes(uid, ['State'])])
            got = (rb, ra, st)
            # one-at-a-time references, both orders, on a plain engine
            refs = []
            for order in (('bob', 'alice'), ('alice', 'bob')):
                e = kdrv.Engine(workdir=str(ctx.work / ('server_ref_' + label)), policies=open_policies())
                try:
                    r0 = e.request([kdrv.create(names=['shared-key'], extra=[kdrv.attr(AT.OPERATION_POLICY_NAME, 'open')])], user='alice')
                    u = kdrv.first_uid(r0['items'][0])
                    ans = {}
                    for who in order:
                        rr = e.process(e.build(bob_items(u) if who == 'bob' else alice_items(u)), who, None)
                        ans[who] = project_response(rr['raw'], None)
                    s2 = e.process(e.build([kdrv.get_attributes(u, ['State'])]), 'alice', None)
                    refs.append((ans['bob'], ans['alice'], project_response(s2['raw'], None)))
                finally:
                    e.close()
            ctx.count('server-path.forced-schedules')
            ctx.case_seen(('server-path', label, repr(got)), nontrivial=True)
            norm = lambda x: [tuple(i) for i in x] if x is not None else None
            if (norm(got[0]), norm(got[1]), norm(got[2])) not in [(norm(a), norm(b), norm(c)) for a, b, c in refs]:
                ctx.violation({'class': 'not-one-at-a-time', 'how': 'server-path', 'schedule': label},
                              {'schedule': ['KmipServer built from a configuration file; alice and bob connect through _setup_connection_handler',
                                            'alice: Create (operation policy with ALLOW_ALL) -> %s' % uid,
                                            'bob sends %s %s; his session thread is held right before its first UPDATE/DELETE' % (label.split('-')[0], uid),
                                            'alice sends %s %s' % (label.split('-')[1], uid), 'bob continues'],
                               'answers (operation, code, identifier, extra)': {'bob': got[0], 'alice': got[1], 'state afterwards': got[2]},
                               'one_at_a_time': [{'order': o, 'bob': a, 'alice': b, 'state afterwards': c}
                                                 for o, (a, b, c) in zip(('bob first', 'alice first'), refs)],
                               'how_to_replay': 'harness/c10.py server_path_probe'},
                              'through the server, bob\'s %s and alice\'s %s of the same object were answered %s / %s (state afterwards %s): '
                              'no one-at-a-time order gives these answers' % (label.split('-')[0], label.split('-')[1], got[0], got[1], got[2]))
        finally:
            rig.close()
            for a in later:
                ctx.violation(*a)
    for p in server_static(ctx):
        ctx.violation({'class': 'engine-not-shared', 'where': 'static'}, {'finding': p, 'file': 'kmip/services/server/server.py'}, p)


# ---------------------------------------------------------------------------------- check
def run(ctx):
    quick = ctx.tier == 'quick'
    ctx.cov['rule'] = ('concurrent runs of 2-4 client threads with different identities and protocol versions (1.0-2.0) against one '
                       'KmipEngine, switch interval 1e-6: Create+Get/Activate through the ID placeholder, Get/GetAttributeList/Activate/'
                       'Destroy on own, foreign, destroyed and never-issued identifiers, DiscoverVersions, Query with four function sets '
                       '(answers compared with the same request served alone under the session\'s own version; scheduled arrival '
                       'orders of 1.0/1.1/1.4/2.0 sessions on one engine), unlocked build_error_response '
                       'calls; one evaluation = one run; non-trivial = the order of entry into process_request switches between clients; '
                       'distinct = different (order, responses).  Plus two forced schedules (identity, version) on the deployed entry point '
                       'and on the undecorated body.')
    ctx.cov['trusted_extra'] = [
        'TRUSTED (runtime remainder of C10, not modelled): CPython thread scheduling and threading.RLock, SQLite/SQLAlchemy connection '
        'handling under check_same_thread=False, the session layer handing each request to process_request with its own credential.',
        'The micro-operation lists of Conc/Interleave.v are a hand model of process_request; the tie is the lock-set discipline '
        '(every access to the six shared fields is made while _lock is owned - checked on every traced access of every run, and '
        'statically by ast for entry points) plus the behavioural comparison of complete runs in Coq.',
        'Session layer: two real KmipSession objects with fake transports and a stubbed SLUGS service (requests.get replaced for the '
        'duration of the probe); the plugin settings dictionary they share is a dict subclass that logs writes.',
        'Instrumentation attached from outside: instance class swapped for a tracing subclass; _verify_credential/_set_protocol_version '
        'wrapped on the instance for the forced schedules.']
    ctx.prove('props/C10.v')
    run_probes(ctx)          # first: a hit here is a concrete schedule (goes into the replay file)
    session_layer_probe(ctx)
    server_path_probe(ctx)
    n_runs = 60 if quick else 400
    cases, meta = [], []
    # scheduled runs of read-only requests whose answer depends on the session's version, from sessions of different
    # versions on ONE engine: every arrival order of three sessions, then racing
    ro_versions = [(1, 0), (1, 4), (1, 1), (2, 0)]
    ro_queue = [[('query', 0)], [('discover',)], [('query', 1), ('query', 3)], [('query', 2)], [('query', 0)]]
    import itertools
    plans = [list(p) for p in itertools.permutations(range(3))] + [[3, 0, 2, 1], [1, 3, 2, 0]]
    for k, order in enumerate(plans):
        n = len(order)
        seq = [t for _ in ro_queue for t in order]          # round-robin arrival in the given order
        c, m = concurrent_run(ctx, 'ro%02d' % k, ctx.subrng('ro/%d' % k), n, 0, fixed=(ro_versions[:n], [ro_queue] * n), sequential=seq)
        if c is not None:
            cases.append(c)
            meta.append(dict(m, arrival_order=[USERS[t][0] for t in order]))
    # read / change / read again across sessions on shared named objects (ALLOW_ALL policy), every session in its own
    # long-lived thread, strictly alternating requests
    A_q = [[('activate', 'S0')], [('getstate', 'S0')], [('getstate', 'S1')], [('destroy', 'S1')]]
    B_q = [[('getstate', 'S0')], [('getstate', 'S0')], [('activate', 'S0')], [('destroy', 'S0')], [('getstate', 'S1')],
           [('getstate', 'S1')], [('activate', 'S1')]]
    rmr = [('rmr0', [(1, 2), (1, 4)], [A_q, B_q], [1, 0, 1, 1, 0, 1, 0, 1, 0, 1, 1]),
           ('rmr1', [(2, 0), (1, 0)], [B_q, A_q], [0, 1, 0, 0, 1, 0, 1, 0, 1, 0, 0]),
           ('rmr2', [(1, 2), (1, 4), (1, 1)], [A_q, B_q, [[('getstate', 'S0')], [('getstate', 'S0')], [('getstate', 'S1')], [('getstate', 'S1')]]],
            [1, 2, 0, 1, 2, 1, 1, 0, 1, 2, 0, 1, 0, 2, 1])]
    # identities with and without group lists under a policy whose group section grants more than its preset section,
    # strictly alternating: (bob, ['ops']) may use alice's object, (carol, None) and (dave, []) may not
    G_q = [[('getstate', 'S2')], [('get', 'S2')], [('getstate', 'S2')], [('get', 'S0')]]
    rmr.append(('grp0', [(1, 2)] * 4, [G_q] * 4, [1, 2, 1, 3, 0, 2, 3, 1, 0, 2, 1, 3, 0, 2, 3, 0], [0, 1, 0, 2]))
    rmr.append(('grp1', [(1, 2), (1, 4), (1, 2)], [G_q] * 3, [1, 2, 0, 1, 2, 0, 2, 1, 0, 2, 1, 0], [2, 1, 0]))
    # cross-identity histories with cryptographic use of a shared key: use, change by the OTHER identity, use again
    X_a = [[('activate', 'S0')], [('encrypt', 'S0')], [('revoke', 'S0')], [('getstate', 'S0')], [('destroy', 'S0')], [('encrypt', 'S2')]]
    X_b = [[('encrypt', 'S0')], [('encrypt', 'S0')], [('encrypt', 'S0')], [('getstate', 'S0')], [('encrypt', 'S0')], [('encrypt', 'S2')]]
    rmr.append(('use0', [(1, 2), (1, 4)], [X_a, X_b], [1, 0, 1, 0, 1, 0, 1, 0, 1, 0, 1, 0], [0, 0]))
    rmr.append(('use1', [(1, 4), (2, 0), (1, 2)], [X_b, X_a, X_b], [0, 2, 1, 0, 2, 1, 0, 2, 1, 0, 2, 1, 0, 2, 1, 0, 2, 1], [1, 0, 1]))
    for plan in rmr:
        nm, vs, qs, order = plan[:4]
        c, m = concurrent_run(ctx, nm, ctx.subrng(nm), len(vs), 0, fixed=(vs, qs) + ((plan[4],) if len(plan) > 4 else ()), sequential=order)
        if c is not None:
            cases.append(c)
            meta.append(m)
    for k in range(4 if quick else 20):
        c, m = concurrent_run(ctx, 'rr%02d' % k, ctx.subrng('rr/%d' % k), 4, 0, fixed=(ro_versions, [ro_queue] * 4))
        if c is not None:
            cases.append(c)
            meta.append(m)
    for k in range(n_runs):
        rng = ctx.subrng('run/%d' % k)
        n_clients = rng.choice([2, 2, 3, 3, 4])
        n_req = rng.choice([3, 4, 5, 6]) if quick else rng.choice([4, 6, 8, 10])
        c, m = concurrent_run(ctx, 'r%03d' % k, rng, n_clients, n_req, reference=(not quick or k % 4 == 0))
        if c is not None:
            cases.append(c)
            meta.append(m)
    for p in static_checks(ctx):
        ctx.violation({'class': 'unsynchronized-entry-point'}, {'finding': p, 'file': 'kmip/services/server/engine.py'}, p)
    bad = ctx.run_cases('runs', HEADER, cases, 'check_ccase', shard=25,
                        what='responses and final store of real concurrent runs vs seq_run of Conc/Interleave.v in the recorded order of entry')
    for i in bad[:10]:
        ctx.disagreement('runs', meta[i])
    for m, c in list(zip(meta, cases))[:2]:
        ctx.sample({'run': m, 'coq': c[:800]})


def replay(ctx, data):
    ctx.seed = int(data.get('seed', ctx.seed))
    ctx.tier = data.get('tier', ctx.tier)
    ctx.log('replaying seed %d: %s' % (ctx.seed, data.get('what') or data.get('no_longer_checks')))
    inp = data.get('input') or {}
    if isinstance(inp, dict) and 'schedule' in inp:
        for p in static_checks(ctx):
            ctx.violation({'class': 'unsynchronized-entry-point'}, {'finding': p}, p)
        run_probes(ctx)
        return ctx.finish()
    run(ctx)
    return ctx.finish()
