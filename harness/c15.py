"""C15 - attribute operations change only what they may, exactly as asked.

regenerate (rule table) -> prove (props/C15.v) -> correspondence K (histories replayed on the real engine, Coq replays
them on the model and compares outcome + GetAttributes(all) projection of every object after every step) -> direct
oracle on the implementation (protected attributes, failure frame on the raw SQL dump, exact effect on success,
batch frame) -> evidence.
"""
import copy
import json
import random
import shutil
import sys

import kdrv
from kdrv import OT, AT, OP
from kmip.core import enums, primitives, attributes as cattrs, objects as cobjects
from kmip.core.messages import contents, payloads
from vlib import coqprint as cp

HEADER = ('From Coq Require Import ZArith List String Bool.\nFrom PK Require Import AttrOps.Model AttrOps.Cases.\n'
          'Import ListNotations.\nOpen Scope string_scope.\nOpen Scope Z_scope.\n')

T = enums.Tags
POOL = ['a', 'b', 'c', 'd', 'e']
ASI_POOL = [('ns0', 'd0'), ('ns1', 'd1'), ('ns0', 'd1'), ('ns2', 'd0'), ('n', '')]
ASI_BOUNDARY = [('vault', ''), ('', 'x'), ('', '')]     # empty text in each sub-field of the structure (legal TTLV)
V1 = [(1, 0), (1, 1), (1, 2), (1, 3), (1, 4)]
V2 = (2, 0)
OBS_VER = (1, 4)
BOGUS = 'Bogus Name'            # 1.x: free text attribute name that is not in the rule table
UNLISTED = 'Comment'            # 2.0: tag with an attribute name that is not in the rule table
BADTAG = None                   # 2.0: tag that is no attribute at all (Tags.BATCH_COUNT)
PROTECTED_NAMES = ['Unique Identifier', 'Object Type', 'State', 'Operation Policy Name', 'Cryptographic Usage Mask',
                   'Cryptographic Algorithm', 'Cryptographic Length', 'Initial Date']


def version_sensitive_names():
    """Names whose rule set was added after KMIP 1.0 or is deprecated: the handlers' answers depend on the version."""
    from kmip.services.server import policy
    rs = policy.AttributePolicy(contents.ProtocolVersion(1, 0))._attribute_rule_sets
    return {n for n, r in rs.items() if r.version_added > contents.ProtocolVersion(1, 0) or r.version_deprecated}


VERSION_SENSITIVE = set()


def short(x, n=48):
    """Witness-friendly copy: long strings as prefix + length."""
    if isinstance(x, str):
        return x if len(x) <= n else '%s...<%d chars>' % (x[:n], len(x))
    if isinstance(x, (list, tuple)):
        return [short(y, n) for y in x]
    if isinstance(x, dict):
        return {k: short(v, n) for k, v in x.items()}
    return x


_RULES = {}


def in_version(name, ver):
    """Rule table data only (version added / deprecated), not the query methods of policy.py."""
    if not _RULES:
        from kmip.services.server import policy
        for n, r in policy.AttributePolicy(contents.ProtocolVersion(1, 0))._attribute_rule_sets.items():
            _RULES[n] = ((r.version_added.major, r.version_added.minor),
                         (r.version_deprecated.major, r.version_deprecated.minor) if r.version_deprecated else None)
    if name not in _RULES:
        return False
    added, dep = _RULES[name]
    return tuple(ver) >= added and not (dep is not None and tuple(ver) >= dep)


def table_names():
    from kmip.services.server import policy
    return list(policy.AttributePolicy(contents.ProtocolVersion(1, 0))._attribute_rule_sets.keys())


# ---------------------------------------------------------------------- values: JSON form <-> Python object <-> Coq term
def jv_coq(v):
    if v is None:
        return 'None'
    k = v[0]
    if k == 'T':
        return '(VText %s)' % cp.string(v[1])
    if k == 'A':
        return '(VAsi %s %s)' % (cp.string(v[1]), cp.string(v[2]))
    if k == 'B':
        return '(VBool %s)' % cp.boolean(v[1])
    if k == 'I':
        return '(VInt %s)' % cp.z(v[1])
    raise ValueError(v)


def tag_for(name):
    if name is None:
        return T.BATCH_COUNT
    try:
        return enums.convert_attribute_name_to_tag(name)
    except Exception:
        return T.COMMENT


def py_value(name, v):
    """The attribute value object a decoder would produce for this attribute name (carrying its tag)."""
    tag = tag_for(name)
    k = v[0]
    if name == 'Name':
        return cattrs.Name.create(v[1], enums.NameType.UNINTERPRETED_TEXT_STRING)
    if k == 'A':
        return cattrs.ApplicationSpecificInformation(v[1], v[2])
    if k == 'B':
        return primitives.Boolean(v[1], tag)
    if k == 'T':
        if name == 'Operation Policy Name':
            return cattrs.OperationPolicyName(v[1])
        if name == 'Unique Identifier':
            return cattrs.UniqueIdentifier(v[1])
        return primitives.TextString(v[1], tag)
    if k == 'I':
        z = v[1]
        if name == 'Cryptographic Algorithm':
            return cattrs.CryptographicAlgorithm(enums.CryptographicAlgorithm(z))
        if name == 'Cryptographic Length':
            return cattrs.CryptographicLength(z)
        if name == 'Cryptographic Usage Mask':
            return cattrs.CryptographicUsageMask(z)
        if name == 'State':
            return cattrs.State(enums.State(z))
        if name == 'Object Type':
            return cattrs.ObjectType(enums.ObjectType(z))
        if name == 'Certificate Type':
            return primitives.Enumeration(enums.CertificateType, enums.CertificateType(z), T.CERTIFICATE_TYPE)
        if name in ('Initial Date', 'Activation Date', 'Process Start Date', 'Protect Stop Date', 'Deactivation Date',
                    'Destroy Date', 'Compromise Occurrence Date', 'Compromise Date', 'Archive Date', 'Last Change Date'):
            return primitives.DateTime(z, tag)
        return primitives.Integer(z, tag)
    raise ValueError(v)


def value_for(name, rng, obs=None):
    """A shape-consistent JSON value for `name`; drawn from small pools so that current values often match."""
    if name == 'Name':
        return ['T', rng.choice(POOL) if rng.random() < 0.93 else '']      # the empty name is a legal TTLV text string
    if name == 'Object Group':
        return ['T', rng.choice(POOL) if rng.random() < 0.93 else '']
    if name == 'Application Specific Information':
        a = rng.choice(ASI_POOL) if rng.random() < 0.85 else rng.choice(ASI_BOUNDARY)
        return ['A', a[0], a[1]]
    if name in ('Sensitive', 'Fresh'):
        return ['B', rng.random() < 0.5]
    if name == 'Operation Policy Name':
        return ['T', rng.choice(['default', 'public', 'other'])]
    if name == 'Unique Identifier':
        return ['T', rng.choice(['1', '2', '77'])]
    if name == 'Cryptographic Algorithm':
        return ['I', rng.choice([enums.CryptographicAlgorithm.AES.value, enums.CryptographicAlgorithm.RSA.value])]
    if name == 'Cryptographic Length':
        return ['I', rng.choice([128, 256, 1024])]
    if name == 'Cryptographic Usage Mask':
        return ['I', rng.choice([12, 3, 1, 0])]
    if name == 'State':
        return ['I', rng.choice([1, 2, 3])]
    if name == 'Object Type':
        return ['I', rng.choice([2, 7])]
    if name == 'Certificate Type':
        return ['I', rng.choice([1, 2])]
    if name in ('Initial Date', 'Activation Date', 'Process Start Date', 'Protect Stop Date', 'Deactivation Date',
                'Destroy Date', 'Compromise Occurrence Date', 'Compromise Date', 'Archive Date', 'Last Change Date'):
        return ['I', rng.choice([0, 5, 1600000000])]
    return ['T', rng.choice(POOL)]


def current_value_of(name, o, rng):
    """A JSON value equal to an instance currently stored on the observed object `o` (None when there is none)."""
    if name == 'Name' and o['names']:
        return ['T', rng.choice(o['names'])]
    if name == 'Object Group' and o['groups']:
        return ['T', rng.choice(o['groups'])]
    if name == 'Application Specific Information' and o['asi']:
        a = rng.choice(o['asi'])
        return ['A', a[0], a[1]]
    if name == 'Sensitive':
        return ['B', o['sens']]
    if name == 'Operation Policy Name':
        return ['T', o['policy']]
    if name == 'Cryptographic Usage Mask' and o['mask'] is not None:
        return ['I', o['mask']]
    if name == 'Cryptographic Algorithm' and o['alg'] is not None:
        return ['I', o['alg']]
    if name == 'Cryptographic Length' and o['len'] is not None:
        return ['I', o['len']]
    if name == 'State' and o['state'] is not None:
        return ['I', o['state']]
    if name == 'Object Type':
        return ['I', o['type']]
    if name == 'Initial Date':
        return ['I', o['init']]
    return None


# ---------------------------------------------------------------------- requests
def cur_name_of(st):
    """Attribute the Current Attribute of a 2.0 ModifyAttribute names: by default the same as the New Attribute."""
    if st.get('cur_name') is not None:
        return st['cur_name']
    return st['new'][0] if st.get('new') is not None else 'Name'


def build_item(st):
    """Abstract attribute step -> (Operation, payload)."""
    f = st['form']
    uid = st['uid']
    if f == 'mod':
        attr = None
        if st.get('attr') is not None:
            n, idx, v = st['attr']
            attr = kdrv.raw_attr(n, py_value(n, v), idx)
        new = cur = None
        if st.get('new') is not None:
            n, v = st['new']
            new = cobjects.NewAttribute(attribute=py_value(n, v))
        if st.get('cur') is not None:
            cur = cobjects.CurrentAttribute(attribute=py_value(cur_name_of(st), st['cur']))
        return (OP.MODIFY_ATTRIBUTE, payloads.ModifyAttributeRequestPayload(
            unique_identifier=uid, attribute=attr, current_attribute=cur, new_attribute=new))
    if f == 'del':
        cur = None
        if st.get('cur') is not None:
            n, v = st['cur']
            cur = cobjects.CurrentAttribute(attribute=py_value(n, v))
        ref = None
        if st.get('ref') is not None:
            ref = cobjects.AttributeReference(vendor_identification='PyKMIP', attribute_name=st['ref'])
        return (OP.DELETE_ATTRIBUTE, payloads.DeleteAttributeRequestPayload(
            unique_identifier=uid, attribute_name=st.get('name'), attribute_index=st.get('idx'),
            current_attribute=cur, attribute_reference=ref))
    if f == 'set':
        n, v = st['new']
        return (OP.SET_ATTRIBUTE, payloads.SetAttributeRequestPayload(
            unique_identifier=uid, new_attribute=cobjects.NewAttribute(attribute=py_value(n, v))))
    raise ValueError(f)


def coq_tagged(p):
    if p is None:
        return 'None'
    n, v = p
    return '(Some (%s, %s))' % (cp.option(n, cp.string), jv_coq(v))


def coq_req(st):
    f = st['form']
    if f == 'mod':
        attr = 'None'
        if st.get('attr') is not None:
            n, idx, v = st['attr']
            attr = '(Some (%s, %s, %s))' % (cp.string(n), cp.option(idx, cp.z), jv_coq(v))
        cur = 'None' if st.get('cur') is None else coq_tagged([cur_name_of(st), st['cur']])
        return '(RModify (mkMod %s %s %s))' % (attr, cur, coq_tagged(st.get('new')))
    if f == 'del':
        return '(RDelete (mkDel %s %s %s %s))' % (cp.option(st.get('name'), cp.string), cp.option(st.get('idx'), cp.z),
                                                 coq_tagged(st.get('cur')), cp.option(st.get('ref'), cp.string))
    if f == 'set':
        return '(RSet %s)' % coq_tagged(st.get('new'))
    raise ValueError(f)


# ---------------------------------------------------------------------- observation of the real store
def observe_object(eng, uid, owner):
    """GetAttributes (no name list) as the owner under KMIP 1.4 -> (record, [(name, instances)])."""
    r = eng.request([kdrv.get_attributes(uid)], version=OBS_VER, user=owner)
    it = r['items'][0] if r['items'] else None
    if it is None or not kdrv.ok(it):
        raise RuntimeError('GetAttributes failed for object %s as %r: %r' % (uid, owner, r['error'] or (it['reason'], it['message'])))
    o = {'uid': int(uid), 'owner': owner, 'type': None, 'state': None, 'policy': '', 'mask': None, 'alg': None, 'len': None,
         'init': 0, 'certtype': None, 'names': [], 'groups': [], 'asi': [], 'sens': False, 'extra': []}
    view = []
    for a in it['raw'].response_payload.attributes:
        n = a.attribute_name.value
        v = a.attribute_value
        if view and view[-1][0] == n:
            view[-1][1] += 1
        else:
            view.append([n, 1])
        if n == 'Unique Identifier':
            if str(v.value) != str(uid):
                raise RuntimeError('GetAttributes of %s reports Unique Identifier %r' % (uid, v.value))
        elif n == 'Name':
            o['names'].append(v.name_value.value)
        elif n == 'Object Group':
            o['groups'].append(v.value)
        elif n == 'Application Specific Information':
            o['asi'].append([v.application_namespace, v.application_data])
        elif n == 'Object Type':
            o['type'] = v.value.value
        elif n == 'State':
            o['state'] = v.value.value
        elif n == 'Operation Policy Name':
            o['policy'] = v.value
        elif n == 'Cryptographic Usage Mask':
            o['mask'] = v.value
        elif n == 'Cryptographic Algorithm':
            o['alg'] = v.value.value
        elif n == 'Cryptographic Length':
            o['len'] = v.value
        elif n == 'Initial Date':
            o['init'] = v.value
        elif n == 'Certificate Type':
            o['certtype'] = v.value.value
        elif n == 'Sensitive':
            o['sens'] = bool(v.value)
        else:
            o['extra'].append(n)
    return o, [tuple(x) for x in view]


def owners_of(dump):
    return {str(r['uid']): r['owner'] for r in dump.get('managed_objects', [])}


def observe(eng, dump=None):
    dump = dump if dump is not None else eng.dump()
    recs, views = [], []
    for uid, owner in sorted(owners_of(dump).items(), key=lambda kv: int(kv[0])):
        o, v = observe_object(eng, uid, owner)
        recs.append(o)
        views.append(v)
    return recs, views


def protected_from_dump(dump):
    """uid -> protected attributes read straight from the SQL tables (independent of GetAttributes)."""
    out = {}
    for r in dump.get('managed_objects', []):
        out[r['uid']] = {'uid': r['uid'], 'object_type': r['object_type'], 'owner': r['owner'],
                         'operation_policy_name': r['operation_policy_name'], 'initial_date': r['initial_date']}
    for r in dump.get('crypto_objects', []):
        if r['uid'] in out:      # Destroy leaves orphaned child rows behind
            out[r['uid']].update({'state': r['state'], 'cryptographic_usage_mask': r['cryptographic_usage_mask']})
    for r in dump.get('keys', []):
        if r['uid'] in out:
            out[r['uid']].update({'cryptographic_algorithm': r['cryptographic_algorithm'], 'cryptographic_length': r['cryptographic_length']})
    return out


def coq_obj(o):
    t = lambda s: '(VText %s)' % cp.string(s)
    return '(mkObj %s %s %s %s %s %s %s %s %s %s %s %s %s %s)' % (
        cp.z(o['uid']), cp.z(o['type']), cp.option(o['state'], cp.z), cp.string(o['owner'] or ''), cp.string(o['policy']),
        cp.option(o['mask'], cp.z), cp.option(o['alg'], cp.z), cp.option(o['len'], cp.z), cp.z(o['init']), cp.option(o['certtype'], cp.z),
        cp.lst(o['names'], t), cp.lst(o['groups'], t),
        cp.lst(o['asi'], lambda a: '(VAsi %s %s)' % (cp.string(a[0]), cp.string(a[1]))), cp.boolean(o['sens']))


def coq_store(recs):
    return cp.lst(recs, coq_obj)


def coq_views(views):
    return cp.lst(views, lambda v: cp.lst(v, lambda p: '(%s, %s)' % (cp.string(p[0]), cp.nat(p[1]))))


# ---------------------------------------------------------------------- setup and other operations
TYPES = {t.name: t for t in kdrv.STORED_TYPES}


def make_object(eng, spec, ver=None):
    """spec: {'type', 'user', 'names', 'groups', 'asi', 'sens', 'mask', 'via'} -> uid (str) or None."""
    ot = TYPES[spec['type']]
    attrs = []
    if spec.get('via') == 'create':
        attrs = kdrv.sym_attrs(enums.CryptographicAlgorithm.AES, 256, None)
    if spec.get('mask') is not None and ot != OT.OPAQUE_DATA:
        attrs.append(kdrv.attr(AT.CRYPTOGRAPHIC_USAGE_MASK, [e for e in enums.CryptographicUsageMask if e.value & spec['mask']]))
    for i, n in enumerate(spec.get('names', [])):
        attrs.append(kdrv.attr(AT.NAME, kdrv.name_value(n), i))
    for i, g in enumerate(spec.get('groups', [])):
        attrs.append(kdrv.attr(AT.OBJECT_GROUP, g, i))
    for i, a in enumerate(spec.get('asi', [])):
        attrs.append(kdrv.attr(AT.APPLICATION_SPECIFIC_INFORMATION, {'application_namespace': a[0], 'application_data': a[1]}, i))
    if spec.get('sens') is not None:
        attrs.append(kdrv.attr(AT.SENSITIVE, spec['sens']))
    if spec.get('via') == 'create':
        item = kdrv.create(attrs=attrs)
    else:
        item = kdrv.register(ot, attrs=attrs)
    r = eng.request([item], version=tuple(ver or spec.get('ver') or OBS_VER), user=spec['user'])
    it = r['items'][0] if r['items'] else None
    if it is None or not kdrv.ok(it):
        return None
    return kdrv.first_uid(it)


def do_other(eng, st):
    w = st['what']
    if w == 'activate':
        eng.request([kdrv.activate(st['uid'])], version=(1, 2), user=st['user'])
    elif w == 'revoke':
        eng.request([kdrv.revoke(st['uid'], code=enums.RevocationReasonCode(st.get('code', 5)))], version=(1, 2), user=st['user'])
    elif w == 'destroy':
        eng.request([kdrv.destroy(st['uid'])], version=(1, 2), user=st['user'])
    elif w == 'new':
        make_object(eng, st['spec'])
    elif w == 'get':
        eng.request([kdrv.get_attributes(st['uid'])], version=(1, 2), user=st['user'])
    elif w == 'tick':
        eng.clock.t += st.get('dt', 7)
    elif w == 'restart':
        eng.restart()
    else:
        raise ValueError(w)


# ---------------------------------------------------------------------- reference semantics for the direct oracle
MULTI = {'Name': 'names', 'Object Group': 'groups', 'Application Specific Information': 'asi'}


def jv_plain(v):
    return v[1] if v[0] != 'A' else [v[1], v[2]]


SINGLE = {'Sensitive': 'sens', 'Cryptographic Length': 'len', 'Cryptographic Algorithm': 'alg', 'Cryptographic Usage Mask': 'mask',
          'Operation Policy Name': 'policy', 'State': 'state', 'Object Type': 'type', 'Initial Date': 'init',
          'Certificate Type': 'certtype'}


def expected_after_success(st, ver, pre_obj):
    """What the property demands of a successful call: (field, content of that field afterwards), or a text explaining why
    this success cannot be exact (no instance is addressed / GetAttributes cannot reflect it).  Written from the property
    text, not from the engine code.  A success on a protected attribute is judged like any other: the field must hold the
    requested value - and the separate protected-attributes check fires when that differs from the value before."""
    f = st['form']
    v2 = ver >= V2

    def single(n, v):
        if n in SINGLE:
            return (SINGLE[n], jv_plain(v))
        return 'success on %r, which GetAttributes does not reflect' % n
    if f == 'set':
        n, v = st['new']
        if n in MULTI:
            return 'SetAttribute succeeded on the multi-valued attribute %r without addressing an instance' % n
        return single(n, v)
    if f == 'mod':
        if v2:
            n, v = st['new']
            cur = st.get('cur')
        else:
            n, idx, v = st['attr']
            cur = None
        if v2 and cur is not None and cur_name_of(st) != n:
            return 'ModifyAttribute succeeded with a current attribute of another kind (%r) than the new one (%r)' % (cur_name_of(st), n)
        if n not in MULTI:
            if v2 and cur is not None and n in SINGLE and jv_plain(cur) != pre_obj[SINGLE[n]]:
                return 'ModifyAttribute succeeded although the current value given is not the stored one'
            return single(n, v)
        fld = MULTI[n]
        lst = list(pre_obj[fld])
        if v2:
            if cur is None or jv_plain(cur) not in lst:
                return 'ModifyAttribute succeeded without an existing current value'
            i = lst.index(jv_plain(cur))
        else:
            i = idx or 0
            if not (0 <= i < len(lst)):
                return 'ModifyAttribute succeeded with index %r on %d instances' % (idx, len(lst))
        lst[i] = jv_plain(v)
        return (fld, lst)
    if f == 'del':
        if v2:
            if st.get('cur') is not None:
                n, v = st['cur']
                if n not in MULTI:
                    return (SINGLE[n], None) if n in SINGLE else 'DeleteAttribute succeeded on %r, which GetAttributes does not reflect' % n
                lst = list(pre_obj[MULTI[n]])
                if jv_plain(v) not in lst:
                    return 'DeleteAttribute succeeded for a value that is not there'
                lst.remove(jv_plain(v))
                return (MULTI[n], lst)
            n = st.get('ref')
            if n not in MULTI:
                return (SINGLE[n], None) if n in SINGLE else 'DeleteAttribute succeeded on %r, which GetAttributes does not reflect' % n
            return (MULTI[n], [])
        n = st.get('name')
        if n not in MULTI:
            return (SINGLE[n], None) if n in SINGLE else 'DeleteAttribute succeeded on %r, which GetAttributes does not reflect' % n
        lst = list(pre_obj[MULTI[n]])
        i = st.get('idx') or 0
        if not (0 <= i < len(lst)):
            return 'DeleteAttribute succeeded with index %r on %d instances' % (st.get('idx'), len(lst))
        del lst[i]
        return (MULTI[n], lst)
    raise ValueError(f)


FIELDS = ['uid', 'owner', 'type', 'state', 'policy', 'mask', 'alg', 'len', 'init', 'certtype', 'names', 'groups', 'asi', 'sens', 'extra']


def sig_of(st, ver, kind):
    f = st['form']
    name = None
    if f == 'mod':
        name = (st['new'][0] if st.get('new') else None) if ver >= V2 else (st['attr'][0] if st.get('attr') else None)
    elif f == 'del':
        name = ((st['cur'][0] if st.get('cur') else st.get('ref')) if ver >= V2 else st.get('name'))
    elif f == 'set':
        name = st['new'][0] if st.get('new') else None
    sig = {'op': {'mod': 'MODIFY_ATTRIBUTE', 'del': 'DELETE_ATTRIBUTE', 'set': 'SET_ATTRIBUTE'}[f],
           'form': '2.0' if ver >= V2 else '1.x', 'attribute': name, 'kind': kind}
    if f == 'del' and ver >= V2 and st.get('cur') is not None:
        sig['current_value'] = jv_plain(st['cur'][1])
    return sig


_WEAK = [0]
STRONG = ('attribute-not-in-version', 'protected-changed', 'failure-changed-store', 'failed-batch-item-left-trace', 'failed-batch-item-changed-store',
          'other-object-changed', 'inexact-effect')


def strong_found(ctx):
    return any(v['signature'].get('kind') in STRONG for v in ctx.violations)


def oracle_step(ctx, hist, k, st, ver, status_ok, reason, pre, post, pre_dump, post_dump, resp_item):
    """The property itself on the implementation: returns the number of violations reported."""
    n = 0
    wit = {'history': hist if hist.get('kind') != 'length' else {'length_history': hist['desc']}, 'failing_step': k, 'step': short(st),
           'result': 'SUCCESS' if status_ok else reason}
    # 1. protected attributes of every object, read from the SQL tables
    pp, pq = protected_from_dump(pre_dump), protected_from_dump(post_dump)
    if pp != pq:
        diff = {u: (pp.get(u), pq.get(u)) for u in set(pp) | set(pq) if pp.get(u) != pq.get(u)}
        ctx.violation(sig_of(st, ver, 'protected-changed'), dict(wit, diff=diff),
                      'a protected attribute changed through %s' % st['form'])
        n += 1
    # 2. an unsuccessful call changes nothing (whole database)
    if not status_ok:
        if pre_dump != post_dump:
            tabs = [t for t in set(pre_dump) | set(post_dump) if pre_dump.get(t) != post_dump.get(t)]
            ctx.violation(sig_of(st, ver, 'failure-changed-store'), dict(wit, tables=tabs),
                          'an unsuccessful %s call changed the store' % st['form'])
            n += 1
        return n
    # 3a. a client of protocol version v can change only attributes that exist in v (rule table: version added / deprecated)
    nm = sig_of(st, ver, '')['attribute']
    if nm is not None and not in_version(nm, ver):
        ctx.violation(sig_of(st, ver, 'attribute-not-in-version'), wit,
                      '%s succeeded on %r, which KMIP %d.%d does not have according to the rule table' % (st['form'], nm, ver[0], ver[1]))
        n += 1
    # 3. success: exactly the addressed instance
    uid = st['uid']
    pre_by = {str(o['uid']): o for o in pre}
    post_by = {str(o['uid']): o for o in post}
    if set(pre_by) != set(post_by):
        ctx.violation(sig_of(st, ver, 'objects-appeared-or-vanished'), wit, 'the set of objects changed')
        return n + 1
    for u in pre_by:
        if u != str(uid) and pre_by[u] != post_by[u]:
            ctx.violation(sig_of(st, ver, 'other-object-changed'), dict(wit, other=u, before=pre_by[u], after=post_by[u]),
                          'a successful call changed another object')
            n += 1
    if str(uid) not in pre_by:
        ctx.violation(sig_of(st, ver, 'success-without-object'), wit, 'success on an object that does not exist')
        return n + 1
    exp = expected_after_success(st, ver, pre_by[str(uid)])

    def symptom(sig):
        # a value-addressed deletion that took the delete-all path (collection empty afterwards, yet not by removing exactly the one equal instance)
        if st['form'] == 'del' and ver >= V2 and st.get('cur') is not None and st['cur'][0] in MULTI:
            fld0 = MULTI[st['cur'][0]]
            before = pre_by[str(uid)][fld0]
            if post_by[str(uid)][fld0] == [] and before != [jv_plain(st['cur'][1])]:     # not "exactly that one removed"
                sig['symptom'] = 'all-instances-removed'
        return sig
    if isinstance(exp, str):
        if _WEAK[0] < 10:      # leave room in the (capped) violation list for the stronger kinds
            if ctx.violation(symptom(sig_of(st, ver, 'no-exact-effect-possible')),
                             dict(wit, before=pre_by[str(uid)], after=post_by[str(uid)]), exp) == 'new':
                _WEAK[0] += 1
        return n + 1
    fld, content = exp
    want = dict(pre_by[str(uid)])
    want[fld] = content
    if want != post_by[str(uid)]:
        d = {f: (short(want[f]), short(post_by[str(uid)][f])) for f in FIELDS if want[f] != post_by[str(uid)][f]}
        ctx.violation(symptom(sig_of(st, ver, 'inexact-effect')), dict(wit, expected_vs_observed=d),
                      'a successful call did not change exactly the addressed instance to the requested value')
        n += 1
    # 4. the 1.x responses echo the modified / deleted instance
    if ver < V2 and resp_item is not None:
        a = getattr(resp_item['raw'].response_payload, 'attribute', None)
        if a is not None and st['form'] in ('mod', 'del'):
            name = st['attr'][0] if st['form'] == 'mod' else st['name']
            if a.attribute_name.value != name:
                ctx.violation(sig_of(st, ver, 'response-attribute'), wit, 'the response names another attribute')
                n += 1
    return n


# ---------------------------------------------------------------------- running one history
_TEMPLATE = {}
_COUNTER = [0]


def fresh_engine(workdir):
    """A real KmipEngine on its own SQLite file; the empty schema is created once and copied (DDL is the slow part)."""
    import os
    key = str(workdir)
    if key not in _TEMPLATE:
        e = kdrv.Engine(workdir=workdir)
        e.engine._data_store.dispose()
        _TEMPLATE[key] = e.path
    _COUNTER[0] += 1
    path = os.path.join(key, 'h%06d.db' % _COUNTER[0])
    shutil.copyfile(_TEMPLATE[key], path)
    return kdrv.Engine(path=path)


def run_history(ctx, hist, workdir, check=True, coq=True):
    """Execute an abstract history on a fresh real engine.  Returns (coq_case or None, meta).
    hist['create_ver']: protocol version of the creating requests (the FIRST requests the engine object serves);
    coq=False: direct oracle only (values that cannot be written as Coq string literals)."""
    global coq_store, coq_views
    if not coq:
        keep = (coq_store, coq_views)
        coq_store = coq_views = lambda x: ''
    eng = fresh_engine(workdir)
    try:
        for spec in hist['objects']:
            make_object(eng, spec, hist.get('create_ver'))
        dump = eng.dump()
        pre, views = observe(eng, dump)
        if check:
            # creation reflects the requested values exactly (GetAttributes in a separate request)
            for spec, o in zip(hist['objects'], pre):
                got = {'names': o['names'], 'groups': o['groups'], 'asi': o['asi']}
                want = {'names': list(spec.get('names', [])), 'groups': list(spec.get('groups', [])), 'asi': [list(a) for a in spec.get('asi', [])]}
                if len(hist['objects']) == len(pre) and got != want:
                    d = {f: (short(want[f]), short(got[f])) for f in want if want[f] != got[f]}
                    ctx.violation({'op': 'REGISTER' if spec.get('via') != 'create' else 'CREATE', 'kind': 'inexact-effect',
                                   'attribute': sorted(d)[0]},
                                  {'history': short(hist), 'object': short(spec), 'expected_vs_observed': d},
                                  'GetAttributes after creation does not report exactly the requested attribute values')
        steps_coq = []
        store0 = coq_store(pre)
        meta = {'results': [], 'violations': 0}
        for k, st in enumerate(hist['steps']):
            if st['k'] == 'other':
                before_other = pre
                do_other(eng, st)
                dump = eng.dump()
                pre, views = observe(eng, dump)
                if check and st['what'] in ('restart', 'get', 'tick') and pre != before_other:
                    # a reload (new engine, new data session) or a read shows something else than the requests before it
                    # left behind: an earlier "successful" change was never committed, or a refused one was
                    last = [x for x in hist['steps'][:k] if x['k'] == 'attr'][-1:] or [st]
                    ctx.violation(sig_of(last[0], tuple(last[0]['ver']), 'inexact-effect') if last[0]['k'] == 'attr'
                                  else {'kind': 'inexact-effect', 'op': st['what']},
                                  {'history': hist, 'failing_step': k, 'step': st, 'before': before_other, 'after': pre},
                                  'the store observed after %s differs from the one the preceding requests left' % st['what'])
                    meta['violations'] += 1
                steps_coq.append('(KOther %s)' % coq_store(pre))
                meta['results'].append(st['what'])
                continue
            ver = tuple(st['ver'])
            item = build_item(st)
            r = eng.request([item], version=ver, user=st['user'])
            if r['error'] is not None:
                okk, reason, it = False, r['error']['reason'], None
            else:
                it = r['items'][0]
                okk, reason = kdrv.ok(it), it['reason']
            post_dump = eng.dump()
            same = (post_dump == dump)
            if same:     # GetAttributes is a function of the database: nothing to re-read
                post, pviews = pre, views
            else:
                post, pviews = observe(eng, post_dump)
            meta['results'].append('SUCCESS' if okk else reason)
            ctx.count('%s.%s.%s' % (st['form'], '2.0' if ver >= V2 else '1.x', 'SUCCESS' if okk else reason))
            if check:
                meta['violations'] += oracle_step(ctx, hist, k, st, ver, okk, reason, pre, post, dump, post_dump, it)
            uid = st['uid']
            head = '' if not coq else '(%s, %s) %s %s %s %s' % (
                cp.z(ver[0]), cp.z(ver[1]), cp.string(st['user']),
                cp.option(int(uid) if uid is not None else None, cp.z), coq_req(st), cp.string('' if okk else reason))
            if same:
                steps_coq.append('(KAttrSame %s)' % head)
            else:
                steps_coq.append('(KAttr %s %s %s)' % (head, coq_store(post), coq_views(pviews)))
            pre, dump, views = post, post_dump, pviews
        return ('(%s, %s)' % (store0, cp.lst(steps_coq, lambda x: x)) if coq else None), meta
    finally:
        eng.close()
        if not coq:
            coq_store, coq_views = keep


# ---------------------------------------------------------------------- generators
def base_objects(rng, otype, rich=True):
    """The addressed object (type otype, owner alice) plus two bystanders."""
    def spec(t, user, k):
        return {'type': t, 'user': user, 'via': 'register',
                'names': [POOL[(k + i) % 5] for i in range(rng.choice([2, 3]) if rich else 0)],
                'groups': [POOL[(k + 2 * i + 1) % 5] for i in range(rng.choice([2, 3]) if rich else 0)],
                'asi': [list(ASI_POOL[(k + i) % 5]) for i in range(rng.choice([2, 3]) if rich else 0)],
                'sens': None, 'mask': 12}
    other = rng.choice([t for t in TYPES if t != otype])
    return [spec(otype, 'alice', 0), spec(other, 'alice', 1), spec('SYMMETRIC_KEY', 'bob', 2)]


IDX_CLASSES = [None, 0, 1, 7, -1]


def grid_history(rng, name, otype, ver1):
    """Every request form and index class for one attribute name on one object type (object 1), in both protocol forms."""
    objs = base_objects(rng, otype)
    steps = []
    o0 = {'names': objs[0]['names'], 'groups': objs[0]['groups'], 'asi': objs[0]['asi'], 'sens': False, 'policy': 'default',
          'mask': 12 if otype != 'OPAQUE_DATA' else None, 'alg': None, 'len': None, 'state': 1, 'type': TYPES[otype].value, 'init': 1600000000}

    def A(**kw):
        kw.setdefault('user', 'alice')
        kw.setdefault('uid', '1')
        kw['k'] = 'attr'
        steps.append(kw)
    n2 = UNLISTED if name == BOGUS else name
    # 2.0 forms first (non-matching, then matching current values), then 1.x index forms
    A(form='set', ver=V2, new=[n2, value_for(name, rng)])
    A(form='mod', ver=V2, new=[n2, value_for(name, rng)], cur=None)
    A(form='mod', ver=V2, new=[n2, value_for(name, rng)], cur=['T', 'zz'] if name not in ('Application Specific Information', 'Sensitive') else
      (['A', 'zz', 'zz'] if name != 'Sensitive' else ['B', True]))
    cv = current_value_of(name, o0, rng)
    if cv is not None:
        A(form='mod', ver=V2, new=[n2, value_for(name, rng)], cur=cv)
    A(form='del', ver=V2, cur=[n2, ['T', 'zz'] if name != 'Application Specific Information' else ['A', 'zz', 'zz']])
    if cv is not None:
        A(form='del', ver=V2, cur=[n2, current_value_of(name, dict(o0, names=o0['names'][-1:], groups=o0['groups'][-1:], asi=o0['asi'][-1:]), rng)])
    for idx in IDX_CLASSES:
        A(form='mod', ver=ver1, attr=[name, idx, value_for(name, rng)])
    if name in VERSION_SENSITIVE:
        # the rule table makes the outcome depend on the protocol version: every 1.x version, index absent
        for v in V1:
            if v != ver1:
                A(form='mod', ver=v, attr=[name, None, value_for(name, rng)])
                A(form='del', ver=v, name=name, idx=None)
    for idx in [7, -1, 1, None, 0]:
        A(form='del', ver=ver1, name=name, idx=idx)
    if name == 'Name':
        A(form='del', ver=V2, cur=['Name', ['T', '']])          # empty current value: addresses no instance here
    A(form='del', ver=V2, ref=n2)
    A(form='set', ver=ver1, new=[n2, value_for(name, rng)])
    return {'objects': objs, 'steps': steps}


def odd_history(rng):
    """Malformed / cross-form requests, absent and foreign identifiers, tags that are no attributes."""
    objs = base_objects(rng, rng.choice(list(TYPES)))
    steps = []

    def A(**kw):
        kw.setdefault('user', 'alice')
        kw.setdefault('uid', '1')
        kw['k'] = 'attr'
        steps.append(kw)
    v1 = rng.choice(V1)
    A(form='del', ver=v1, name=None, idx=None)                       # no attribute name
    A(form='del', ver=v1, name='', idx=0)
    A(form='del', ver=V2)                                             # neither current attribute nor reference
    A(form='del', ver=V2, name='Name', idx=0)                         # 1.x fields under 2.0
    A(form='del', ver=v1, ref='Name')                                 # 2.0 fields under 1.x
    # (a tag that is no attribute cannot be put into New/CurrentAttribute: their setters and the decoder reject it)
    A(form='mod', ver=V2, attr=['Name', 0, ['T', 'q']])               # 1.x fields under 2.0
    A(form='mod', ver=v1, new=['Name', ['T', 'q']], cur=['T', 'a'])   # 2.0 fields under 1.x
    # Current Attribute and New Attribute of different kinds (values present on the object, so a lookup would succeed)
    g0, n0, a0 = objs[0]['groups'][0], objs[0]['names'][0], objs[0]['asi'][0]
    for cn, cv, nn, nv in [('Object Group', ['T', g0], 'Name', ['T', 'q']), ('Name', ['T', n0], 'Object Group', ['T', 'q']),
                           ('Application Specific Information', ['A', a0[0], a0[1]], 'Name', ['T', 'q']),
                           ('Name', ['T', n0], 'Application Specific Information', ['A', 'n', 'd']),
                           ('Sensitive', ['B', False], 'Name', ['T', 'q']), ('Name', ['T', n0], 'Sensitive', ['B', True]),
                           ('Object Group', ['T', g0], 'State', ['I', 2]), ('State', ['I', 1], 'Object Group', ['T', 'q']),
                           (UNLISTED, ['T', 'x'], 'Name', ['T', 'q']), ('Name', ['T', n0], UNLISTED, ['T', 'x'])]:
        A(form='mod', ver=V2, new=[nn, nv], cur=cv, cur_name=cn)
        A(form='mod', ver=v1, new=[nn, nv], cur=cv, cur_name=cn)          # and under 1.x, where these fields are not read
    for uid, user in [(None, 'alice'), ('999', 'alice'), ('3', 'alice'), ('1', 'bob'), ('1', 'carol')]:
        A(form='mod', ver=v1, attr=['Name', 0, ['T', 'q']], uid=uid, user=user)
        A(form='del', ver=v1, name='Object Group', idx=0, uid=uid, user=user)
        A(form='set', ver=V2, new=['Sensitive', ['B', True]], uid=uid, user=user)
        A(form='mod', ver=V2, new=['Name', ['T', 'q']], cur=['T', objs[0]['names'][0]], uid=uid, user=user)
        A(form='del', ver=V2, ref='Application Specific Information', uid=uid, user=user)
    A(form='mod', ver=v1, attr=['Name', 0, ['T', 'q']], uid='3', user='bob')
    return {'objects': objs, 'steps': steps}


CHANGEABLE = ['Name', 'Object Group', 'Application Specific Information', 'Sensitive']


def sensitive_history(otype):
    """Every operation x protocol version on the one single-valued attribute a client can change, each real change on an
    object of its own, each followed by a reload (new engine + data session on the same database).  Deterministic."""
    def spec(t, user, sens):
        return {'type': t, 'user': user, 'via': 'register', 'names': ['a'], 'groups': ['g'], 'asi': [], 'sens': sens, 'mask': 12}
    objs = [spec(otype, 'alice', None), spec(otype, 'alice', False), spec(otype, 'alice', None), spec(otype, 'bob', True)]
    steps = []

    def A(**kw):
        kw.setdefault('user', 'alice')
        kw.setdefault('uid', '1')
        kw['k'] = 'attr'
        steps.append(kw)

    def reload():
        steps.append({'k': 'other', 'what': 'restart', 'uid': '1', 'user': 'alice'})
    for v in V1:                                  # only 1.4 knows the attribute: that one really sets the flag
        A(form='mod', ver=v, attr=['Sensitive', None, ['B', True]])
        A(form='del', ver=v, name='Sensitive', idx=None)
        A(form='set', ver=v, new=['Sensitive', ['B', True]])
    reload()
    A(form='mod', ver=(1, 4), attr=['Sensitive', None, ['B', False]])          # refused: cannot clear
    A(form='mod', ver=(1, 4), attr=['Sensitive', None, ['B', True]])           # no change
    A(form='mod', ver=(1, 4), attr=['Sensitive', 0, ['B', True]])              # index on a single-valued attribute
    reload()
    A(form='set', ver=V2, new=['Sensitive', ['B', False]], uid='2')            # False on False
    A(form='set', ver=V2, new=['Sensitive', ['B', True]], uid='2')
    reload()
    A(form='mod', ver=V2, new=['Sensitive', ['B', True]], cur=['B', True], uid='3')      # current value does not match
    A(form='mod', ver=V2, new=['Sensitive', ['B', True]], cur=['B', False], uid='3')
    reload()
    A(form='mod', ver=V2, new=['Sensitive', ['B', False]], cur=None, uid='4', user='bob')  # refused
    A(form='set', ver=V2, new=['Sensitive', ['B', False]], uid='4', user='bob')
    A(form='mod', ver=(1, 4), attr=['Sensitive', None, ['B', False]], uid='4', user='bob')
    A(form='del', ver=V2, cur=['Sensitive', ['B', True]], uid='4', user='bob')
    A(form='del', ver=V2, ref='Sensitive', uid='4', user='bob')
    A(form='del', ver=(1, 4), name='Sensitive', idx=0, uid='4', user='bob')
    reload()
    return {'objects': objs, 'steps': steps}


LENGTHS = [0, 1, 254, 255, 256, 257, 1023, 1024, 1025, 4096, 65536]


def text_of(length, charset, salt):
    """Deterministic text of exactly `length` characters; 'utf8' mixes 1-, 2- and 3-byte characters so that byte and
    character counts differ."""
    unit = ('e\u00e9\u20acx%s' if charset == 'utf8' else 'abcx%s') % salt
    return (unit * (length // len(unit) + 1))[:length]


def length_history(field, form, charset, otype):
    """One text-valued changeable attribute driven through every length boundary by ModifyAttribute (1.x index form or 2.0
    current/new form), and the same values at creation (second object).  Direct oracle only."""
    vals = [text_of(L, charset, field[0]) for L in LENGTHS]

    def jv(t):
        if field == 'namespace':
            return ['A', t, 'd']
        if field == 'data':
            return ['A', 'ns', t]
        return ['T', t]
    name = {'name': 'Name', 'group': 'Object Group', 'namespace': 'Application Specific Information',
            'data': 'Application Specific Information'}[field]
    fld = MULTI[name]
    o1 = {'type': otype, 'user': 'alice', 'via': 'register', 'names': ['a', 'b'], 'groups': ['g', 'h'],
          'asi': [['ns0', 'd0'], ['ns1', 'd1']], 'sens': None, 'mask': 12}
    # creation with three of the boundary values at once (rotating), the rest of the menu via Modify
    o2 = dict(o1, user='alice')
    pick = [vals[i] for i in (3, 4, 10)] if form == 'mod1' else [vals[i] for i in (1, 5, 8)]
    o2[fld] = [jv_plain(jv(t)) for t in pick] if fld != 'names' or all(pick) else [jv_plain(jv(t)) for t in pick if t]
    steps = []
    cur = jv_plain(jv('b' if field == 'name' else 'h')) if field in ('name', 'group') else ['ns1', 'd1']
    for t in vals:
        new = jv(t)
        if form == 'mod1':
            steps.append({'k': 'attr', 'form': 'mod', 'ver': [1, 2], 'user': 'alice', 'uid': '1', 'attr': [name, 1, new]})
        else:
            steps.append({'k': 'attr', 'form': 'mod', 'ver': [2, 0], 'user': 'alice', 'uid': '1', 'new': [name, new],
                          'cur': (['A'] + cur) if isinstance(cur, list) else ['T', cur]})
        cur = jv_plain(new)
    steps.append({'k': 'other', 'what': 'restart', 'uid': '1', 'user': 'alice'})
    return {'kind': 'length', 'desc': {'field': field, 'form': form, 'charset': charset, 'type': otype, 'lengths': LENGTHS},
            'objects': [o1, o2], 'steps': steps}


def mixed_version_history(low_first, otype):
    """ONE engine object serving traffic on both sides of the 1.4 boundary (Sensitive exists from 1.4 on), in both orders:
    low_first: the objects are created and first looked at under KMIP 1.2, then 1.4 / 2.0 requests follow;
    otherwise creation and the first lookups run under 1.4 and 1.0-1.3 requests follow.  After a restart the other order."""
    def spec(user):
        return {'type': otype, 'user': user, 'via': 'register', 'names': ['a'], 'groups': ['g'], 'asi': [], 'sens': None, 'mask': 12}
    objs = [spec('alice'), spec('alice'), spec('alice'), spec('alice')]
    steps = []

    def A(**kw):
        kw.setdefault('user', 'alice')
        kw['k'] = 'attr'
        steps.append(kw)

    def low(uid):
        for v in ((1, 2), (1, 0), (1, 3)):
            A(form='mod', ver=v, attr=['Sensitive', None, ['B', True]], uid=uid)
            A(form='del', ver=v, name='Sensitive', idx=None, uid=uid)
        A(form='mod', ver=(1, 2), attr=['Name', 0, ['T', 'n' + uid]], uid=uid)

    def high(uid_a, uid_b):
        A(form='set', ver=V2, new=['Sensitive', ['B', True]], uid=uid_a)
        A(form='mod', ver=(1, 4), attr=['Sensitive', None, ['B', True]], uid=uid_b)
        A(form='mod', ver=V2, new=['Sensitive', ['B', True]], cur=['B', True], uid=uid_a)
        A(form='del', ver=(1, 4), name='Sensitive', idx=None, uid=uid_a)
    if low_first:
        steps.append({'k': 'other', 'what': 'get', 'uid': '1', 'user': 'alice'})      # GetAttributes under KMIP 1.2
        low('1')
        high('1', '2')
        low('3')
        steps.append({'k': 'other', 'what': 'restart', 'uid': '1', 'user': 'alice'})
        high('3', '4')
        low('4')
    else:
        high('1', '2')
        low('3')
        high('3', '4')
        steps.append({'k': 'other', 'what': 'restart', 'uid': '1', 'user': 'alice'})
        steps.append({'k': 'other', 'what': 'get', 'uid': '1', 'user': 'alice'})
        low('4')
        high('4', '4')
    h = {'objects': objs, 'steps': steps}
    if low_first:
        h['create_ver'] = [1, 2]
    return h


def shared_history(rng, otype):
    """Objects created in separate requests with the SAME group names, application specific information and names; every
    changing form on object 1 (and then on object 3, another owner); GetAttributes of the others is read after every step."""
    def spec(t, user):
        return {'type': t, 'user': user, 'via': 'register', 'names': ['a', 'b'], 'groups': ['g', 'h'],
                'asi': [['ns0', 'd0'], ['ns1', 'd1']], 'sens': None, 'mask': 12}
    objs = [spec(otype, 'alice'), spec(rng.choice(list(TYPES)), 'alice'), spec('SYMMETRIC_KEY', 'bob')]
    steps = []

    def A(**kw):
        kw.setdefault('user', 'alice')
        kw.setdefault('uid', '1')
        kw['k'] = 'attr'
        steps.append(kw)
    v1 = rng.choice(V1)
    A(form='mod', ver=v1, attr=['Object Group', 0, ['T', 'renamed']])
    steps.append({'k': 'other', 'what': 'get', 'uid': '2', 'user': 'alice'})
    A(form='mod', ver=V2, new=['Object Group', ['T', 'renamed2']], cur=['T', 'h'])
    A(form='mod', ver=v1, attr=['Application Specific Information', 1, ['A', 'nsX', 'dX']])
    A(form='mod', ver=V2, new=['Application Specific Information', ['A', 'nsY', 'dY']], cur=['A', 'ns0', 'd0'])
    A(form='mod', ver=v1, attr=['Name', 0, ['T', 'z']])
    A(form='mod', ver=V2, new=['Name', ['T', 'y']], cur=['T', 'b'])
    A(form='del', ver=v1, name='Object Group', idx=1, uid='3', user='bob')
    A(form='del', ver=V2, cur=['Application Specific Information', ['A', 'ns1', 'd1']], uid='3', user='bob')
    A(form='del', ver=V2, cur=['Name', ['T', 'a']], uid='3', user='bob')
    A(form='del', ver=V2, ref='Object Group', uid='2')
    A(form='del', ver=v1, name='Application Specific Information', idx=None, uid='2')
    A(form='set', ver=V2, new=['Sensitive', ['B', True]], uid='2')
    return {'objects': objs, 'steps': steps}


def random_history(rng, names, n_steps):
    """Seeded sequence concentrated on the attributes that can really change, interleaved with other operations."""
    kinds = list(TYPES)
    objs = []
    for k in range(rng.choice([2, 3])):
        t = rng.choice(kinds)
        objs.append({'type': t, 'user': rng.choice(['alice', 'alice', 'bob']), 'via': 'register',
                     'names': rng.sample(POOL, rng.choice([0, 1, 2, 3, 4])),
                     'groups': [rng.choice(POOL) for _ in range(rng.choice([0, 1, 2, 3]))],
                     'asi': [list(rng.choice(ASI_POOL)) for _ in range(rng.choice([0, 1, 2, 3]))],
                     'sens': rng.choice([None, None, True, False]), 'mask': rng.choice([12, 12, 3, None])})
    if rng.random() < 0.3:
        objs.append({'type': 'SYMMETRIC_KEY', 'user': 'alice', 'via': 'create', 'names': rng.sample(POOL, 2), 'groups': [], 'asi': [],
                     'sens': None, 'mask': 12})
    # a light simulation of the collections to aim indices and current values at existing instances
    sim = {str(i + 1): {'names': list(o['names']), 'groups': list(o['groups']), 'asi': [list(a) for a in o['asi']],
                        'sens': bool(o['sens']), 'owner': o['user'], 'policy': 'default', 'mask': o['mask'], 'alg': None, 'len': None,
                        'state': None, 'type': TYPES[o['type']].value, 'init': 1600000000} for i, o in enumerate(objs)}
    steps = []
    for _ in range(n_steps):
        p = rng.random()
        uid = rng.choice(list(sim)) if sim else '1'
        o = sim.get(uid)
        user = o['owner'] if o and rng.random() < 0.9 else rng.choice(['alice', 'bob'])
        if p < 0.12:
            w = rng.choice(['activate', 'revoke', 'get', 'tick', 'new', 'restart', 'destroy'])
            st = {'k': 'other', 'what': w, 'uid': uid, 'user': user}
            if w == 'new':
                st['spec'] = {'type': rng.choice(kinds), 'user': rng.choice(['alice', 'bob']), 'via': 'register',
                              'names': rng.sample(POOL, rng.choice([0, 1, 2])), 'groups': [rng.choice(POOL)], 'asi': [], 'sens': None, 'mask': 12}
            if w == 'destroy':
                if rng.random() < 0.5:
                    continue
            steps.append(st)
            if w in ('new', 'destroy', 'revoke', 'activate'):
                # resynchronise the aiming simulation lazily: unknown objects are simply not aimed at
                if w == 'destroy':
                    sim.pop(uid, None)
            continue
        name = rng.choice(CHANGEABLE) if rng.random() < 0.85 else rng.choice(names)
        v2 = rng.random() < 0.45
        ver = V2 if v2 else rng.choice(V1)
        fld = MULTI.get(name)
        cur_list = o[fld] if (o and fld) else []
        form = rng.choice(['mod', 'mod', 'del', 'del', 'set'] if v2 else ['mod', 'mod', 'del', 'del'])
        st = {'k': 'attr', 'form': form, 'ver': ver, 'user': user, 'uid': uid}
        val = value_for(name, rng)
        if v2:
            n2 = name
            if form == 'set':
                st['new'] = [n2, val]
            elif form == 'mod':
                st['new'] = [n2, val]
                q = rng.random()
                if q < 0.06 and o is not None:
                    other = rng.choice([x for x in CHANGEABLE if x != name])
                    st['cur_name'] = other
                    st['cur'] = current_value_of(other, o, rng) or value_for(other, rng)
                elif q < 0.7 and o is not None:
                    st['cur'] = current_value_of(name, o, rng)
                elif q < 0.85:
                    st['cur'] = value_for(name, rng)
                else:
                    st['cur'] = None
            else:
                q = rng.random()
                if q < 0.5 and o is not None and current_value_of(name, o, rng) is not None:
                    st['cur'] = [n2, current_value_of(name, o, rng)]
                elif q < 0.7:
                    st['cur'] = [n2, value_for(name, rng)]
                else:
                    st['ref'] = n2
                # round 8 (C15O): a 2.0 DeleteAttribute may carry BOTH a Current Attribute and an Attribute Reference;
                # the current attribute decides (exactly that instance goes), the reference may name the same or
                # another attribute
                # (drawn from a side stream derived from, but not consuming, the main one: the histories of earlier rounds
                # stay what they were)
                aux = random.Random(repr(rng.getstate()[1][:4]))
                if st.get('cur') is not None and aux.random() < 0.4:
                    st['ref'] = n2 if aux.random() < 0.75 else aux.choice(CHANGEABLE)
        else:
            q = rng.random()
            if q < 0.25:
                idx = None
            elif q < 0.8 and cur_list:
                idx = rng.randrange(len(cur_list))
            else:
                idx = rng.choice([len(cur_list), len(cur_list) + 3, -1, -2, 0])
            if form == 'mod':
                st['attr'] = [name, idx, val]
            else:
                st['name'] = name
                st['idx'] = idx
        steps.append(st)
        # aim-simulation update (best effort; the verdicts never depend on it)
        if o is not None and user == o['owner'] and fld:
            try:
                if form == 'mod' and not v2:
                    i = st['attr'][1] or 0
                    if 0 <= i < len(cur_list):
                        cur_list[i] = jv_plain(val)
                elif form == 'del' and not v2:
                    i = st['idx'] or 0
                    if 0 <= i < len(cur_list):
                        del cur_list[i]
                elif form == 'mod' and v2 and st.get('cur') is not None and jv_plain(st['cur']) in cur_list:
                    cur_list[cur_list.index(jv_plain(st['cur']))] = jv_plain(val)
                elif form == 'del' and v2:
                    if st.get('cur') is not None:
                        if name != 'Name' and jv_plain(st['cur'][1]) in cur_list:
                            cur_list.remove(jv_plain(st['cur'][1]))
                    elif st.get('ref'):
                        del cur_list[:]
            except Exception:
                pass
        if o is not None and name == 'Sensitive' and form in ('mod', 'set') and user == o['owner']:
            pass
    return {'objects': objs, 'steps': steps}


def run_batch(ctx, w, workdir):
    """w = {'objects', 'batch': [failing step, succeeding step], 'version'}: both items in ONE request (CONTINUE) against a
    twin engine that receives the succeeding item alone: both databases must end up with the same observation."""
    bad, good = w['batch']
    ver = tuple(w['version'])
    obs = []
    oks = None
    for items in ([bad, good], [good]):
        eng = fresh_engine(workdir)
        try:
            for s in w['objects']:
                make_object(eng, s)
            r = eng.request([build_item(x) for x in items], version=ver, user='alice',
                            batch_option=enums.BatchErrorContinuationOption.CONTINUE)
            if r['error'] is not None or len(r['items']) != len(items):
                raise RuntimeError('batch of attribute items was not answered item by item: %r' % (r['error'],))
            if len(items) == 2:
                oks = (kdrv.ok(r['items'][0]), kdrv.ok(r['items'][1]), r['items'][0]['reason'])
            else:
                oks = oks + (kdrv.ok(r['items'][0]),)
            obs.append(observe(eng)[0])
        finally:
            eng.close()
    ok1, ok2, reason1, ok_alone = oks
    if not ok1 and (ok2 != ok_alone or obs[0] != obs[1]):
        ctx.violation(sig_of(bad, ver, 'failed-batch-item-left-trace'),
                      dict(w, with_failed_item_first=obs[0], without_it=obs[1], results=[reason1, ok2, ok_alone]),
                      'a failed attribute item changed what a later item of the same batch did or committed')
    return ok1, ok2


BOUNDARY_OBJECT = {'names': ['a', 'b'], 'groups': ['g', 'h'], 'asi': [['ns0', 'd0'], ['ns1', 'd1']]}


def boundary_steps():
    """Set/Modify/Delete requests with values and indices at their boundaries, aimed at object 1 of BOUNDARY_OBJECT:
    empty text in every sub-field of structured values, empty names and groups, index absent / 0 / last / -1 / one past the
    end, current value matching / absent / empty.  Deterministic."""
    out = []
    asi_vals = [['A', a, b] for a, b in ASI_BOUNDARY] + [['A', 'n', 'd']]
    text_vals = [['T', ''], ['T', 'q']]
    for v in asi_vals:
        for idx in (None, 0, 1, -1, 2):
            out.append({'form': 'mod', 'v': 1, 'attr': ['Application Specific Information', idx, v]})
        for cur in (['A', 'ns1', 'd1'], ['A', 'zz', ''], ['A', '', '']):
            out.append({'form': 'mod', 'v': 2, 'new': ['Application Specific Information', v], 'cur': cur})
    for name, stored in (('Name', 'b'), ('Object Group', 'h')):
        for v in text_vals:
            for idx in (None, 0, 1, -1, 2):
                out.append({'form': 'mod', 'v': 1, 'attr': [name, idx, v]})
            for cur in (['T', stored], ['T', 'zz'], ['T', ''], None):
                out.append({'form': 'mod', 'v': 2, 'new': [name, v], 'cur': cur})
        out.append({'form': 'set', 'v': 2, 'new': [name, ['T', '']]})
    for name, stored, empty in (('Name', ['T', 'b'], ['T', '']), ('Object Group', ['T', 'h'], ['T', '']),
                                ('Application Specific Information', ['A', 'ns1', 'd1'], ['A', '', ''])):
        for idx in (None, 0, 1, -1, 2):
            out.append({'form': 'del', 'v': 1, 'name': name, 'idx': idx})
        for cur in (stored, empty, ['A', 'ns1', ''] if stored[0] == 'A' else ['T', 'zz']):
            out.append({'form': 'del', 'v': 2, 'cur': [name, cur]})
            out.append({'form': 'del', 'v': 2, 'cur': [name, cur], 'ref': name})     # both fields: the current attribute decides
        out.append({'form': 'del', 'v': 2, 'ref': name})
    for b in (True, False):
        out.append({'form': 'set', 'v': 2, 'new': ['Sensitive', ['B', b]]})
        out.append({'form': 'mod', 'v': 2, 'new': ['Sensitive', ['B', b]], 'cur': ['B', not b]})
        out.append({'form': 'mod', 'v': 1, 'attr': ['Sensitive', None, ['B', b]]})
        out.append({'form': 'mod', 'v': 1, 'attr': ['Sensitive', 0, ['B', b]]})
    out.append({'form': 'del', 'v': 1, 'name': 'Sensitive', 'idx': 0})
    out.append({'form': 'del', 'v': 1, 'name': '', 'idx': 0})
    return out


def run_boundary_batch(ctx, w, workdir):
    """w = {'objects', 'items': [B on object 1, G on object 2], 'version', 'option'}: ONE request with two items, the second a
    committing item that succeeds on ANOTHER object.  Judged on the store after the whole batch AND after a reload (new
    engine and session on the same database): an item that failed must have changed nothing, an item that succeeded exactly
    its addressed instance, an item that was not executed (Stop) nothing; the third object and all protected attributes stay."""
    b, g = w['items']
    ver = tuple(w['version'])
    opt = enums.BatchErrorContinuationOption[w['option']]
    eng = fresh_engine(workdir)
    try:
        for s in w['objects']:
            make_object(eng, s)
        pre_dump = eng.dump()
        pre, _ = observe(eng, pre_dump)
        r = eng.request([build_item(b), build_item(g)], version=ver, user='alice', batch_option=opt)
        if r['error'] is not None:
            raise RuntimeError('boundary batch refused as a whole: %r' % (r['error'],))
        res = [('SUCCESS' if kdrv.ok(it) else it['reason']) for it in r['items']]
        ok_b = res[0] == 'SUCCESS'
        if not ok_b and w['option'] == 'STOP':
            if len(res) != 1:
                ctx.violation(sig_of(b, ver, 'batch-not-stopped'), dict(w, results=res), 'Stop batch continued after a failed item')
        elif len(res) != 2:
            raise RuntimeError('batch answered %d items' % len(res))
        ok_g = len(res) == 2 and res[1] == 'SUCCESS'
        want = [dict(o) for o in pre]
        problems = []
        for st, okk, k in ((b, ok_b, 0), (g, ok_g, 1)):
            if okk:
                exp = expected_after_success(st, ver, pre[k])
                if isinstance(exp, str):
                    problems.append(('no-exact-effect-possible', st, exp))
                else:
                    want[k][exp[0]] = exp[1]
        views = []
        for phase in ('after the batch', 'after a reload'):
            if phase == 'after a reload':
                eng.restart()
            dump = eng.dump()
            post, _ = observe(eng, dump)
            views.append(post)
            if protected_from_dump(dump) != protected_from_dump(pre_dump):
                problems.append(('protected-changed', b, 'a protected attribute changed (%s)' % phase))
            if not ok_b and not ok_g and dump != pre_dump:
                problems.append(('failure-changed-store', b, 'no item succeeded but the database changed (%s)' % phase))
            for k, (st, okk) in enumerate(((b, ok_b), (g, ok_g), (None, None))):
                if k < len(post) and post[k] != want[k] and not any(p[0] == 'no-exact-effect-possible' and p[1] is st for p in problems):
                    d = {f: (want[k][f], post[k][f]) for f in FIELDS if want[k][f] != post[k][f]}
                    if st is None:
                        problems.append(('other-object-changed', b, 'object 3, which no item addresses, changed (%s): %r' % (phase, d)))
                    elif okk:
                        problems.append(('inexact-effect', st, 'a successful batch item did not change exactly its addressed instance (%s): %r' % (phase, d)))
                    else:
                        problems.append(('failed-batch-item-changed-store', st,
                                         'a batch item that %s changed its object (%s): expected vs observed %r'
                                         % ('failed' if k < len(res) else 'was not executed', phase, d)))
        seen = set()
        for kind, st, text in problems:
            if kind in seen:
                continue
            seen.add(kind)
            if kind == 'no-exact-effect-possible':
                if _WEAK[0] >= 10:
                    continue
                _WEAK[0] += 1
            ctx.violation(sig_of(st, ver, kind), dict(w, results=res, before=pre, after_batch=views[0], after_reload=views[-1]), text)
        return res
    finally:
        eng.close()


def boundary_batch_oracle(ctx, workdir):
    quick = ctx.tier == 'quick'
    types = list(TYPES)
    steps = boundary_steps()
    n = 0
    for j, b0 in enumerate(steps):
        for oi, option in enumerate(('CONTINUE', 'STOP')):
            if quick and option == 'STOP' and (j + ctx.seed) % 3:
                continue
            for t in (types if not quick else [types[(j + oi + ctx.seed) % 7]]):
                if not quick and (j + types.index(t)) % 3 and option == 'STOP':
                    continue
                ver = V2 if b0['v'] == 2 else V1[(j + ctx.seed) % 5]
                if b0['form'] in ('mod',) and b0.get('attr') and b0['attr'][0] == 'Sensitive':
                    ver = (1, 4)
                b = {k: v for k, v in b0.items() if k != 'v'}
                b.update({'k': 'attr', 'ver': list(ver), 'user': 'alice', 'uid': '1'})
                if ver >= V2:
                    g = {'form': 'mod', 'new': ['Object Group', ['T', 'committed']], 'cur': ['T', 'g']}
                else:
                    g = {'form': 'mod', 'attr': ['Object Group', 0, ['T', 'committed']]}
                g.update({'k': 'attr', 'ver': list(ver), 'user': 'alice', 'uid': '2'})
                objs = [dict(BOUNDARY_OBJECT, type=t, user='alice', via='register', sens=None, mask=12),
                        dict(BOUNDARY_OBJECT, type=types[(j + 3) % 7], user='alice', via='register', sens=None, mask=12),
                        dict(BOUNDARY_OBJECT, type='SYMMETRIC_KEY', user='bob', via='register', sens=True, mask=12)]
                res = run_boundary_batch(ctx, {'objects': objs, 'items': [b, g], 'version': list(ver), 'option': option}, workdir)
                n += 1
                ctx.count('bbatch.%s.%s.%s' % (option, 'SUCCESS' if res[0] == 'SUCCESS' else 'failed', len(res)))
                ctx.case_seen(('bbatch', option, json.dumps(b0, sort_keys=True), t, tuple(res)), nontrivial=True)
    return n


# ---------------------------------------------------------------------- attribute operations addressed through the ID placeholder
PH_EXTRA = {'names': ['a', 'b'], 'groups': ['g', 'h'], 'asi': [['ns0', 'd0'], ['ns1', 'd1']]}
CREATORS = ['create', 'register', 'create_key_pair', 'derive_key']


def ph_extra_attrs():
    out = []
    for i, n in enumerate(PH_EXTRA['names']):
        out.append(kdrv.attr(AT.NAME, kdrv.name_value(n), i))
    for i, g in enumerate(PH_EXTRA['groups']):
        out.append(kdrv.attr(AT.OBJECT_GROUP, g, i))
    for i, a in enumerate(PH_EXTRA['asi']):
        out.append(kdrv.attr(AT.APPLICATION_SPECIFIC_INFORMATION, {'application_namespace': a[0], 'application_data': a[1]}, i))
    return out


def creator_item(kind, otype='SYMMETRIC_KEY'):
    """A creating operation in a shape that succeeds; the new object carries PH_EXTRA.  Base key for DeriveKey is object 1."""
    A = enums.CryptographicAlgorithm
    if kind == 'create':
        return kdrv.create(attrs=kdrv.sym_attrs(A.AES, 256, kdrv.ENC_DEC) + ph_extra_attrs())
    if kind == 'register':
        ot = TYPES[otype]
        attrs = ([] if ot == OT.OPAQUE_DATA else [kdrv.attr(AT.CRYPTOGRAPHIC_USAGE_MASK, list(kdrv.ENC_DEC))]) + ph_extra_attrs()
        return kdrv.register(ot, attrs=attrs)
    if kind == 'create_key_pair':
        return kdrv.create_key_pair(common=[kdrv.attr(AT.CRYPTOGRAPHIC_ALGORITHM, A.RSA), kdrv.attr(AT.CRYPTOGRAPHIC_LENGTH, 1024)]
                                    + ph_extra_attrs())
    if kind == 'derive_key':
        params = cattrs.DerivationParameters(
            cryptographic_parameters=cattrs.CryptographicParameters(hashing_algorithm=enums.HashingAlgorithm.SHA_256))
        return kdrv.derive_key(['1'], method=enums.DerivationMethod.HASH, params=params,
                               attrs=kdrv.sym_attrs(A.AES, 128, kdrv.ENC_DEC) + ph_extra_attrs())
    raise ValueError(kind)


def placeholder_steps():
    """UID-less attribute requests (the engine takes the ID placeholder): changing and refused ones, both protocol forms."""
    one = [
        {'form': 'mod', 'attr': ['Name', 1, ['T', 'q']]},
        {'form': 'del', 'name': 'Object Group', 'idx': 0},
        {'form': 'mod', 'attr': ['Application Specific Information', None, ['A', 'n', 'd']]},
        {'form': 'mod', 'attr': ['Sensitive', None, ['B', True]], 'ver': (1, 4)},
        {'form': 'mod', 'attr': ['State', None, ['I', 2]]},
        {'form': 'del', 'name': 'Name', 'idx': 9},
        {'form': 'mod', 'attr': ['Name', -1, ['T', 'q']]},
    ]
    two = [
        {'form': 'set', 'new': ['Sensitive', ['B', True]]},
        {'form': 'mod', 'new': ['Name', ['T', 'q']], 'cur': ['T', 'b']},
        {'form': 'del', 'cur': ['Object Group', ['T', 'h']]},
        {'form': 'del', 'ref': 'Application Specific Information'},
        {'form': 'set', 'new': ['State', ['I', 2]]},
        {'form': 'mod', 'new': ['Name', ['T', 'q']], 'cur': ['T', 'zz']},
        {'form': 'del', 'cur': ['Name', ['T', 'zz']]},
    ]
    return [dict(x, v=1) for x in one] + [dict(x, v=2) for x in two]


def ph_setup(eng):
    """object 1: an active base key owned by alice that may derive keys; object 2: a bystander."""
    r = eng.request([kdrv.register(OT.SYMMETRIC_KEY, attrs=[kdrv.attr(AT.CRYPTOGRAPHIC_USAGE_MASK, [enums.CryptographicUsageMask.DERIVE_KEY])])],
                    version=OBS_VER, user='alice')
    if not kdrv.ok(r['items'][0]):
        raise RuntimeError('placeholder setup: cannot register the base key')
    eng.request([kdrv.activate('1')], version=OBS_VER, user='alice')
    make_object(eng, dict(PH_EXTRA, type='SECRET_DATA', user='alice', via='register', sens=None, mask=12))


_TWIN = {}
_PCASES = []


MIDDLES = ['get', 'get_attributes', 'modify', 'activate']


def middle_item(kind, ver):
    """A successful item that merely NAMES another object (the bystander, object 2) by an explicit identifier."""
    if kind == 'get':
        return kdrv.get('2')
    if kind == 'get_attributes':
        return kdrv.get_attributes('2')
    if kind == 'activate':
        return kdrv.activate('2')
    if kind == 'modify':
        st = ({'form': 'mod', 'new': ['Object Group', ['T', 'mid']], 'cur': ['T', 'h']} if tuple(ver) >= V2
              else {'form': 'mod', 'attr': ['Object Group', 1, ['T', 'mid']]})
        return build_item(dict(st, uid='2', k='attr', user='alice', ver=list(ver)))
    raise ValueError(kind)


def run_placeholder_batch(ctx, w, workdir):
    """w = {'creator', 'otype', 'step' (uid None), 'version'}: ONE request [creating operation; attribute operation without an
    identifier].  A twin engine receives the creating operation alone and gives the state the new object has before the
    attribute operation.  Failed => the observation equals the twin's everywhere; success => exactly the addressed instance
    of the object the placeholder names differs.  Judged after the batch and after a reload."""
    ver = tuple(w['version'])
    st = dict(w['step'], uid=None, k='attr', user='alice', ver=list(ver))
    obs = {}
    mid = w.get('middle')
    tkey = (w['creator'], w.get('otype', 'SYMMETRIC_KEY'), ver, mid)
    if tkey in _TWIN:               # the twin depends only on the creating operation, its object type and the version
        obs['twin'] = _TWIN[tkey]
    for which in ('twin', 'main'):
        if which in obs or (which == 'main' and w.get('twin_only')):
            continue
        eng = fresh_engine(workdir)
        try:
            ph_setup(eng)
            o0, _ = observe(eng)
            items = ([creator_item(w['creator'], w.get('otype', 'SYMMETRIC_KEY'))] + ([middle_item(mid, ver)] if mid else [])
                     + ([build_item(st)] if which == 'main' else []))
            r = eng.request(items, version=ver, user='alice')
            if r['error'] is not None or not r['items'] or not kdrv.ok(r['items'][0]):
                raise RuntimeError('creating operation %s failed under %r: %r' % (
                    w['creator'], ver, r['error'] or (r['items'][0]['reason'], r['items'][0]['message'])))
            if mid and (len(r['items']) < 2 or not kdrv.ok(r['items'][1])):
                raise RuntimeError('middle item %s failed under %r: %r' % (mid, ver, r['items'][1:2] and (r['items'][1]['reason'], r['items'][1]['message'])))
            target = kdrv.first_uid(r['items'][0])
            res = [('SUCCESS' if kdrv.ok(it) else it['reason']) for it in r['items']]
            d1 = eng.dump()
            o1, _ = observe(eng, d1)
            eng.restart()
            d2 = eng.dump()
            o2, _ = observe(eng, d2)
            obs[which] = {'before': o0, 'target': target, 'res': res, 'after': o1, 'reload': o2, 'prot': protected_from_dump(d1), 'prot2': protected_from_dump(d2)}
        finally:
            eng.close()
    _TWIN[tkey] = obs['twin']
    if w.get('twin_only'):
        return None
    t, m = obs['twin'], obs['main']
    if len(m['res']) != (3 if mid else 2):
        raise RuntimeError('placeholder batch answered %d items' % len(m['res']))
    okk = m['res'][-1] == 'SUCCESS'
    # K: the same batch for the model (Coq replays it from placeholder None).  The creating / middle items are given by the
    # stores the twin engines observed after them; the attribute item by its request and observed outcome.
    if ctx is not None and w.get('collect', True):
        after_creator = t['after']
        if mid:
            k0 = tkey[:3] + (None,)
            if k0 not in _TWIN:
                run_placeholder_batch(None, dict(w, middle=None, collect=False, twin_only=True), workdir)
            after_creator = _TWIN[k0]['after']
        kitems = ['(KICreate %s %s)' % (coq_store(after_creator), cp.z(int(t['target'])))]
        if mid:
            kitems.append('(KIOther %s)' % coq_store(t['after']))
        kitems.append('(KIAttr None %s %s)' % (coq_req(st), cp.string('' if okk else m['res'][-1])))
        _PCASES.append(('(mkP (%s, %s) %s false %s %s %s)' % (
            cp.z(ver[0]), cp.z(ver[1]), cp.string('alice'), coq_store(m['before']), cp.lst(kitems, lambda x: x), coq_store(m['after'])),
            dict(w, results=m['res'])))
    wit = dict(w, results=m['res'], placeholder_object=m['target'], without_attribute_item=t['after'],
               after_batch=m['after'], after_reload=m['reload'])
    want = [dict(o) for o in t['after']]
    if okk:
        tgt = [o for o in want if str(o['uid']) == str(t['target'])]
        exp = expected_after_success(st, ver, tgt[0]) if tgt else 'success without an object named by the placeholder'
        if isinstance(exp, str):
            ctx.violation(sig_of(st, ver, 'no-exact-effect-possible'), wit, exp)
            return m['res']
        tgt[0][exp[0]] = exp[1]
    for phase, got, prot in (('after the batch', m['after'], m['prot']), ('after a reload', m['reload'], m['prot2'])):
        if prot != t['prot']:
            ctx.violation(sig_of(st, ver, 'protected-changed'), wit, 'a protected attribute changed through a placeholder-addressed request (%s)' % phase)
            break
        if got != want:
            diff = [(a.get('uid'), {f: (a[f], b[f]) for f in FIELDS if a[f] != b[f]}) for a, b in zip(want, got) if a != b]
            if okk:
                ctx.violation(sig_of(st, ver, 'inexact-effect'), dict(wit, expected_vs_observed=diff),
                              'a successful placeholder-addressed call did not change exactly the addressed instance (%s)' % phase)
            else:
                ctx.violation(sig_of(st, ver, 'failure-changed-store'), dict(wit, expected_vs_observed=diff),
                              'an unsuccessful placeholder-addressed call (%s) changed the store (%s)' % (m['res'][-1], phase))
            break
    return m['res']


def placeholder_batch_oracle(ctx, workdir):
    quick = ctx.tier == 'quick'
    types = list(TYPES)
    n = 0
    for ci, creator in enumerate(CREATORS):
        for j, s0 in enumerate(placeholder_steps()):
            ver = V2 if s0['v'] == 2 else tuple(s0.get('ver', V1[(j + ci + ctx.seed) % 5]))
            step = {k: v for k, v in s0.items() if k not in ('v', 'ver')}
            k7 = j % 7                       # position inside the form's menu: 0-3 change something, 4-6 are refused
            if quick:
                # every creator x protocol form meets every kind of middle item in front of a CHANGING step
                mids = [MIDDLES[(k7 + ci + ctx.seed) % 4]] if k7 < 4 else ([None] if k7 < 6 else [MIDDLES[(ci + ctx.seed) % 4]])
                if k7 == 0:
                    mids.append(None)
            else:
                mids = [None] + MIDDLES
            for mid in mids:
                for otype in ([types[(j + ctx.seed) % 7]] if (quick or creator != 'register') else types):
                    res = run_placeholder_batch(ctx, {'creator': creator, 'otype': otype, 'step': step, 'version': list(ver), 'middle': mid}, workdir)
                    n += 1
                    ctx.count('placeholder.%s.%s.%s' % (creator, mid or 'direct', 'SUCCESS' if res[-1] == 'SUCCESS' else 'failed'))
                    ctx.case_seen(('placeholder', creator, mid, otype if creator == 'register' else '-', json.dumps(s0, sort_keys=True), tuple(res)), nontrivial=True)
    return n


def batch_frame_oracle(ctx, rng, workdir, rounds):
    """A failed attribute item followed by a succeeding one in the same batch (shared SQLAlchemy session, CONTINUE):
    the failed item must leave no trace in what the later commit writes."""
    n = 0
    for _ in range(rounds):
        spec = base_objects(rng, rng.choice(list(TYPES)))
        sens_case = rng.random() < 0.35
        if sens_case:
            spec[0]['sens'] = True
        name = rng.choice(CHANGEABLE)
        v2 = rng.random() < 0.5
        ver = V2 if v2 else (rng.choice(V1) if not sens_case else (1, 4))
        if sens_case:
            # the overwrite rule refuses to clear a set Sensitive flag: the refusal must not leave the flag cleared in the
            # session that the next item commits
            bad = ({'form': rng.choice(['set', 'mod']), 'new': ['Sensitive', ['B', False]]} if v2
                   else {'form': 'mod', 'attr': ['Sensitive', None, ['B', False]]})
            good = {'form': 'del', 'ref': 'Object Group'} if v2 else {'form': 'mod', 'attr': ['Object Group', 0, ['T', 'q']]}
        elif v2:
            bad = rng.choice([
                {'form': 'mod', 'new': [name, value_for(name, rng)], 'cur': ['T', 'zz'] if name in ('Name', 'Object Group') else (['A', 'z', 'z'] if name != 'Sensitive' else ['B', True])},
                {'form': 'del', 'cur': [name, ['T', 'zz'] if name != 'Application Specific Information' else ['A', 'z', 'z']]},
                {'form': 'set', 'new': [name if name != 'Sensitive' else 'Name', value_for(name if name != 'Sensitive' else 'Name', rng)]}])
            good = {'form': 'del', 'ref': 'Object Group'}
        else:
            bad = rng.choice([{'form': 'mod', 'attr': [name, 9, value_for(name, rng)]},
                              {'form': 'del', 'name': name, 'idx': 9},
                              {'form': 'mod', 'attr': ['State', None, ['I', 2]]},
                              {'form': 'del', 'name': 'Cryptographic Usage Mask', 'idx': None}])
            good = {'form': 'mod', 'attr': ['Object Group', 0, ['T', 'q']]}
        for s in (bad, good):
            s.update({'k': 'attr', 'ver': ver, 'user': 'alice', 'uid': '1'})
        ok1, ok2 = run_batch(ctx, {'objects': spec, 'batch': [bad, good], 'version': list(ver)}, workdir)
        ctx.count('batch.%s.%s' % ('ok' if ok1 else 'fail', 'ok' if ok2 else 'fail'))
        n += 1
        ctx.case_seen(('batch', json.dumps(bad, sort_keys=True), json.dumps(good, sort_keys=True), spec[0]['type']), nontrivial=not ok1 and ok2)
    return n


# ---------------------------------------------------------------------- the check
def describe(hist, meta, k=None):
    return {'objects': hist['objects'], 'steps': hist['steps'], 'observed_results': meta['results'], 'first_bad_step': k}


def load_local_findings(ctx):
    """findings.d/C15.json is merged into known_findings.json by the integrator; read it directly as well so that a
    freshly recorded entry is honoured before the merge."""
    from vlib import core
    p = core.VERIF / 'findings.d' / 'C15.json'
    if p.exists():
        have = {f.get('id') for f in ctx.findings}
        for f in json.loads(p.read_text()):
            if f.get('property') == 'C15' and f.get('id') not in have:
                ctx.findings.append(f)


def histories_for(ctx):
    rng = ctx.subrng('histories')
    names = table_names()
    VERSION_SENSITIVE.clear()
    VERSION_SENSITIVE.update(version_sensitive_names())
    quick = ctx.tier == 'quick'
    hs = []
    types = list(TYPES)
    # grid: every attribute name of the regenerated table + one unknown name, every object type
    for i, name in enumerate(names + [BOGUS]):
        if quick:
            # every name on 2 object types per run (rotating with the seed), changeable names on all 7
            ts = types if name in CHANGEABLE else [types[(i + ctx.seed) % 7], types[(i + ctx.seed + 3) % 7]]
        else:
            ts = types
        for t in ts:
            hs.append(('grid', grid_history(rng, name, t, V1[(i + len(hs)) % 5])))
    for _ in range(3 if quick else 20):
        hs.append(('odd', odd_history(rng)))
    for t in (types if not quick else [types[ctx.seed % 7], types[(ctx.seed + 2) % 7], types[(ctx.seed + 4) % 7]]):
        hs.append(('shared', shared_history(rng, t)))
    for t in types:
        hs.append(('sensitive', sensitive_history(t)))
    for j, t in enumerate(types if not quick else [types[ctx.seed % 7], types[(ctx.seed + 3) % 7]]):
        hs.append(('mixed', mixed_version_history(True, t)))
        hs.append(('mixed', mixed_version_history(False, t)))
    for _ in range(60 if quick else 600):
        hs.append(('random', random_history(rng, names + [BOGUS], 14)))
    return hs


def run(ctx):
    ctx.cov['rule'] = ('histories on a fresh real engine with 3 stored objects (all 7 object types, two owners): '
                       'GRID = for every attribute name of the regenerated rule table plus one unknown name: Set / Modify / Delete in '
                       'the 2.0 forms (new, current absent / non-matching / matching, reference) under 2.0 and in the 1.x index form '
                       '(index absent, 0, in range, out of range, negative) under 1.0-1.4; ODD = malformed and cross-form payloads, '
                       'absent / foreign / unknown identifiers, non-owner; RANDOM = seeded 14-step sequences over the changeable '
                       'attributes aimed at existing instances, interleaved with Activate / Revoke / Destroy / Register / restart. '
                       'A case is one attribute step; distinct = (form, version class, attribute, index class or current-value class, '
                       'object type, result); non-trivial = the object exists and the caller owns it.')
    load_local_findings(ctx)
    ctx.regen(only=['attrrules', 'enums'])
    proved = ctx.prove('props/C15.v', extra_targets=['theories/AttrOps/Cases.v'])
    work = ctx.work
    hs = histories_for(ctx)
    cases, metas = [], []
    for kind, h in hs:
        case, meta = run_history(ctx, h, work)
        cases.append(case)
        metas.append((kind, h, meta))
        for st, res in zip(h['steps'], meta['results']):
            if st['k'] != 'attr':
                continue
            ver = tuple(st['ver'])
            s = sig_of(st, ver, '')
            idxc = None
            if st['form'] == 'mod' and st.get('attr'):
                idxc = st['attr'][1]
            elif st['form'] == 'del':
                idxc = st.get('idx')
            ctx.case_seen((s['op'], s['form'], s['attribute'], idxc if idxc is None or idxc < 2 else 'big',
                           st.get('cur') is not None, h['objects'][0]['type'] if st['uid'] == '1' else '-', res),
                          nontrivial=st['uid'] is not None)
    ctx.log('executed %d histories (%d attribute steps) on the real engine' % (len(hs), ctx.cov['evaluations']))
    bad = ctx.run_cases('attrops', HEADER, cases, 'check_case', shard=40,
                        what='step (Model.v) vs KmipEngine Set/Modify/DeleteAttribute: outcome + GetAttributes(all) of every object after every step')
    for i in bad[:10]:
        kind, h, meta = metas[i]
        k = ctx.model_output(HEADER, 'first_bad (fst %s) (snd %s) 0' % (cases[i], cases[i]))
        ctx.disagreement('attrops', describe(h, meta, k), model_says=k)
    if bad or not proved:
        # broken tie / obligation: look harder for a concrete failing input with the direct oracle
        rng = ctx.subrng('finder')
        names = table_names()
        for j in range(150):
            if strong_found(ctx):
                break
            h = random_history(rng, names + [BOGUS], 20)
            run_history(ctx, h, work)
        # protected attributes that are falsy are the ones a table edit exposes: objects without a usage mask
        for name in PROTECTED_NAMES:
            if strong_found(ctx):
                break
            for t in TYPES:
                h = grid_history(rng, name, t, (1, 2))
                for o in h['objects']:
                    o['mask'] = None
                run_history(ctx, h, work)
    order = {'attribute-not-in-version': 1, 'protected-changed': 0, 'other-object-changed': 1, 'failure-changed-store': 2, 'failed-batch-item-changed-store': 2,
             'inexact-effect': 3,
             'failed-batch-item-left-trace': 4, 'no-exact-effect-possible': 5}
    n = batch_frame_oracle(ctx, ctx.subrng('batch'), work, 30 if ctx.tier == 'quick' else 300)
    nl = 0
    types_ = list(TYPES)
    for fi, field in enumerate(('name', 'group', 'namespace', 'data')):
        for gi, form in enumerate(('mod1', 'mod2')):
            for ci, charset in enumerate(('ascii', 'utf8')):
                for t in (types_ if ctx.tier != 'quick' else [types_[(fi + gi + ci + ctx.seed) % 7]]):
                    h = length_history(field, form, charset, t)
                    _, meta = run_history(ctx, h, work, coq=False)
                    nl += len(LENGTHS)
                    for L, res in zip(LENGTHS, meta['results']):
                        ctx.count('length.%s.%s.%s' % (field, form, 'SUCCESS' if res == 'SUCCESS' else 'failed'))
                        ctx.case_seen(('length', field, form, charset, t, L, res), nontrivial=True)
    ctx.log('length oracle: %d ModifyAttribute steps over %r characters (ASCII and multi-byte), same values at creation' % (nl, LENGTHS))
    del _PCASES[:]
    np_ = placeholder_batch_oracle(ctx, work)
    badp = ctx.run_cases('placeholder', HEADER, [c for c, _ in _PCASES], 'check_pcase', shard=40,
                         what='run of a batch [creating item; other item; attribute item without identifier] on the model '
                              '(placeholder semantics) vs the real engine: outcome + store after the batch')
    for i in badp[:10]:
        ctx.disagreement('placeholder', _PCASES[i][1])
    ctx.log('placeholder oracle: %d batches [Create | Register | CreateKeyPair | DeriveKey ; attribute operation without identifier]' % np_)
    nb = boundary_batch_oracle(ctx, work)
    ctx.log('boundary batch oracle: %d two-item batches (Continue and Stop), judged after the batch and after a reload' % nb)
    ctx.violations.sort(key=lambda v: order.get(v['signature'].get('kind'), 9))
    ctx.log('batch frame oracle: %d batches' % n)
    if cases:
        ctx.sample({'history': metas[0][1]['steps'][:3], 'results': metas[0][2]['results'][:3]})
        ctx.sample({'coq_case': cases[len(cases) // 2][:600]})
    ctx.cov['trusted_extra'] = [
        'harness/c15.py: conversion of GetAttributes responses and SQL rows into the model store; request builders; '
        'the access rule (default policy: owner only) is modelled, access control proper is property C03',
        'translate/gen_attrrules.py (reflection dump of AttributePolicy)']


def replay(ctx, data):
    """bin/check C15 --replay file: re-run the recorded history with the direct oracle."""
    load_local_findings(ctx)
    w = data.get('input') or {}
    hist = w.get('history')
    if isinstance(hist, dict) and 'length_history' in hist:
        d = hist['length_history']
        hist = length_history(d['field'], d['form'], d['charset'], d['type'])
        case, meta = run_history(ctx, hist, ctx.work, coq=False)
        print('lengths', LENGTHS, '->', meta['results'][:len(LENGTHS)])
        print('violations reproduced:', len(ctx.violations))
        for v in ctx.violations[:5]:
            print(' -', v['what'], json.dumps(v['signature'], sort_keys=True))
        return 1 if ctx.violations else 0
    if hist is None and 'creator' in w:
        res = run_placeholder_batch(ctx, {k: w[k] for k in ('creator', 'otype', 'step', 'version', 'middle') if k in w}, ctx.work)
        print('batch items:', res)
        print('violations reproduced:', len(ctx.violations))
        for v in ctx.violations[:5]:
            print(' -', v['what'], json.dumps(v['signature'], sort_keys=True))
        return 1 if ctx.violations else 0
    if hist is None and 'items' in w:
        res = run_boundary_batch(ctx, {k: w[k] for k in ('objects', 'items', 'version', 'option')}, ctx.work)
        print('batch items:', res)
        print('violations reproduced:', len(ctx.violations))
        for v in ctx.violations[:5]:
            print(' -', v['what'], json.dumps(v['signature'], sort_keys=True))
        return 1 if ctx.violations else 0
    if hist is None and 'batch' in w:
        ok1, ok2 = run_batch(ctx, {'objects': w['objects'], 'batch': w['batch'], 'version': w['version']}, ctx.work)
        print('batch items:', 'SUCCESS' if ok1 else 'failed', 'SUCCESS' if ok2 else 'failed')
        print('violations reproduced:', len(ctx.violations))
        for v in ctx.violations[:5]:
            print(' -', v['what'], json.dumps(v['signature'], sort_keys=True))
        return 1 if ctx.violations else 0
    if hist is None:
        cands = data.get('first_disagreeing_cases') or []
        if cands:
            c = cands[0]['case']
            hist = {'objects': c['objects'], 'steps': c['steps']}
    if hist is None:
        print('nothing to replay in this file')
        return 2
    case, meta = run_history(ctx, hist, ctx.work)
    for st, res in zip(hist['steps'], meta['results']):
        print(res, json.dumps(st, sort_keys=True))
    print('violations reproduced:', len(ctx.violations))
    for v in ctx.violations[:5]:
        print(' -', v['what'], json.dumps(v['signature'], sort_keys=True))
    return 1 if ctx.violations else 0
