"""C20 - secrets stay out of logs and error messages at the default log level.

regen (tie T: gen/LogSites.v) -> prove (props/C20.v) -> histories on the real engine / session / pie client
with high-entropy canaries, every INFO+ record captured on the root and 'kmip' loggers ->
  * direct oracle 1: canary scan (raw, hex, base64, repr, decimal list, integer, halves) over every record
    (message, args, traceback text) and every result message / client exception text;
  * direct oracle 2: secret swap - the same history with other canaries of the same lengths must emit the
    same texts (a long secret-dependent span is a leak in an encoding the scan does not know);
  * tie K: every record is located in the site table by (file, line), every result message by its text;
    Coq (`check_case`) re-renders the site with the extracted arguments and compares.
"""
import base64
import datetime
import logging
import os
import re
import sys
import traceback

import kdrv
import c20_hist as H
from vlib import coqprint as cp

LEVEL = 'proof'

HEADER = ('From Coq Require Import List ZArith String.\nFrom PK Require Import Logs.Frag.\n'
          'From PKGen Require Import LogSites.\nImport ListNotations.\nOpen Scope string_scope.\n')
CHECKER = 'check_case pk_exc_classes log_sites'

CUSTOM_CTOR = {'ReadValueError', 'WriteOverflowError', 'StreamNotEmptyError', 'RequestLengthMismatch',
               'KmipOperationFailure', 'OperationFailure'}
LEVELNAME = {'LInfo': logging.INFO, 'LWarning': logging.WARNING, 'LError': logging.ERROR,
             'LException': logging.ERROR, 'LCritical': logging.CRITICAL, 'LDebug': logging.DEBUG}


# ---------------------------------------------------------------------------------------------- site table
class Table:
    def __init__(self, repo):
        import gen_logsites
        self.files, self.pk, self.sites = gen_logsites.scan(repo)
        self.levels = gen_logsites.scan_levels(repo, gen_logsites.scan.trees)
        self.by_file = {}
        for i, s in enumerate(self.sites):
            s['idx'] = i
            s['rx'] = self._regex(s)
            self.by_file.setdefault(s['file'], []).append(s)
        self.msg_sites = [s for s in self.sites if s['rx'] is not None and (
            s['kind'] == 'KResultMsg' or (s['kind'] == 'KRaise true' and s['cls'].split('.')[-1] not in CUSTOM_CTOR))]
        # most literal text first, so that the most specific site explains a message
        self.msg_sites.sort(key=lambda s: -sum(len(p[1]) for p in s['parts'] if p[0] == 'SLit'))
        self.unsafe = [s for s in self.sites if s['kind'] not in ('KLog LDebug', 'KDead')
                       and any(p[0] in ('SUnknown', 'SSecret') for p in s['parts'])]

    @staticmethod
    def _regex(s):
        if any(p[0] == 'STemplate' for p in s['parts']):
            return None
        pat = ''.join(re.escape(p[1]) if p[0] == 'SLit' else '(.*?)' for p in s['parts'])
        return re.compile(pat, re.S)

    def locate_record(self, rel, lineno, levelno, text):
        for s in self.by_file.get(rel, []):
            if s['kind'].startswith('KLog') and s['line'] <= lineno <= s['end']:
                if s['rx'] is None:
                    return s, None
                m = s['rx'].fullmatch(text)
                if m:
                    return s, list(m.groups())
                return s, False
        return None, None

    def locate_message(self, text):
        for s in self.msg_sites:
            m = s['rx'].fullmatch(text)
            if m and (s['parts'] or text == ''):
                if len(s['parts']) == 1 and s['parts'][0][0] == 'SExc' and all(c in self.pk for c in s['parts'][0][1]):
                    continue        # "str(e) of a KmipError": explained by the raise site instead
                # (a single foreign SExc - crypto/engine.py wrap_key - is the runtime remainder; it sorts last)
                return s, list(m.groups())
        return None, None


class EmptyTable:
    """Stand-in when the translator fails closed: the direct oracles still run, tie K is skipped."""
    empty = True
    by_file, sites, unsafe, msg_sites = {}, [], [], []

    def locate_record(self, *a):
        return None, None

    def locate_message(self, *a):
        return None, None


def selftest(ctx):
    """The capture and the scanner must see a planted canary at INFO and must not see DEBUG."""
    can = H.Canaries(12345)
    c = can.new('selftest', 16)
    with H.LogEnv() as cap:
        lg = logging.getLogger('kmip.c20.selftest')
        lg.debug('debug %s', c.hex())
        lg.info('planted %s', base64.b64encode(c).decode())
        lg.info('fragment %r', c[3:14])
        try:
            raise ValueError('inner ' + c.hex().upper())
        except ValueError as e:
            lg.exception(e)
        recs = [H.record_dict(r, ctx.repo) for r in cap.raw]
    forms = sorted({f for r in recs for _, f, _ in can.scan(r['all'])})
    if len(recs) != 3 or 'base64' not in forms or 'hex' not in forms or 'Traceback' not in recs[2]['all'] or \
            not any(f.startswith('fragment') for f in forms):
        ctx.disagreement('harness-selftest', {'records': len(recs), 'forms': forms})
    return len(recs) == 3


def printable(s):
    return all(32 <= ord(c) < 127 for c in s)


# ---------------------------------------------------------------------------------------------- one history, run twice
def mask(text, w):
    text = text.replace(w.eng.path, '<db>') if w.eng is not None else text
    for d in w.scratch:
        text = text.replace(d, '<tmp>')
    text = re.sub(r'0x[0-9a-fA-F]{6,}', '0x?', text)
    return text


def diff_span(a, b):
    """Length of the differing middle of two strings (after the common prefix and suffix)."""
    i = 0
    n = min(len(a), len(b))
    while i < n and a[i] == b[i]:
        i += 1
    j = 0
    while j < n - i and a[len(a) - 1 - j] == b[len(b) - 1 - j]:
        j += 1
    return max(len(a), len(b)) - i - j, a[i:len(a) - j], b[i:len(b) - j]


TSTAMP = re.compile(r'\d{4}-\d\d-\d\d \d\d:\d\d:\d\d,\d{3}')
NUMTOK = re.compile(r'\b(?:0x[0-9a-fA-F]{1,16}|\d{1,20})\b')
# Python's UnicodeDecodeError text: one offending byte, its position and one of a few fixed reasons
CODEC = re.compile(r"can't decode bytes? (?:0x[0-9a-f]{2}|in position \d+-\d+)(?: in position \d+(?:-\d+)?)?: [a-z ]{1,40}")


def numbers_masked(t):
    return NUMTOK.sub('#', CODEC.sub("can't decode #", t))


def site_name(table, key):
    """'file:function' of a log record (line numbers shift with unrelated edits; signatures must not)."""
    if key[0] != 'log':
        return 'message'
    for s in table.by_file.get(key[1], []):
        if s['kind'].startswith('KLog') and s['line'] <= key[2] <= s['end']:
            return '%s:%s' % (s['file'], s['func'])
    return '%s:%s' % (key[1], key[2])


def texts_of(w):
    """[(where, kind-key, text)] every text the run exposed at level >= INFO or to a client."""
    out = []
    for k, r in enumerate(w.records):
        out.append(('log#%d %s %s %s:%d' % (k, r['name'], r['level'], r['rel'], r['lineno']), ('log', r['rel'], r['lineno'], r['level']), r['all']))
    for k, (step, kind, text) in enumerate(w.messages):
        out.append(('%s#%d step %d' % (kind, k, step), (kind, step), text))
    for k, (step, variant, requested, text) in enumerate(w.written):
        if requested != 'DEBUG':        # an operator who asks for DEBUG gets the encodings; every other deployment must not
            out.append(('server-log-file#%d step %d (%s)' % (k, step, variant), ('server-log-file', step, variant), TSTAMP.sub('<time>', text)))
    return out


def run_history(ctx, table, hist, struct_seed, can_seed, cases, meta, stats):
    """Run one history with one canary set; canary-scan it; emit K cases.  Returns the World."""
    w = H.World(ctx, hist, struct_seed, can_seed)
    try:
        w.run()
    finally:
        w.close()
    # ---- direct oracle 1: canary scan
    all_texts = texts_of(w)
    found = w.can.scan_many([t for _, _, t in all_texts])
    for idx, (where, key, text) in enumerate(all_texts):
        if idx not in found:
            continue
        if key[0] == 'client-error':
            # An exception the client library raises into the calling application (its own process, which holds the
            # secret already) is neither a log record nor an error message returned by the server: outside the
            # property.  Counted for the evidence, not a violation.
            stats['client_exception_texts_with_secret'] += 1
            continue
        for kind, form, needle in found[idx]:
            if key[0] == 'log':
                site = site_name(table, key)
            elif key[0] == 'server-log-file':
                site = 'server log file, configuration: ' + key[2]
            else:
                s, _ = table.locate_message(text)
                site = 'message' if s is None else '%s:%s' % (s['file'], s['func'])
            at = text.find(needle) if form not in ('hex', 'half-hex', 'fragment-hex') else text.lower().find(needle)
            sig = {'oracle': 'canary-scan', 'site': site, 'canary': kind, 'form': form, 'channel': key[0]}
            wit = {'history': hist['name'], 'layer': hist['layer'], 'struct_seed': struct_seed, 'canary_seed': can_seed,
                   'where': where, 'canary_kind': kind, 'form': form,
                   'text_excerpt': text[max(0, at - 200):at + 200] if at >= 0 else text[:400],
                   'trace': w.trace[-40:],
                   'how_to_replay': 'bin/check C20 --replay <this file>'}
            ctx.violation(sig, wit, '%s canary (%s form) appears in %s at %s' % (kind, form, key[0], site))
            stats['canary_hits'] += 1
    # ---- the default level itself (start-up leg)
    default = getattr(table, 'levels', {}).get('default_value', 20)
    names = {v: k for k, v in getattr(table, 'levels', {}).get('level_table', {}).items()}
    for chk in w.level_checks:
        stats['level_checks'] += 1
        want = default if chk['requested'] is None else {'DEBUG': 10, 'INFO': 20, 'WARNING': 30, 'ERROR': 40, 'CRITICAL': 50}[chk['requested']]
        low = {n: l for n, l in chk['effective'].items() if l != want}
        ctx.count('startup.%s' % ('default' if chk['requested'] is None else chk['requested']))
        if not low and not any(h not in (0,) and h > want for h in chk['handler_levels']):
            continue
        if chk['requested'] is None and any(l < default for l in low.values()):
            ctx.violation({'oracle': 'effective-level', 'configuration': 'default', 'effective': min(low.values())},
                          {'history': hist['name'], 'layer': hist['layer'], 'struct_seed': struct_seed, 'canary_seed': can_seed,
                           'variant': chk['variant'], 'server_conf': chk['config'], 'constructor_logging_level': chk['constructor_logging_level'],
                           'effective_levels': chk['effective'], 'expected': default,
                           'how_to_replay': 'bin/check C20 --replay <this file>'},
                          'with a configuration that names no logging level the server loggers run at level %d (%s), not at the default %d: '
                          'debug records (request/response encodings) are written' % (min(low.values()), names.get(min(low.values()), '?'), default))
        else:
            ctx.disagreement('startup-levels', {'variant': chk['variant'], 'requested': chk['requested'], 'effective': chk['effective'],
                                                'handler_levels': chk['handler_levels'], 'expected': want})
    for step, variant, requested, text in w.written:
        # the leg must really observe what the server writes: an explicit DEBUG deployment shows the encodings,
        # every deployment shows the INFO line of the connection
        if 'Receiving incoming connection' not in text and requested in (None, 'INFO', 'DEBUG'):
            ctx.disagreement('startup-leg', {'variant': variant, 'what': 'the server log file lacks the INFO records of the connection', 'bytes': len(text)})
        if requested == 'DEBUG' and 'Request encoding' not in text:
            ctx.disagreement('startup-leg', {'variant': variant, 'what': 'explicit DEBUG but no "Request encoding" record in the file', 'bytes': len(text)})
        if requested == 'DEBUG':
            stats['debug_files_with_secret'] += 1 if w.can.scan(text) else 0
    # ---- tie K
    if getattr(table, 'empty', False):
        return w
    for r in w.records:
        stats['records'] += 1
        ctx.count('record.%s' % r['level'])
        if r['rel'] is None:
            stats['foreign_records'] += 1
            continue
        s, args = table.locate_record(r['rel'], r['lineno'], r['levelno'], r['text'])
        if s is None:
            ctx.disagreement('logsites', {'what': 'INFO+ record from a call the site table does not list',
                                          'file': r['rel'], 'line': r['lineno'], 'text': r['text'][:300], 'history': hist['name']})
            stats['unlisted_records'] += 1
            continue
        stats['sites_hit'].add(s['idx'])
        if LEVELNAME.get(s['kind'].split()[-1]) != r['levelno']:
            ctx.disagreement('logsites', {'what': 'record level differs from the table', 'file': r['rel'], 'line': r['lineno'],
                                          'table': s['kind'], 'observed': r['level']})
            continue
        if args is None:
            stats['template_records'] += 1
            continue
        if args is False:
            ctx.disagreement('logsites', {'what': 'record text is not a rendering of its site', 'file': r['rel'], 'line': r['lineno'],
                                          'parts': repr(s['parts'])[:300], 'text': r['text'][:300]})
            continue
        add_case(ctx, cases, meta, stats, s, r['rel'], r['lineno'], args, r['text'], hist['name'])
    for step, kind, text in w.messages:
        stats['messages'] += 1
        ctx.count('text.%s' % kind)
        if kind == 'client-error':
            continue        # client-side exception text (any class): scanned, not modelled
        s, args = table.locate_message(text)
        if s is None:
            ctx.disagreement('messages', {'what': 'result message is not a rendering of any result-message / KmipError raise site',
                                          'text': text[:300], 'history': hist['name'], 'step': step, 'channel': kind})
            stats['unexplained_messages'] += 1
            continue
        stats['sites_hit'].add(s['idx'])
        add_case(ctx, cases, meta, stats, s, s['file'], 0, args, text, hist['name'])
    return w


def add_case(ctx, cases, meta, stats, s, rel, line, args, text, hname):
    key = (s['idx'], tuple(args), text)
    new = ctx.case_seen(key, nontrivial=True)
    if not new:
        return
    if len(text) > 700 or not printable(text) or not all(printable(a) for a in args):
        stats['not_coq_printable'] += 1
        return
    cases.append('(mkCase %s %s %s %s %s)' % (cp.nat(s['idx']), cp.string(rel), cp.z(line), cp.lst(args, cp.string), cp.string(text)))
    meta.append({'site': '%s:%d' % (s['file'], s['line']), 'args': args, 'text': text[:200], 'history': hname})


def swap_compare(ctx, table, hist, wa, wb, stats):
    """direct oracle 2: same history, other secrets of the same lengths."""
    ta, tb = texts_of(wa), texts_of(wb)
    ka, kb = [k for _, k, _ in ta], [k for _, k, _ in tb]
    if ka != kb:
        stats['swap_outcome_dependent'] += 1
        ctx.notes.append('secret swap: history %s took a different path with other secrets (outcome depends on secret values); not compared' % hist['name'])
        return
    for (where, key, a), (_, _, b) in zip(ta, tb):
        if key[0] == 'client-error':
            continue
        a, b = mask(a, wa), mask(b, wb)
        if a == b:
            continue
        n, da, db = diff_span(a, b)
        stats['swap_diffs'] += 1
        if n >= 6:
            site = site_name(table, key)
            # what differs: only short numbers (<= 20 digits / 16 hex digits), or more?
            cause = 'short-number-echo' if numbers_masked(a) == numbers_masked(b) else 'text'
            ctx.violation({'oracle': 'secret-swap', 'site': site, 'channel': key[0], 'cause': cause},
                          {'history': hist['name'], 'layer': hist['layer'], 'struct_seed': wa.struct_seed,
                           'canary_seeds': [wa.can_seed, wb.can_seed], 'where': where,
                           'span_a': da[:200], 'span_b': db[:200], 'text_a': a[:500], 'trace': wa.trace[-40:],
                           'how_to_replay': 'bin/check C20 --replay <this file>'},
                          'text at %s changes with the secret values (%d characters differ) - secret-dependent output' % (site, n))


# ---------------------------------------------------------------------------------------------- entry points
def new_stats():
    from collections import Counter
    st = Counter()
    st['sites_hit'] = set()
    return st


def run(ctx):
    ctx.cov['rule'] = ('histories = curated failure-path scripts (every engine/crypto/session/client failure path we can reach) + '
                       'seeded random shuffles of the same atoms, each run twice with different high-entropy canaries of equal lengths '
                       '(key material, secret data, passwords, plaintext, IVs, salts, derivation data, signatures); a case is one '
                       'distinct (site, arguments, text) emission; non-trivial = has at least one argument or comes from a failure path')
    ctx.cov['trusted_extra'] = [
        'translate/gen_logsites.py: ast walk + hand-written whitelist of expression texts per file (classification is syntactic; '
        'a variable named like a uid that holds key bytes would be classified Uid - only the canary scan sees that)',
        'logging capture: handlers on the root and "kmip" loggers at INFO, tracebacks formatted with logging.Formatter',
        'runtime remainder (Logs/Remainder.v): third-party exception texts - canary scan and secret swap only']
    load_own_findings(ctx)
    ok_t = ctx.regen(only=['logsites'])
    ctx.prove('props/C20.v')
    selftest(ctx)
    try:
        table = Table(ctx.repo)
    except Exception as e:       # translator failed closed (already recorded by ctx.regen); oracles still run
        ctx.notes.append('site table unavailable: %r' % e)
        table = EmptyTable()
    if table.unsafe:
        ctx.notes.append('unsafe observable sites in the table: ' + '; '.join(
            '%s:%d %r' % (s['file'], s['line'], [p for p in s['parts'] if p[0] in ('SUnknown', 'SSecret')]) for s in table.unsafe[:10]))
    stats = new_stats()
    cases, meta = [], []
    rng = ctx.subrng('histories')
    hists = H.histories(ctx.tier, rng)
    for hist in hists:
        ss = rng.getrandbits(32)
        ca, cb = rng.getrandbits(32), rng.getrandbits(32)
        try:
            wa = run_history(ctx, table, hist, ss, ca, cases, meta, stats)
            wb = run_history(ctx, table, hist, ss, cb, cases, meta, stats)
        except Exception as e:
            traceback.print_exc()
            ctx.disagreement('harness', {'history': hist['name'], 'exception': repr(e)})
            continue
        swap_compare(ctx, table, hist, wa, wb, stats)
        ctx.count('history.%s' % hist['layer'])
        for k, v in wa.opcount.items():
            ctx.count(k, v)
        stats['steps'] += len(wa.trace)
        stats['canaries'] += len(wa.can.items)
    # report a canary hit (the secret itself, in a known encoding) ahead of effective-level and secret-swap witnesses
    rank = {'canary-scan': 0, 'effective-level': 1, 'secret-swap': 2}
    ctx.violations.sort(key=lambda v: rank.get(v['signature'].get('oracle'), 3))
    bad = ctx.run_cases('emissions', HEADER, cases, CHECKER,
                        what='every INFO+ record / result message re-rendered from its site of gen/LogSites.v (check_case)')
    for i in bad[:20]:
        ctx.disagreement('emissions', meta[i])
    exercised_unsafe = [s for s in table.unsafe if s['idx'] in stats['sites_hit']]
    obs_sites = [s for s in table.sites if s['kind'] not in ('KLog LDebug', 'KDead')]
    ctx.cov['c20'] = {
        'histories': len(hists), 'runs': 2 * len(hists), 'steps_per_run_total': stats['steps'],
        'canaries_planted': stats['canaries'], 'records_captured': stats['records'], 'result_messages': stats['messages'],
        'third_party_logger_records': stats['foreign_records'], 'unlisted_records': stats['unlisted_records'],
        'unexplained_messages': stats['unexplained_messages'], 'template_records': stats['template_records'],
        'not_coq_printable': stats['not_coq_printable'], 'canary_hits': stats['canary_hits'],
        'swap_text_diffs': stats['swap_diffs'], 'client_exception_texts_with_secret (outside the property)': stats['client_exception_texts_with_secret'], 'swap_outcome_dependent': stats['swap_outcome_dependent'],
        'startup_level_checks': stats['level_checks'], 'explicit_debug_log_files_showing_canaries (sanity of the leg)': stats['debug_files_with_secret'], 'table_sites': len(table.sites), 'observable_sites': len(obs_sites),
        'distinct_sites_exercised': len(stats['sites_hit']),
        'log_sites_info_plus': len([s for s in obs_sites if s['kind'].startswith('KLog')]),
        'log_sites_info_plus_exercised': len([s for s in obs_sites if s['kind'].startswith('KLog') and s['idx'] in stats['sites_hit']]),
        'unsafe_sites': ['%s:%d' % (s['file'], s['line']) for s in table.unsafe],
        'unsafe_sites_exercised': ['%s:%d' % (s['file'], s['line']) for s in exercised_unsafe]}
    ctx.log('histories %d x2, records %d, messages %d, sites exercised %d/%d observable, canary hits %d, swap diffs %d' % (
        len(hists), stats['records'], stats['messages'], len(stats['sites_hit']), len(obs_sites), stats['canary_hits'], stats['swap_diffs']))
    for m in meta[:2]:
        ctx.sample({'emission': m})
    if cases:
        ctx.sample({'coq_case': cases[len(cases) // 2][:400]})


def load_own_findings(ctx):
    """findings.d/C20.json is the source known_findings.json is merged from (bin/mkmanifest); read it directly so
    that the check does not depend on the merge having been run.  Never written at run time."""
    import json
    from pathlib import Path
    p = Path(__file__).resolve().parents[1] / 'findings.d' / 'C20.json'
    if p.exists():
        have = {f.get('id') for f in ctx.findings}
        for f in json.loads(p.read_text()):
            if f.get('property') == 'C20' and f.get('id') not in have:
                ctx.findings.append(f)


def replay(ctx, payload):
    load_own_findings(ctx)
    inp = payload.get('input') or {}
    name = inp.get('history')
    if not name:
        print('replay file names no history (it records a broken obligation/correspondence): rerun bin/check C20')
        return 2
    table = Table(ctx.repo)
    hist = H.history_by_name(name)
    seeds = inp.get('canary_seeds') or [inp.get('canary_seed')]
    stats = new_stats()
    ws = [run_history(ctx, table, hist, inp['struct_seed'], cs, [], [], stats) for cs in seeds]
    if len(ws) == 2:
        swap_compare(ctx, table, hist, ws[0], ws[1], stats)
    for v in ctx.violations[:5]:
        print('REPRODUCED:', v['what'])
        print('  ', v['witness'].get('text_excerpt') or v['witness'].get('span_a'))
    for k in ctx.known_hits:
        print('REPRODUCED (known finding):', k)
    return 1 if (ctx.violations or ctx.known_hits) else 0
