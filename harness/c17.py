"""C17 - no request is evaluated before the client's identity is established.

Model: coq/theories/Session/Session.v (cert_checks, run_plugins, slugs_authenticate, establish, handle);
theorems: coq/props/C17.v.
Tie K: the full product  certificate x enable_tls_client_auth x plugin configuration x {valid, malformed, valid}
against the real KmipSession with a real engine behind it; `requests.get` of the SLUGS connector is a scripted
stub; Coq (Session/SessionCases.v check_conn) compares engine entry, the credential passed, the bytes of every
response and the store-changed flag.
Direct oracle: the property's own list of conditions evaluated on the script, against what the engine proxy saw.
"""
import itertools
import json
import os

import kdrv
import sessdrv
import c12

HEADER = sessdrv.CASE_HEADER
URL1, URL2 = 'http://slugs-one.example:8080/slugs', 'http://slugs-two.example/'

# what one SLUGS service answers (user lookup, group lookup)
OUTCOMES = {
    'ok': (('status', 200), ('status', 200, {'groups': ['Group A', 'Group B']})),
    'ok-nogroups': (('status', 200), ('status', 200, {})),
    'ok-emptygroups': (('status', 200), ('status', 200, {'groups': []})),
    '404-user': (('status', 404), ('status', 200, {'groups': ['X']})),
    '404-groups': (('status', 200), ('status', 404, {})),
    'unreachable': (('unreachable',), ('unreachable',)),
    'groups-unreachable': (('status', 200), ('unreachable',)),
    'badjson': (('status', 200), ('status', 200, 'badjson')),
    '500-user': (('status', 500), ('status', 500, {'error': 'internal'})),
    '403-groups': (('status', 200), ('status', 403, {'groups': ['Leaked']})),
    '500-user-only': (('status', 500), ('status', 200, {'groups': ['Group A']})),
    '204-user': (('status', 204), ('status', 200, {'groups': ['Group A']})),
    '500-groups': (('status', 200), ('status', 500, {})),
}


def block(name='auth:slugs', enabled='True', url=URL1, outcome='ok'):
    u, g = OUTCOMES[outcome]
    return {'name': name, 'enabled': enabled, 'url': url, 'user': u, 'groups': g, 'outcome': outcome}


def plugin_configs(tier):
    """[(label, [blocks])]"""
    out = [('none', [])]
    out += [('disabled-False', [block(enabled='False')]), ('disabled-absent', [block(enabled=None)]),
            ('disabled-true-lowercase', [block(enabled='true')]), ('disabled-empty', [block(enabled='')])]
    out += [('unsupported-name', [block(name='auth:ldap')]), ('unsupported-name-2', [block(name='slugs')]),
            ('prefix-name', [block(name='auth:slugs-backup')])]
    for o in OUTCOMES:
        out.append(('one:' + o, [block(outcome=o)]))
    out += [('one:no-url', [block(url=None)]), ('one:url-not-string', [block(url=17)]), ('one:url-no-slash', [block(url=URL2.rstrip('/'))])]
    two = ['ok', '404-user', '404-groups', 'unreachable', 'badjson'] if tier == 'quick' else list(OUTCOMES)
    for a, b in itertools.product(two + ['no-url'], repeat=2):
        ba = block(url=None) if a == 'no-url' else block(outcome=a)
        bb = block(name='auth:slugs2', url=None) if b == 'no-url' else block(name='auth:slugs2', url=URL2, outcome=b)
        g = bb['groups']
        if len(g) > 2 and isinstance(g[2], dict) and 'groups' in g[2]:
            bb['groups'] = (g[0], g[1], {'groups': ['Second']})          # tell the second service's groups apart
        out.append(('two:%s,%s' % (a, b), [ba, bb]))
    # order matters: every arrangement of block states over two blocks (and over three in the thorough tier)
    states = {'ok': lambda n, u: block(name=n, url=u), '404user': lambda n, u: block(name=n, url=u, outcome='404-user'),
              '404groups': lambda n, u: block(name=n, url=u, outcome='404-groups'),
              'unreach': lambda n, u: block(name=n, url=u, outcome='unreachable'),
              'nourl': lambda n, u: block(name=n, url=None), 'disabled': lambda n, u: block(name=n, url=u, enabled='False'),
              'unsupported': lambda n, u: block(name=n.replace('auth:slugs', 'auth:other'), url=u)}
    urls = [URL1, URL2, 'http://slugs-three.example/api']

    def arrangement(names):
        blocks = []
        for k, st in enumerate(names):
            b = states[st]('auth:slugs%d' % (k + 1), urls[k])
            g = b['groups']
            if len(g) > 2 and isinstance(g[2], dict) and 'groups' in g[2]:
                b['groups'] = (g[0], g[1], {'groups': ['From block %d' % (k + 1)]})
            blocks.append(b)
        return ('perm:' + ','.join(names), blocks)
    for names in itertools.product(states, repeat=2):
        out.append(arrangement(names))
    three = list(itertools.product(states, repeat=3))
    if tier == 'quick':        # the arrangements ending in a block that is not consulted, and a spread of the others
        three = [t for t in three if t[2] in ('disabled', 'unsupported') and t[0] != 'ok' and t[1] != 'ok'] + three[::11]
    for names in three:
        out.append(arrangement(names))
    out += [('two:unsupported,ok', [block(name='auth:ldap'), block(name='auth:slugs2', url=URL2)]),
            ('two:disabled,ok', [block(enabled='False'), block(name='auth:slugs2', url=URL2)]),
            ('two:disabled,404-user', [block(enabled='False'), block(name='auth:slugs2', url=URL2, outcome='404-user')]),
            ('two:ok,url-not-string', [block(), block(name='auth:slugs2', url=17)]),
            ('two:url-not-string,ok', [block(url=17), block(name='auth:slugs2', url=URL2)]),
            ('three:404-user,unsupported,ok', [block(outcome='404-user'), block(name='auth:other'), block(name='auth:slugs3', url=URL2)])]
    return out


class ServerPath:
    """The REAL server in front of the session: a complete configuration file (server section, optional
    enable_tls_client_auth text, one section per plugin block) is loaded by a real KmipServer(config_path=...), and the
    session is the one KmipServer._setup_connection_handler creates for the connection - only Thread.start is held back
    so that the harness can drive that very session object frame by frame.  The server's engine is the recording proxy."""

    def __init__(self, ctx):
        import logging
        self.ctx = ctx
        self.dir = os.path.join(str(ctx.work), 'server')
        os.makedirs(self.dir, exist_ok=True)
        for n in ('server.crt', 'server.key', 'ca.crt'):
            open(os.path.join(self.dir, n), 'a').close()
        self.cache = {}
        self.logger = logging.getLogger('kmip.server')
        self.before = list(self.logger.handlers)

    def usable(self, plugins):
        names = [p['name'] for p in plugins]
        return (all(n.startswith('auth:') for n in names) and len(set(names)) == len(names)
                and all(p.get('url') is None or isinstance(p['url'], str) for p in plugins))

    def server(self, flag_text, plugins):
        from kmip.services.server import server as server_mod
        key = (flag_text, tuple((p['name'], p.get('enabled'), p.get('url')) for p in plugins))
        if key not in self.cache:
            d = self.dir
            text = ('[server]\nhostname=127.0.0.1\nport=5696\ncertificate_path=%s/server.crt\nkey_path=%s/server.key\n'
                    'ca_path=%s/ca.crt\nauth_suite=TLS1.2\nlogging_level=CRITICAL\n' % (d, d, d))
            if flag_text is not None:
                text += 'enable_tls_client_auth=%s\n' % flag_text
            for p in plugins:
                text += '[%s]\n' % p['name']
                if p.get('enabled') is not None:
                    text += 'enabled=%s\n' % p['enabled']
                if p.get('url') is not None:
                    text += 'url=%s\n' % p['url']
            path = os.path.join(d, 'server-%d.conf' % len(self.cache))
            with open(path, 'w') as f:
                f.write(text)
            self.cache[key] = server_mod.KmipServer(config_path=path, log_path=os.path.join(d, 'log', 'server.log'))
            self.close()                    # drop the log-file handler the constructor added; hundreds of servers are built
            self.ctx.count('server-path.servers-built')
        return self.cache[key]

    def factory(self, flag_text, plugins):
        """session_factory for sessdrv.run_spec"""
        srv = self.server(flag_text, plugins)

        def make(proxy, conn, address):
            made = []
            srv._engine = proxy
            orig = sessdrv.session_mod.KmipSession.start
            sessdrv.session_mod.KmipSession.start = lambda this: made.append(this)
            try:
                srv._setup_connection_handler(conn, address)
            finally:
                sessdrv.session_mod.KmipSession.start = orig
            if len(made) != 1:
                raise RuntimeError('KmipServer._setup_connection_handler created %d sessions' % len(made))
            self.ctx.count('server-path.sessions')
            return made[0]
        return make

    def close(self):
        for h in [h for h in self.logger.handlers if h not in self.before]:
            self.logger.removeHandler(h)
            try:
                h.close()
            except Exception:
                pass


def flag_text_for(tls, n):
    """a spelling of enable_tls_client_auth that MEANS tls (None = option absent = on)"""
    words = (TRUE_SPELLINGS + (None,)) if tls else FALSE_SPELLINGS
    w = words[n % len(words)]
    return w if w is None else (w, w.upper(), w.capitalize())[(n // 7) % 3]


def cert_shapes(tier):
    out = [('absent', None)]
    ekus = ['absent', 'server', 'client'] + ([] if tier == 'quick' else ['both'])
    for cns in ((), ('alice',), ('alice', 'bob')):
        for e in ekus:
            out.append(('%dcn-%s' % (len(cns), e), (cns, e)))
    out.append(('1cn-both', (('carol',), 'both')))
    # every way X.509 can encode that number of common names: multi-valued RDNs, CN sharing an RDN, CN not first
    layouts = [('2cn-one-rdn', ('admin', 'mallory'), [['CN:admin', 'CN:mallory']]),
               ('2cn-one-rdn+o', ('admin', 'mallory'), [['O:verif'], ['CN:admin', 'CN:mallory']]),
               ('3cn-mixed', ('admin', 'bob', 'mallory'), [['CN:admin'], ['CN:bob', 'CN:mallory']]),
               ('3cn-one-rdn', ('a', 'b', 'c'), [['CN:a', 'CN:b', 'CN:c'], ['O:verif']]),
               ('1cn+ou-one-rdn', ('alice',), [['CN:alice', 'OU:ops']]),
               ('1cn-not-first', ('alice',), [['O:verif'], ['OU:ops'], ['CN:alice']]),
               ('0cn-multi-rdn', (), [['O:verif', 'OU:ops']])]
    for lab, cns, layout in layouts:
        for e in (['client', 'absent'] if tier == 'quick' else ekus):
            out.append(('%s-%s' % (lab, e), (cns, e, layout)))
    return out


def eku_set_shapes(tier):
    """Certificates (one CN) whose extended key usage is every non-empty subset of size <= 3 (quick: 1..2 plus the size-3 subsets
    containing anyExtendedKeyUsage) of all standard usages + anyExtendedKeyUsage + an unknown OID, critical and not."""
    names = list(sessdrv.EKU_OIDS)
    out = []
    # size 0 = no extension at all (the 'absent' shapes); an extension with an EMPTY usage list violates RFC 5280
    # (SEQUENCE SIZE (1..MAX)), cryptography refuses to parse it and the session answers INVALID_MESSAGE - left out
    for k in range(1, 4):
        for sub in itertools.combinations(names, k):
            if tier == 'quick' and k == 3 and 'any' not in sub:
                continue
            for critical in (True, False):
                eku = ('set', sub, critical)
                try:
                    sessdrv.make_cert(['alice'], eku)
                except Exception:
                    continue                                   # cryptography refuses to encode this one
                out.append(('1cn-eku{%s}%s' % (','.join(sub), '!' if critical else ''), (('alice',), eku)))
    return out


TRUE_SPELLINGS, FALSE_SPELLINGS = ('1', 'yes', 'true', 'on'), ('0', 'no', 'false', 'off')


def flag_spellings():
    """(text in the file | None = option absent, what it means).  ConfigParser.getboolean: 1/yes/true/on and
    0/no/false/off in any letter case; the option absent = the documented default (check enabled)."""
    out = [(None, True)]
    for words, val in ((TRUE_SPELLINGS, True), (FALSE_SPELLINGS, False)):
        for w in words:
            for v in sorted({w, w.upper(), w.capitalize(), w[0].upper() + w[1:].lower() if len(w) > 1 else w, w.swapcase()}):
                out.append((v, val))
    return out


def server_settings_from_file(ctx, flag_text):
    """Write a complete server configuration file, load it with the real KmipServerConfig.load_settings and return the
    settings dict - the session is then built from it exactly as KmipServer._setup_connection_handler does."""
    from kmip.services.server import config as server_config
    d = str(ctx.work)
    for n in ('server.crt', 'server.key', 'ca.crt'):
        open(os.path.join(d, n), 'a').close()
    text = ('[server]\nhostname=127.0.0.1\nport=5696\ncertificate_path=%s/server.crt\nkey_path=%s/server.key\n'
            'ca_path=%s/ca.crt\nauth_suite=TLS1.2\n' % (d, d, d))
    if flag_text is not None:
        text += 'enable_tls_client_auth=%s\n' % flag_text
    path = os.path.join(d, 'server-full.conf')
    with open(path, 'w') as f:
        f.write(text)
    cfg = server_config.KmipServerConfig()
    cfg.load_settings(path)
    return cfg.settings


# ---------------------------------------------------------------------------------------------- the property, on the script
def vouches(b):
    """Does this SLUGS service vouch for the user?  (both look-ups reachable and answered 200 with a JSON document)"""
    if not isinstance(b['url'], str):
        return None
    u, g = b['user'], b['groups']
    if u[0] != 'status' or u[1] != 200:
        return None
    if g[0] != 'status' or g[1] != 200 or g[2] == 'badjson':
        return None
    return (g[2].get('groups'),)


def expected_identity(spec):
    """The identity the property allows the session to establish, or None: certificate present, clientAuth EKU when
    the check is on, exactly one CN, and - when plugins are enabled - the first enabled plugin that vouches."""
    if spec['cert'] is None:
        return None
    cns, eku = spec['cert'][0], spec['cert'][1]
    if spec['tls'] and sessdrv.eku_kind(eku) != 'client':
        return None
    if len(cns) != 1:
        return None
    enabled = [b for b in spec['plugins'] if b['name'].startswith('auth:slugs') and b.get('enabled') == 'True']
    if not enabled:
        return (cns[0], None)
    for b in enabled:
        v = vouches(b)
        if v is not None:
            return (cns[0], v[0])
    return None


def spec_at(spec, i):
    """The script as it stands while frame i is handled (plugins with 'phases' change their answers per frame)."""
    out = dict(spec)
    out['plugins'] = [dict(b, user=b['phases'][min(i, len(b['phases']) - 1)][0], groups=b['phases'][min(i, len(b['phases']) - 1)][1])
                      if b.get('phases') else b for b in spec['plugins']]
    return out


def oracle(ctx, label, spec0, obs):
    cert = spec0['cert']
    if cert is not None and len(cert[0]) == 1:
        cn = cert[0][0]
        for url in obs.get('slugs_calls', []):
            asked = url.split('/users/', 1)[1] if '/users/' in url else None
            asked = asked[:-len('/groups')] if asked is not None and asked.endswith('/groups') else asked
            if asked != cn:
                ctx.violation({'kind': 'slugs-asked-about-another-name'}, {'config': label, 'cert': cert, 'url': url, 'common_name': cn},
                              'the SLUGS service was asked about %r while the certificate says %r' % (asked, cn))
                break
    for i, f in enumerate(obs['frames']):
        spec = spec_at(spec0, i)
        want = expected_identity(spec)
        statuses = sorted({x[1] for b in spec['plugins'] for x in (b['user'], b['groups']) if x[0] == 'status'})
        w = {'config': label, 'cert': spec['cert'], 'tls': spec['tls'], 'plugins': spec['plugins'], 'frame_index': i,
             'frame_hex': f['frame'].hex()[:600], 'expected_identity': want,
             'engine_credential': f['engine']['credential'] if f['engine'] else None}
        changed = f['dump_before'] != f['dump_after']
        if f['engine'] is not None:
            got = f['engine']['credential']
            got = (got[0], got[1]) if got is not None else None
            if want is None:
                odd = [x for x in statuses if x not in (200, 404)]
                ctx.violation({'kind': 'engine-entered-unvouched' if odd else 'engine-entered-unestablished',
                               'slugs_status_class': 'neither-200-nor-404' if odd else None}, w,
                              'request processing entered although no identity could be established from certificate/plugins')
                continue
            elif got != want:
                ctx.violation({'kind': 'wrong-identity'}, w, 'identity handed to request processing differs from the one established')
            if f['ncalls'] != 1:
                ctx.violation({'kind': 'engine-entered-twice'}, w, 'process_request entered %d times for one request' % f['ncalls'])
        if want is None:
            if changed:
                ctx.violation({'kind': 'failure-touched-store'}, w, 'an unauthenticated request changed the store')
            if f['escaped'] is not None or len(f['sent']) != 1:
                ctx.violation({'kind': 'failure-no-response'}, w, 'an authentication failure was not answered with exactly one response')
                continue
            try:
                env = sessdrv.check_response_envelope(f['sent'][0])
            except sessdrv.TTLVError as e:
                ctx.violation({'kind': 'failure-malformed-response'}, w, 'authentication failure response malformed: %s' % e)
                continue
            reasons = [it['reason'] for it in env['items']]
            allowed = [sessdrv.REASON_AUTH_NOT_SUCCESSFUL]
            if obs['parse'][i] is None:
                allowed.append(sessdrv.REASON_INVALID_MESSAGE)          # nothing to authenticate: the request is garbage
            if f['engine'] is None and (len(reasons) != 1 or reasons[0] not in allowed or env['items'][0]['status'] != 1):
                ctx.violation({'kind': 'failure-wrong-reason', 'reason': reasons[0] if reasons else None}, w,
                              'authentication failure answered with reason %r' % reasons)


def run(ctx):
    quick = ctx.tier == 'quick'
    ctx.cov['rule'] = (
        'full product: certificate {absent; 0/1/2 common names x EKU absent/serverAuth only/clientAuth(/both); the same numbers of '
        'common names (0..3) encoded as multi-valued RDNs, CN sharing an RDN, CN not in the first RDN} x '
        'enable_tls_client_auth {on, off} x plugin configuration {none; disabled 4 ways; unsupported/prefix names; one SLUGS '
        'block with each of 13 service behaviours (200, no groups key, empty groups, 404 user, 404 groups, unreachable, groups unreachable, bad JSON, 500/204 user, 403/500 groups) or no/'
        'non-string url; two blocks over the product of behaviours; every ordered arrangement of 7 block states over two blocks '
        '(and over three: all in thorough, those ending in a non-consulted block + a spread in quick); mixed} x one connection '
        '[valid Create or Destroy, malformed frame, valid Get, Query, DiscoverVersions, Query+DiscoverVersions, empty batch, '
        'DiscoverVersions+Create - all five for every third cell, one of them otherwise, kinds and versions 1.0..2.0 rotating] against the real session with a real engine (thorough: plain certificates x every configuration of <= 2 blocks, subject encodings x single blocks and all two-block '
        'arrangements, 6 decisive certificates x all three-block arrangements; quick: '
        'plain shapes x basic configurations in full, arrangements x 5 decisive certificates, subject encodings x 8 decisive '
        'configurations); for every second cell the '
        'session is the one a REAL KmipServer, built from a configuration file saying the same, creates in _setup_connection_handler.  '
        'Every cell is run; a case is '
        'distinct by (certificate shape, flag, configuration).  Plus: one-CN certificates whose extended key usage is every subset '
        '(size 1..3; size 0 = the extension-absent shapes) of {serverAuth, clientAuth, codeSigning, emailProtection, timeStamping, OCSPSigning, anyExtendedKeyUsage, unknown OID}, '
        'critical and not, x flag; and complete server configuration FILES with every spelling ConfigParser.getboolean accepts for '
        'enable_tls_client_auth (and the option absent) x 5 certificate kinds, and every plugin section name the session rule accepts '
        '(auth:slugs, auth:slugs:primary, auth:slugs2, auth:slugs-backup, auth:slugs_eu, ... alone and in pairs), all through a real '
        'KmipServer; common names with leading/trailing/double white space, tab, NBSP, case and Unicode-form variants next to a '
        'SLUGS service that knows the tidy names only; requests whose header carries a username/password, device or attestation credential naming '
        'ANOTHER user (Create, Get/GetAttributes/Activate on that user\'s objects) over a connection of CN=mallory: owner and access '
        'decisions must be mallory\'s.')
    ctx.regen(only=['enums'])
    ctx.prove('props/C17.v')

    seed_path, info = c12.make_seed_db(ctx.work)
    pool = c12.Pool(ctx, seed_path)
    cases, meta = [], []
    server_path = ServerPath(ctx)
    try:
        px = pool.fresh()
        b = kdrv.Engine.build
        create = sessdrv.encode_request(b(None, [kdrv.create()], version=(1, 4)), (1, 4))
        get = sessdrv.encode_request(b(None, [kdrv.get('1')], version=(2, 0)), (2, 0))
        destroy = sessdrv.encode_request(b(None, [kdrv.destroy('5')], version=(1, 0)), (1, 0))
        garbage = c12.reframe(b'\x42\x00\x78\x01\x00\x00\x00\x00' + b'\x42\x00\x77\x01\x00\x00\x00\x10' + b'\xff' * 16)
        stream = create + garbage + get
        # the request dimension: NO request may be processed before the identity is established - not the ones a client
        # sends first either (Query, DiscoverVersions, both, an empty batch, negotiation + Create), under every version
        def negotiation_frames(v):
            mk = lambda items, **kw: sessdrv.encode_request(b(None, items, version=v, **kw), v)
            return [mk([kdrv.query()]), mk([kdrv.discover_versions()]), mk([kdrv.query(), kdrv.discover_versions([(1, 0)])]),
                    mk([]), mk([kdrv.discover_versions(), kdrv.create()])]
        nego_all = [negotiation_frames(v) for v in kdrv.VERSIONS]

        def nego_for(n):
            """every third cell gets all five negotiation requests, the others one of them; kinds and versions rotate"""
            fr = nego_all[n % len(nego_all)]
            return b''.join(fr) if n % 3 == 0 else fr[(n // 3) % 5]
        n = 0
        certs, configs = cert_shapes(ctx.tier), plugin_configs(ctx.tier)
        if quick:
            # full product of the plain shapes and the basic configurations; the ordered arrangements against the decisive
            # certificate shapes; the alternative subject encodings against the decisive configurations
            base_c = [c for c in certs if c[1] is None or len(c[1]) == 2]
            lay_c = [c for c in certs if c[1] is not None and len(c[1]) > 2]
            base_p = [p for p in configs if not p[0].startswith('perm:')]
            perm_p = [p for p in configs if p[0].startswith('perm:')]
            key_c = [c for c in base_c if c[0] in ('absent', '0cn-client', '1cn-client', '1cn-absent', '2cn-client')]
            key_p = [p for p in configs if p[0] in ('none', 'one:ok', 'one:404-user', 'disabled-False', 'two:404-user,ok',
                                                    'perm:404user,disabled', 'perm:ok,disabled', 'perm:unreach,ok')]
            cells = (list(itertools.product(base_c, (True, False), base_p)) + list(itertools.product(key_c, (True, False), perm_p))
                     + list(itertools.product(lay_c, (True, False), key_p)))
        else:
            # plain shapes x every configuration (incl. all arrangements over three blocks); the alternative subject
            # encodings x every configuration of at most two blocks
            base_c = [c for c in certs if c[1] is None or len(c[1]) == 2]
            lay_c = [c for c in certs if c[1] is not None and len(c[1]) > 2]
            upto2 = [p for p in configs if len(p[1]) <= 2]
            three = [p for p in configs if len(p[1]) > 2]
            key_c = [c for c in base_c if c[0] in ('absent', '0cn-client', '1cn-client', '1cn-absent', '1cn-both', '2cn-client')]
            lay_p = [p for p in upto2 if not p[0].startswith('two:')]
            cells = (list(itertools.product(base_c, (True, False), upto2)) + list(itertools.product(lay_c, (True, False), lay_p))
                     + list(itertools.product(key_c, (True, False), three)))
        for (clabel, cert), tls, (plabel, plugins) in cells:
            label = '%s|tls=%s|%s' % (clabel, tls, plabel)
            s = (stream if n % 7 else destroy + garbage + get) + nego_for(n)    # now and then a destructive first request
            sizes = [len(s)] if n % 3 else [8, len(s) - 8]
            spec = sessdrv.default_spec(s, sizes, cert=cert, tls=tls, plugins=plugins)
            c0 = len(px.calls)
            # every second cell: the session is the one a real KmipServer creates from a configuration file saying the same
            fac = server_path.factory(flag_text_for(tls, n), plugins) if n % 2 and server_path.usable(plugins) else None
            obs, _ = sessdrv.run_spec(px, spec, session_factory=fac)
            calls = px.calls[c0:]
            oracle(ctx, label, spec, obs)
            if len(obs['frames']) != len(c12.frames_py(s)) or obs['end'] != 'closed':
                ctx.violation({'kind': 'loop'}, {'config': label}, 'the connection did not serve all its frames and close')
            try:
                cases.append(sessdrv.coq_case(spec, obs, calls))
            except ValueError as e:         # nothing the model could even be asked about
                ctx.disagreement('establish', {'config': label, 'unprintable': str(e)})
                continue
            meta.append({'config': label, 'cert': cert, 'tls': tls, 'plugins': plugins, 'entered': [bool(f['engine']) for f in obs['frames']]})
            ctx.case_seen((clabel, tls, plabel), nontrivial=True)
            ctx.count('cert.' + clabel)
            ctx.count('plugins.' + plabel.split(':')[0])
            ctx.count('layout.' + ('multi-valued-or-reordered' if cert is not None and len(cert) > 2 else 'plain'))
            ctx.count('outcome.' + ('established' if c12_entered(obs) else 'refused'))
            n += 1
            if n % 300 == 0:
                pool.release(px)
                px = pool.fresh()
        def run_cell(label, spec, factory, model=True):
            c0 = len(px.calls)
            obs, _ = sessdrv.run_spec(px, spec, session_factory=factory)
            oracle(ctx, label, spec, obs)
            if model:
                try:
                    cases.append(sessdrv.coq_case(spec, obs, px.calls[c0:]))
                    meta.append({'config': label, 'cert': spec['cert'], 'tls': spec['tls'], 'plugins': spec['plugins'],
                                 'entered': [bool(f['engine']) for f in obs['frames']]})
                except ValueError as e:
                    ctx.disagreement('establish', {'config': label, 'unprintable': str(e)})
            ctx.case_seen(label, nontrivial=True)
            return obs

        # every extended-key-usage set: only a certificate that CARRIES clientAuth passes the enabled check
        key_p = [p for p in plugin_configs(ctx.tier) if p[0] in ('none', 'one:ok')]
        for (clabel, cert), tls, (plabel, plugins) in itertools.product(eku_set_shapes(ctx.tier), (True, False), key_p[:1] if quick else key_p):
            label = '%s|tls=%s|%s' % (clabel, tls, plabel)
            spec = sessdrv.default_spec(create + get + nego_for(len(cases)), cert=cert, tls=tls, plugins=plugins)
            c0 = len(px.calls)
            obs, _ = sessdrv.run_spec(px, spec)
            oracle(ctx, label, spec, obs)
            try:
                cases.append(sessdrv.coq_case(spec, obs, px.calls[c0:]))
            except ValueError as e:
                ctx.disagreement('establish', {'config': label, 'unprintable': str(e)})
                continue
            meta.append({'config': label, 'cert': cert, 'tls': tls, 'plugins': plugins, 'entered': [bool(f['engine']) for f in obs['frames']]})
            ctx.case_seen((clabel, tls, plabel), nontrivial=True)
            ctx.count('eku-sets.' + sessdrv.eku_kind(cert[1]))
        # the configuration FILE in front of the session: what the file says about enable_tls_client_auth is what the
        # session must enforce (session built from the loaded settings exactly as KmipServer._setup_connection_handler does)
        for (text, meaning), (clabel, cert) in itertools.product(
                flag_spellings(), [c for c in cert_shapes(ctx.tier) if c[0] in ('absent', '1cn-absent', '1cn-server', '1cn-client', '2cn-client')]):
            label = '%s|file:enable_tls_client_auth=%s|none' % (clabel, text)
            spec = sessdrv.default_spec(create + garbage + get + nego_for(len(cases)), cert=cert, tls=meaning, plugins=[])
            run_cell(label, spec, server_path.factory(text, []))
            ctx.count('config-file.' + ('absent' if text is None else str(meaning)))
        # every section name the session's own rule (name starts with "auth:slugs") accepts, alone and in pairs
        names = ['auth:slugs', 'auth:slugs:primary', 'auth:slugs2', 'auth:slugs-backup', 'auth:slugs_eu', 'auth:slugsX', 'auth:slug', 'auth:other']
        named = [[block(name=nm, outcome=o)] for nm in names for o in ('ok', '404-user')]
        named += [[block(name=a, outcome='404-user'), block(name=c, url=URL2, outcome='ok')] for a, c in
                  (('auth:slugs2', 'auth:slugs_eu'), ('auth:slugs', 'auth:slugs-backup'), ('auth:slugs:a', 'auth:slugs:b'), ('auth:other', 'auth:slugs2'))]
        for plugins, (clabel, cert), (text, meaning) in itertools.product(
                named, [c for c in cert_shapes(ctx.tier) if c[0] in ('1cn-client', '1cn-absent')], ((None, True), ('off', False))):
            label = '%s|file:%s|names:%s' % (clabel, text, ','.join('%s=%s' % (p['name'], p['outcome']) for p in plugins))
            spec = sessdrv.default_spec(create + get + nego_for(len(cases)), cert=cert, tls=meaning, plugins=plugins)
            run_cell(label, spec, server_path.factory(text, plugins))
            ctx.count('server-path.section-names')
        # the common name, byte for byte: white space, case, Unicode forms - next to a user whose name is the tidy form.
        # The SLUGS service knows 'alice', 'John Doe' and NFC 'é' (and nobody else).
        known = {'alice': ['Group A'], 'John Doe': ['Staff'], '\u00e9': ['Accents']}
        for cn in (' alice', 'alice ', 'alice', 'John  Doe', 'John Doe', 'alice\t', 'alice\u00a0', 'Alice', 'ALICE', 'e\u0301', '\u00e9',
                   '\uff41\uff4c\uff49\uff43\uff45', ' ', 'alice\n', 'a lice'):
            try:
                sessdrv.make_cert([cn], 'client')
            except Exception:
                continue
            for plugins in ([], [dict(block(), users=known)]):
                for b_ in plugins:                          # what that service answers for this very name
                    hit = cn in b_['users']
                    b_['user'] = ('status', 200 if hit else 404)
                    b_['groups'] = ('status', 200, {'groups': b_['users'][cn]}) if hit else ('status', 404, {})
                label = 'cn=%r|tls=True|%s' % (cn, 'slugs-knows-alice' if plugins else 'none')
                spec = sessdrv.default_spec(create + get + nego_for(len(cases)), cert=((cn,), 'client'), tls=True, plugins=plugins)
                run_cell(label, spec, None, model=all(32 <= ord(ch) < 127 for ch in cn))
                ctx.count('common-name.variants')
        # the identity the ENGINE evaluates under (owner of created objects, access decisions) is the one the session
        # established - whatever credential the client writes into its own request header (real engine behind the real session)
        from kmip.core import enums as E, objects as cobj
        from kmip.core.messages import contents as kcontents

        def header_auth(kind, name):
            if kind == 'username':
                cred = cobj.Credential(E.CredentialType.USERNAME_AND_PASSWORD, cobj.UsernamePasswordCredential(name, 'any password'))
            elif kind == 'username-nopw':
                cred = cobj.Credential(E.CredentialType.USERNAME_AND_PASSWORD, cobj.UsernamePasswordCredential(name))
            elif kind == 'device':
                cred = cobj.Credential(E.CredentialType.DEVICE, cobj.DeviceCredential(device_serial_number='sn-1', password='pw',
                                       device_identifier=name, network_identifier=name, machine_identifier=name, media_identifier=name))
            else:
                cred = cobj.Credential(E.CredentialType.ATTESTATION, cobj.AttestationCredential(
                    nonce=cobj.Nonce(nonce_id=b'\x01', nonce_value=b'\x02'), attestation_type=E.AttestationType.TPM_QUOTE,
                    attestation_measurement=name.encode(), attestation_assertion=name.encode()))
            return kcontents.Authentication([cred])

        def owners(dump):
            return {r['uid']: r.get('owner') for r in dump.get('managed_objects', [])}
        alice_uid = '1'                                     # the seed store's key 1 belongs to 'alice'
        slugs_mallory = dict(block(), users={'mallory': ['Group M'], 'alice': ['Group A']})
        for kind, v, plugins in itertools.product(('username', 'username-nopw', 'device', 'attestation'), ((1, 0), (1, 2), (1, 4), (2, 0)),
                                                  ([], [slugs_mallory])):
            if kind == 'attestation' and v < (1, 2):
                continue
            for b_ in plugins:
                b_['user'], b_['groups'] = ('status', 200), ('status', 200, {'groups': b_['users']['mallory']})
            try:
                mk = lambda items: sessdrv.encode_request(b(None, items, version=v, auth=header_auth(kind, 'alice')), v)
                frames = [mk([kdrv.create()]), mk([kdrv.get(alice_uid)]), mk([kdrv.get_attributes(alice_uid)]), mk([kdrv.activate('2')])]
            except Exception:
                continue                                   # this credential type does not exist under this version
            label = 'header-credential:%s(alice)|v%d.%d|cert=mallory|%s' % (kind, v[0], v[1], 'slugs' if plugins else 'none')
            spec = sessdrv.default_spec(b''.join(frames), cert=(('mallory',), 'client'), tls=True, plugins=plugins)
            obs = run_cell(label, spec, None)
            ctx.count('header-credential.' + kind)
            for i, f in enumerate(obs['frames']):
                w = {'config': label, 'frame_index': i, 'frame_hex': f['frame'].hex()[:1200], 'cert': spec['cert'], 'tls': True, 'plugins': plugins}
                before, after = owners(f['dump_before']), owners(f['dump_after'])
                made = [u for u in after if u not in before]
                if any(after[u] != 'mallory' for u in made):
                    ctx.violation({'kind': 'evaluated-under-another-identity', 'effect': 'owner'}, dict(w, owners={u: after[u] for u in made}),
                                  'an object created over the connection of certificate CN=mallory is owned by %r (named in the request header)'
                                  % [after[u] for u in made][0])
                if i in (1, 2, 3) and len(f['sent']) == 1:
                    env = sessdrv.check_response_envelope(f['sent'][0])
                    if any(it['status'] == 0 for it in env['items']):
                        ctx.violation({'kind': 'evaluated-under-another-identity', 'effect': 'access'}, dict(w, answer=env),
                                      "mallory's request on alice's object succeeded because the request header names alice")
                if f['dump_before'] != f['dump_after'] and i in (1, 2, 3):
                    ctx.violation({'kind': 'evaluated-under-another-identity', 'effect': 'store'}, w, "mallory's request changed alice's object")
        # the service's answers change while the connection is open: every request is authenticated afresh
        for names in (['ok', '404-user', 'ok'], ['404-user', 'ok', 'unreachable'], ['ok', 'ok-nogroups', '500-user-only'],
                      ['unreachable', 'unreachable', 'ok'], ['ok', '404-groups', '404-groups']):
            for tls in (True, False):
                blk = block()
                blk['phases'] = [OUTCOMES[x] for x in names]
                blk['user'], blk['groups'] = blk['phases'][0]
                spec = sessdrv.default_spec(create + get + get, cert=(('alice',), 'client'), tls=tls, plugins=[blk])
                obs, _ = sessdrv.run_spec(px, spec)
                oracle(ctx, 'changing:' + ','.join(names), spec, obs)
                entered = [f['engine']['credential'] if f['engine'] else None for f in obs['frames']]
                want = [expected_identity(spec_at(spec, i)) for i in range(3)]
                if [None if e is None else (e[0], e[1]) for e in entered] != want:
                    # entering without a voucher is reported by oracle() above; a vouched request that is refused is not
                    # forbidden by the property, it only breaks the correspondence with the model (authenticate per request)
                    ctx.disagreement('establish-changing', {'phases': names, 'tls': tls, 'entered': entered, 'expected': want})
                ctx.case_seen(('changing', tuple(names), tls), nontrivial=True)
                ctx.count('plugins.changing')
        pool.release(px)
    finally:
        pool.close()
        server_path.close()
    bad = ctx.run_cases('establish', HEADER, cases, 'check_conn', shard=150,
                        what='cert_checks/authenticate/handle (Session/Session.v) vs KmipSession over the full configuration product')
    for i in bad[:20]:
        ctx.disagreement('establish', meta[i])
    ctx.sample({'case': meta[0]})
    ctx.sample({'case': meta[len(meta) // 2]})
    ctx.sample({'case': meta[-1]})
    ctx.cov['trusted_extra'] = [
        'harness/sessdrv.py: generated certificates (cryptography), scripted requests.get, fake connection, recording engine proxy, printers',
        'cryptography X.509 parsing of common names and extended key usage is exercised, not modelled']


def c12_entered(obs):
    return any(f['engine'] for f in obs['frames'])


def replay(ctx, payload):
    w = payload.get('input', {})
    seed_path, info = c12.make_seed_db(ctx.work)
    pool = c12.Pool(ctx, seed_path)
    try:
        px = pool.fresh()
        cert = ((tuple(w['cert'][0]), w['cert'][1]) + ((w['cert'][2],) if len(w['cert']) > 2 else ())) if w.get('cert') else None
        plugins = [dict(p, user=tuple(p['user']), groups=tuple(p['groups'])) for p in w.get('plugins', [])]
        frame = bytes.fromhex(w['frame_hex']) if len(w.get('frame_hex', '')) < 600 else \
            sessdrv.encode_request(kdrv.Engine.build(None, [kdrv.create()], version=(1, 4)), (1, 4))
        if any(p.get('phases') for p in plugins):          # answers change per frame: replay the whole three-frame connection
            mk = lambda items, v: sessdrv.encode_request(kdrv.Engine.build(None, items, version=v), v)
            frame = mk([kdrv.create()], (1, 4)) + mk([kdrv.get('1')], (2, 0)) * 2
        spec = sessdrv.default_spec(frame, cert=cert, tls=w.get('tls', True), plugins=plugins)
        obs, _ = sessdrv.run_spec(px, spec)
        oracle(ctx, w.get('config', 'replay'), spec, obs)
        for i, f in enumerate(obs['frames']):
            print('frame', i, 'engine entered:', bool(f['engine']), 'credential:', f['engine']['credential'] if f['engine'] else None,
                  'identity the property allows:', expected_identity(spec_at(spec, i)))
    finally:
        pool.close()
    print('replay: %d oracle hit(s)' % (len(ctx.violations) + len(ctx.known_hits)))
    return 1 if ctx.violations else 0
