"""C01 - TTLV codec round trip for every encodable value and KMIP version.

  regen      translate/gen_schemas.py: read()/write() pairs -> coq/gen/Schemas.v + schemas.json  (tie T, fail closed)
  prove      props/C01.v (primitive + generic structure round-trip theorems, E_ok on the regenerated env)
  K prims    Base/PrimCases.v on kmip/core/primitives.py (shared with C02)
  K structs  for every class of the schema x every KMIP version: values generated FROM THE SCHEMA, encoded by an
             encoder independent of PyKMIP (harness/schemagen.py), plus mutated encodings, fed to the REAL class
             (read then write); Coq (Codec/SchemaCases.v) compares with the interpreter rd/wr under E
  oracle     on the implementation alone, for ALL classes (also the hand-modelled ones): write(read(b)) == b for
             valid b, read(write(x)) == x, second encode == first, encoding under another version leaves the object
             unchanged, decode-encode-decode stability for every accepted byte string, constructor path round trip
"""
import ast
import importlib
import inspect
import json
import logging
import struct
from pathlib import Path

import prims
import schemagen as sg
from vlib import coqprint as cp
from vlib import core

logging.getLogger('kmip').setLevel(logging.CRITICAL + 1)

HEADER = ('From PK Require Import Codec.SchemaCases.\nFrom PKGen Require Import Schemas.\n'
          'From Coq Require Import ZArith String List.\nImport ListNotations.\nOpen Scope Z_scope.\n'
          'Notation length := List.length.\n')
FUEL = 14
SKIP = object()


def kmip():
    from kmip.core import enums, utils
    return enums, utils


def kver(v):
    enums, _ = kmip()
    return {10: enums.KMIPVersion.KMIP_1_0, 11: enums.KMIPVersion.KMIP_1_1, 12: enums.KMIPVersion.KMIP_1_2,
            13: enums.KMIPVersion.KMIP_1_3, 14: enums.KMIPVersion.KMIP_1_4, 20: enums.KMIPVersion.KMIP_2_0}[v]


# ------------------------------------------------------------------ driving the real classes
def impl_read(cls, bs, v):
    """-> (obj, rest) or (None, exception name)"""
    _, utils = kmip()
    try:
        obj = cls()
        s = utils.BytearrayStream(bs)
        obj.read(s, kmip_version=kver(v))
        return obj, bytes(s.buffer)
    except Exception as e:          # any exception is a refusal as far as the codec round trip is concerned
        return None, type(e).__name__


def impl_write(obj, v):
    """-> bytes or None (raised)"""
    _, utils = kmip()
    try:
        s = utils.BytearrayStream()
        obj.write(s, kmip_version=kver(v))
        return bytes(s.buffer)
    except Exception:
        return None


def impl_write_exc(obj, v):
    _, utils = kmip()
    try:
        s = utils.BytearrayStream()
        obj.write(s, kmip_version=kver(v))
        return bytes(s.buffer), None
    except Exception as e:
        return None, '%s: %s' % (type(e).__name__, str(e)[:120])


def graph(obj, seen=None):
    """every TTLV object (kmip.core.primitives.Base instance) reachable from obj through attributes and lists"""
    from kmip.core import primitives
    if seen is None:
        seen = {}
    if isinstance(obj, primitives.Base):
        if id(obj) in seen:
            return seen
        seen[id(obj)] = obj
        for k, x in vars(obj).items():
            if k not in ('logger',):
                graph(x, seen)
    elif isinstance(obj, (list, tuple)):
        for x in obj:
            graph(x, seen)
    return seen


def has_eq(obj):
    """__eq__ is a value comparison only if the class and every TTLV object below it define one
    (GetResponsePayload.__eq__ compares secrets whose classes inherit identity comparison)"""
    return all(type(o).__eq__ is not object.__eq__ for o in graph(obj).values())


def boolean_with_odd_length(obj):
    """header state that read() keeps and write() re-emits although it is not part of the value: a Boolean whose
    (unchecked) length field is not 8; a Struct subclass without read/write of its own (Base.read/Base.write:
    contents.MessageExtension) whose length field is not 0"""
    from kmip.core import primitives
    for o in graph(obj).values():
        if isinstance(o, primitives.Boolean) and o.length != 8:
            return True
        if isinstance(o, primitives.Struct) and type(o).read is primitives.Base.read and o.length not in (0, None):
            return True
    return False


def same_obj(a, b):
    """True / False by __eq__ when the class defines it, None otherwise"""
    if not has_eq(a):
        return None
    try:
        return (a == b) is True
    except Exception:
        return False


def retag_only(before, after):
    """the two encodings differ only in 3-byte tag fields that read ATTRIBUTE_VALUE (42000b) before"""
    if before is None or after is None or len(before) != len(after):
        return False
    i, n, any_diff = 0, len(before), False
    while i < n:
        if before[i] != after[i]:
            j = max(0, i - 2)
            k = next((x for x in range(j, i + 1) if before[x:x + 3] == b'\x42\x00\x0b'), None)
            if k is None:
                return False
            any_diff = True
            i = k + 3
        else:
            i += 1
    return any_diff


# ------------------------------------------------------------------ wall-clock budget (the check must always terminate)
import time as _time
PHASE_BUDGET = {'quick': 150.0, 'thorough': 720.0}       # seconds of CPU time of THIS process spent on generation + oracle work
                                                          # (process time, not wall clock: neither coqc nor the load of the machine counts)
MAX_VIOLATIONS = 40                                       # enough concrete inputs: stop generating


class HardStop(BaseException):
    """raised by the watchdog inside a single read()/write() call that does not return (not an Exception: the
    `except Exception` around the implementation calls must not swallow it)"""


class watchdog:
    """with watchdog(budget, seconds): ... -> the block is abandoned (HardStop) when it runs longer than `seconds`"""
    def __init__(self, budget, seconds, where):
        self.budget, self.seconds, self.where = budget, seconds, where

    def __enter__(self):
        import signal

        def fire(signum, frame):
            raise HardStop(self.where)
        try:
            self.old = signal.signal(signal.SIGVTALRM, fire)          # CPU time of this process: a loaded machine does not trip it
            signal.setitimer(signal.ITIMER_VIRTUAL, self.seconds)
        except ValueError:              # not in the main thread: no watchdog
            self.old = None
        return self

    def __exit__(self, et, ev, tb):
        import signal
        if self.old is not None:
            signal.setitimer(signal.ITIMER_VIRTUAL, 0)
            signal.signal(signal.SIGVTALRM, self.old)
        if et is HardStop:
            if not self.budget.stopped:
                self.budget.stopped = 'time budget: a single implementation call did not return within the hard limit of %.0f s for %s' % (self.seconds, self.where)
                self.budget.ctx.log('generation stopped: ' + self.budget.stopped)
                self.budget.ctx.cov['generation_stopped'] = self.budget.stopped
            return True
        return False


class Budget:
    def __init__(self, ctx):
        self.ctx = ctx
        self.t0 = _time.process_time()
        self.limit = PHASE_BUDGET.get(ctx.tier, 150.0)
        self.stopped = None

    def stop(self, where):
        """True when generation has to stop: enough violations collected, or the time budget is used up"""
        if self.stopped:
            return True
        if len(self.ctx.violations) >= MAX_VIOLATIONS:
            self.stopped = 'enough violations (%d) collected, stopped in %s' % (len(self.ctx.violations), where)
        elif _time.process_time() - self.t0 > self.limit:
            self.stopped = 'time budget of %.0f s (CPU) used up in %s' % (self.limit, where)
        if self.stopped:
            self.ctx.log('generation stopped: ' + self.stopped)
            self.ctx.cov['generation_stopped'] = self.stopped
        return bool(self.stopped)


# ------------------------------------------------------------------ the direct oracle (property on the implementation alone)
class Oracle:
    def __init__(self, ctx):
        self.ctx = ctx
        self.n = 0
        self.budget = Budget(ctx)
        self.baseline = {}          # class -> what a fresh default-constructed instance encodes to (bytes, or the exception name)
        self.corpus, self.corpus_keys, self.helper_ref = [], set(), None     # reference corpus (recorded at the start of the run)

    # -- state shared BETWEEN instances / calls (class attributes, mutable default arguments, module-level caches)
    def default_encoding(self, cls):
        try:
            x = cls()
        except Exception as e:
            return 'ctor:' + type(e).__name__
        w, exc = impl_write_exc(x, 14)
        return w if w is not None else 'write:' + (exc or '').split(':')[0]

    # -- process-global state in codec HELPERS (module-level tables / memos in enums.py, utils.py, the factories):
    #    a fixed reference corpus must decode to the same values at the start of the run, after every batch of odd
    #    inputs, and at the end of the run
    def fingerprint(self, cls, v, bs):
        """what the reference bytes decode to: repr of the value and its re-encoding under this version, 1.2 and 2.0
        (each from a fresh decoding; the 2.0 bytes can stay right while the decoded names differ and encode differently under 1.x)"""
        import re as _re
        out = []
        for v2 in sorted({v, 12, 20}):
            obj, rest = impl_read(cls, bs, v)
            if obj is None:
                return ('refused', rest)
            if not out:
                try:
                    out.append(_re.sub(r' at 0x[0-9a-f]+', '', repr(obj))[:3000])
                except Exception as e:
                    out.append('repr raises ' + type(e).__name__)
            w = impl_write(obj, v2)
            out.append((v2, w.hex() if w is not None else None))
        return tuple(out)

    def helper_fingerprint(self):
        enums, _ = kmip()
        out = []
        for name, tag in enums.attribute_name_tag_table:
            try:
                out.append((name, enums.convert_attribute_name_to_tag(name).value, enums.convert_attribute_tag_to_name(tag)))
            except Exception as e:
                out.append((name, type(e).__name__))
        return tuple(out)

    def corpus_add(self, cname, cls, v, bs):
        per_class = sum(1 for e in self.corpus if e[0] == cname)
        if per_class < 12 and len(self.corpus) < 800 and (cname, v, bs) not in self.corpus_keys:      # a few values of EVERY class
            self.corpus_keys.add((cname, v, bs))
            self.corpus.append([cname, cls, v, bs, self.fingerprint(cls, v, bs)])

    def recheck_corpus(self, since, odd=None):
        """-> True when every reference value still decodes as it did when it was recorded"""
        if self.budget.stopped and 'state shared' in self.budget.stopped:
            return True
        if self.helper_ref is None:
            self.helper_ref = self.helper_fingerprint()
        ok = True
        for cname, cls, v, bs, fp in self.corpus:
            now = self.fingerprint(cls, v, bs)
            if now != fp:
                self.fail(cname, v, 'reference-corpus-changed', bs,
                          {'steps': ['a = decode(reference bytes) in a fresh state: value and re-encodings recorded', since,
                                     'b = decode(the same reference bytes): value or re-encodings differ'],
                           'odd_input': odd, 'reference_class': cname,
                           'before': [list(x) if isinstance(x, tuple) else x for x in fp][:4],
                           'after': [list(x) if isinstance(x, tuple) else x for x in now][:4]},
                          {'reference_class': cname})
                ok = False
                break
        now = self.helper_fingerprint()
        if now != self.helper_ref:
            diff = [(a, b) for a, b in zip(self.helper_ref, now) if a != b][:3]
            self.fail('enums.attribute_name_tag_table', 0, 'reference-corpus-changed', 'convert_attribute_name_to_tag / convert_attribute_tag_to_name over the whole table',
                      {'steps': ['record name -> tag -> name for every table entry', since, 'the same conversions now answer differently'],
                       'odd_input': odd, 'changed_entries': [{'before': list(a), 'after': list(b)} for a, b in diff]},
                      {'reference_class': 'enums.name<->tag'})
            ok = False
        if not ok:
            self.contaminated('reference values / the attribute name <-> tag conversions no longer answer as at the start of the run')
            return False
        self.ctx.count('oracle.corpus.rechecked')
        return True

    def contaminated(self, why):
        """state leaks between instances: every later observation in this process is unreliable (and encodings may grow
        without bound) - stop generating, report what was found"""
        if not self.budget.stopped:
            self.budget.stopped = 'state shared between instances detected (%s): later results would be contaminated' % why
            self.ctx.log('generation stopped: ' + self.budget.stopped)
            self.ctx.cov['generation_stopped'] = self.budget.stopped

    def take_baseline(self):
        for _, name, c, _ in all_struct_classes():
            self.baseline[c] = self.default_encoding(c)

    def fresh_instances_unchanged(self, cname, v, bs, obj):
        """decoding bs must not have changed what a fresh default instance of any class involved encodes to"""
        for t in {type(o) for o in graph(obj).values()}:
            if t in self.baseline:
                now = self.default_encoding(t)
                if now != self.baseline[t]:
                    self.fail(cname, v, 'fresh-instance-changed', bs,
                              {'steps': ['x = %s(); a = write(x, 1.4)' % t.__name__,
                                         'decode the input with %s under KMIP %s' % (cname, v),
                                         'y = %s(); b = write(y, 1.4); a != b' % t.__name__],
                               'affected_class': t.__name__,
                               'before': self.baseline[t].hex() if isinstance(self.baseline[t], bytes) else self.baseline[t],
                               'after': now.hex() if isinstance(now, bytes) else now},
                              {'affected_class': t.__name__})
                    self.baseline[t] = now          # report each change once
                    self.contaminated('a fresh %s() no longer encodes as at start-up' % t.__name__)
                    return False
        return True

    def decoding_twice_agrees(self, cname, cls, v, bs, obj, w):
        """decoding the same bytes a second time (fresh object) gives an equal value and the same re-encoding"""
        again, r = impl_read(cls, bs, v)
        if again is None:
            self.fail(cname, v, 'decoding-twice-differs', bs, {'steps': ['decode the input', 'decode the input again'], 'second': 'refused: ' + r})
            self.contaminated('decoding the same bytes twice gives different results')
            return False
        w2 = impl_write(again, v)
        if w2 != w or same_obj(obj, again) is False:
            self.contaminated('decoding the same bytes twice gives different results')
            self.fail(cname, v, 'decoding-twice-differs', bs,
                      {'steps': ['a = decode(input); wa = write(a)', 'b = decode(input) with a fresh %s; wb = write(b)' % cname, 'wa != wb or a != b'],
                       'first_reencoding': w.hex(), 'second_reencoding': w2.hex() if w2 else None})
            return False
        return True

    def fail(self, cname, v, check, bs, detail, extra=None):
        sig = {'class': cname, 'check': check}
        if extra:
            sig.update(extra)
        w = {'class': cname, 'kmip_version': v, 'input_hex': bs.hex() if isinstance(bs, (bytes, bytearray)) else bs, 'detail': detail}
        self.ctx.count('oracle.fail.%s.%s' % (check, cname))
        return self.ctx.violation(sig, w, '%s (KMIP %s): %s' % (cname, v, check))

    def accepted(self, cname, cls, v, bs, obj, rest, valid, other_versions=()):
        """bs was accepted by cls.read under v giving obj.  valid: bs is the canonical encoding of a generated value."""
        if self.budget.stopped:
            return None
        self.n += 1
        c = self.ctx
        w, exc = impl_write_exc(obj, v)
        if w is None:
            return self.fail(cname, v, 'decoded-value-cannot-be-encoded', bs, exc)
        if not self.decoding_twice_agrees(cname, cls, v, bs, obj, w) or not self.fresh_instances_unchanged(cname, v, bs, obj):
            return 'new'        # state leaks between instances: everything after this point would be contaminated
        if valid and rest == b'' and w != bs:
            self.fail(cname, v, 'write(read(b))!=b', bs, {'rewritten': w.hex()})
        w2 = impl_write(obj, v)
        if w2 != w:
            self.fail(cname, v, 'second-encode-differs', bs, {'first': w.hex(), 'second': w2.hex() if w2 else None})
        obj2, r2 = impl_read(cls, w, v)
        if obj2 is None:
            return self.fail(cname, v, 'decode-encode-decode:own-encoding-rejected', bs, {'rewritten': w.hex(), 'exc': r2})
        if r2 != b'':
            self.fail(cname, v, 'decode-encode-decode:leftover', bs, {'rewritten': w.hex(), 'rest': r2.hex()})
        eq = same_obj(obj, obj2)
        c.count('oracle.eq.%s' % ('__eq__' if eq is not None else 'bytes'))
        if eq is False:
            self.fail(cname, v, 'decode-encode-decode:value-differs', bs, {'rewritten': w.hex(), 'first': repr(obj)[:300], 'second': repr(obj2)[:300]})
        w3 = impl_write(obj2, v)
        if w3 != w:
            self.fail(cname, v, 'decode-encode-decode:bytes-differ', bs, {'first': w.hex(), 'second': w3.hex() if w3 else None})
        self.constructor_path(cname, cls, v, obj, w, bs)
        # encoding under another version must not change the object (last: a failure here leaves obj modified)
        for v2 in other_versions:
            impl_write(obj, v2)
            w4 = impl_write(obj, v)
            if w4 != w:
                self.fail(cname, v, 'encode-under-other-version-changes-object', bs,
                          {'before': w.hex(), 'after': w4.hex() if w4 else None},
                          {'other_version': v2, 'retag_only': retag_only(w, w4)})
                break

    def presence_pattern(self, cname, cls, v, full_obj, items, counts, note):
        """A real object with a given presence pattern, built the way a caller can: take a decoded object that has
        every field and clear the attributes of the absent fields.  If it encodes, its encoding must decode back
        to an equal value (finds readers that are stricter than their writers)."""
        import copy
        c = self.ctx
        if self.budget.stopped:
            return
        try:
            x = copy.deepcopy(full_obj)
        except Exception:
            c.count('oracle.pattern.uncopyable')
            return
        for it, n in zip(items, counts):
            if n or it['mult'] == 'Counted':          # the count lives in the header: clearing the list alone is not a value
                continue
            name = '_' + it['field'] if hasattr(x, '_' + it['field']) else it['field']
            if not hasattr(x, name):
                c.count('oracle.pattern.no-attribute')
                return
            try:
                setattr(x, name, [] if isinstance(getattr(x, name), list) else None)
            except Exception:
                c.count('oracle.pattern.setter-refused')
                return
        w, exc = impl_write_exc(x, v)
        if w is None:
            c.count('oracle.pattern.unencodable')      # the writer requires a cleared field: not a constructible value
            return
        self.n += 1
        c.count('oracle.pattern.checked')
        back, r = impl_read(cls, w, v)
        witness = {'pattern': note, 'encoded': w.hex()}
        # a dispatched item present although the item it is dispatched on is absent (payload without operation)
        orphan = sorted(it['field'] for it, n in zip(items, counts)
                        if n and it.get('by') and it['by']['ix'] < len(counts) and counts[it['by']['ix']] == 0)
        extra = {'path': 'presence-pattern'}
        if orphan:
            extra['dispatched_without_key'] = ','.join(orphan)
        if back is None or r != b'':
            return self.fail(cname, v, 'read(write(x)):rejected', w, dict(witness, exc=r if back is None else 'leftover'), extra)
        if same_obj(x, back) is False:
            self.fail(cname, v, 'read(write(x))!=x', w, dict(witness, x=repr(x)[:300], decoded=repr(back)[:300]), {'path': 'presence-pattern'})
        if impl_write(back, v) != w:
            self.fail(cname, v, 'write(read(write(x)))!=write(x)', w, witness, {'path': 'presence-pattern'})
        if impl_write(x, v) != w:
            self.fail(cname, v, 'second-encode-differs', w, witness, {'path': 'presence-pattern'})

    def constructed(self, cname, x, v, must_encode=False, other_versions=(), how=''):
        """x was built through public constructors: read(write(x)) == x, write(read(write(x))) == write(x), purity."""
        if self.budget.stopped:
            return None
        c = self.ctx
        cls = type(x)
        w, exc = impl_write_exc(x, v)
        if w is None:
            c.count('oracle.constructed.unencodable')
            if must_encode:
                self.fail(cname, v, 'constructed-value-cannot-be-encoded', how, exc, {'path': 'constructed'})
            return None
        self.n += 1
        c.count('oracle.constructed.checked')
        c.case_seen(('constructed', cname, v, w), nontrivial=True)
        self.corpus_add(cname, cls, v, w)
        witness = {'built': how, 'encoded': w.hex()}
        back, r = impl_read(cls, w, v)
        if back is None or r != b'':
            self.fail(cname, v, 'read(write(x)):rejected', w, dict(witness, exc=r if back is None else 'leftover'), {'path': 'constructed'})
            return w
        if not self.decoding_twice_agrees(cname, cls, v, w, back, impl_write(back, v)) or not self.fresh_instances_unchanged(cname, v, w, back):
            return w
        if same_obj(x, back) is False:
            self.fail(cname, v, 'read(write(x))!=x', w, dict(witness, x=repr(x)[:300], decoded=repr(back)[:300]), {'path': 'constructed'})
        if impl_write(back, v) != w:
            self.fail(cname, v, 'write(read(write(x)))!=write(x)', w, witness, {'path': 'constructed'})
        if impl_write(x, v) != w:
            self.fail(cname, v, 'second-encode-differs', w, witness, {'path': 'constructed'})
        for v2 in other_versions:
            impl_write(x, v2)
            w4 = impl_write(x, v)
            if w4 != w:
                self.fail(cname, v, 'encode-under-other-version-changes-object', w,
                          dict(witness, after=w4.hex() if w4 else None), {'other_version': v2, 'retag_only': retag_only(w, w4), 'path': 'constructed'})
                break
        return w

    def constructor_path(self, cname, cls, v, obj, w, bs):
        """Rebuild the value through the public constructor from the decoded attributes; it must round trip too."""
        c = self.ctx
        try:
            params = [p for p in inspect.signature(cls.__init__).parameters.values() if p.name != 'self']
        except (TypeError, ValueError):
            return
        if not params or any(p.kind in (p.VAR_POSITIONAL, p.VAR_KEYWORD) for p in params) \
                or not all(hasattr(obj, p.name) for p in params):
            c.count('oracle.ctor.not-generic')
            return
        try:
            new = cls(**{p.name: getattr(obj, p.name) for p in params})
        except Exception:
            c.count('oracle.ctor.refused')
            return
        nw, exc = impl_write_exc(new, v)
        if nw is None:
            c.count('oracle.ctor.unencodable')
            return self.fail(cname, v, 'constructed-value-cannot-be-encoded', bs, exc)
        c.count('oracle.ctor.same-bytes' if nw == w else 'oracle.ctor.other-bytes')
        back, r = impl_read(cls, nw, v)
        if back is None or r != b'':
            return self.fail(cname, v, 'read(write(x)):rejected', bs, {'encoded': nw.hex(), 'exc': r if back is None else 'leftover'})
        if same_obj(new, back) is False:
            self.fail(cname, v, 'read(write(x))!=x', bs, {'encoded': nw.hex(), 'x': repr(new)[:300], 'decoded': repr(back)[:300]})
        if impl_write(back, v) != nw:
            self.fail(cname, v, 'write(read(write(x)))!=write(x)', bs, {'encoded': nw.hex()})
        if impl_write(new, v) != nw:
            self.fail(cname, v, 'second-encode-differs', bs, {'encoded': nw.hex(), 'path': 'constructor'})


# ------------------------------------------------------------------ K cases for the classes under T
KEY_TABLES = {}      # class name -> [(key attribute field, set of modelled keys)]   (filled from the schema in struct_cases)


def key_outside_table(obj):
    """some structure in the decoded object carries a dispatch key the extracted table does not model (a custom attribute
    name outside the sampled ones, an operation whose payload class is outside the translator, a name spelled in another
    case - Attribute.read upper-cases the name before the lookup): the model refuses such keys by construction"""
    for o in graph(obj).values():
        for k in type(o).__mro__:
            for field, keys in KEY_TABLES.get(k.__name__, ()):
                if field.startswith('tags:'):
                    # any-attribute item: every element must carry a tag the extracted table has a row for
                    f = field[5:]
                    a = getattr(o, '_' + f, None) if hasattr(o, '_' + f) else getattr(o, f, None)
                    for el in (a if isinstance(a, list) else [a] if a is not None else []):
                        if getattr(getattr(el, 'tag', None), 'value', None) not in keys:
                            return True
                    continue
                if field.startswith('type:'):
                    # kind chosen by the type byte: the TTLV type of the object held by the attribute must be a modelled row
                    f = field[5:]
                    a = getattr(o, '_' + f, None) if hasattr(o, '_' + f) else getattr(o, f, None)
                    if a is not None and getattr(getattr(a, 'type', None), 'value', None) not in keys:
                        return True
                    continue
                a = getattr(o, '_' + field, None) if hasattr(o, '_' + field) else getattr(o, field, None)
                if a is None:
                    continue
                val = getattr(a, 'value', a)
                val = getattr(val, 'value', val)
                if val not in keys:
                    return True
    return False


REBIND = {}          # class -> 0: its reader rebinds kmip_version from its own ProtocolVersion item (headers);
                     #          1: from the ProtocolVersion of the header structure it starts with (whole messages)


def announces_other_version(cname, bs, v):
    """the structure starts with a well-formed ProtocolVersion item that names a version other than v"""
    if cname not in REBIND:
        return False
    b = bs[8 + 8 * REBIND[cname]:]
    if len(b) >= 40 and b[:8] == bytes.fromhex('4200690100000020') and b[8:16] == bytes.fromhex('42006a0200000004') \
            and b[24:32] == bytes.fromhex('42006b0200000004'):
        major, minor = struct.unpack('!i', b[16:20])[0], struct.unpack('!i', b[32:36])[0]
        return 10 * major + minor != v or not (0 <= minor <= 9)
    return False


CONVERTED = {}       # class -> {tag of an item that is converted to a plain list after decoding (Attributes -> [Attribute])}


def empty_converted_item(cname, bs, obj=None):
    """the structure contains, at top level, an EMPTY structure where the reader converts the decoded Attributes into a
    Python list: `[]` is then indistinguishable from an absent field (the writers drop it or refuse it)"""
    tags = CONVERTED.get(cname)
    if not tags:
        return False
    b, pos = bs[8:], 0
    while pos + 8 <= len(b):
        t = int.from_bytes(b[pos:pos + 3], 'big')
        ln = struct.unpack('!I', b[pos + 4:pos + 8])[0]
        if t in tags and b[pos + 3] == 1:
            if ln == 0:
                return True
            if obj is not None and any(getattr(obj, '_' + f, None) == [] for f in tags[t]):
                return True           # a structure with a wrong length field that still decoded to an empty list
        pos += 8 + ln + ((8 - ln % 8) % 8 if b[pos + 3] != 1 else 0)
    return False


def scase(v, tag, cname, bs, obj, rest, rew):
    if announces_other_version(cname, bs, v) or empty_converted_item(cname, bs, obj):
        return None
    if obj is not None and key_outside_table(obj):
        return None
    if obj is not None and boolean_with_odd_length(obj):
        return 'SRdA %d %d %s %s true %s' % (v, tag, cp.string(cname), cp.byts(bs), cp.byts(rest))
    return 'SRd %d %d %s %s %s %s %s' % (
        v, tag, cp.string(cname), cp.byts(bs), cp.boolean(obj is not None),
        cp.byts(rest if obj is not None else b''), 'None' if rew is None else '(Some %s)' % cp.byts(rew))


def load_schema():
    return json.loads((core.VERIF / 'coq' / 'gen' / 'schemas.json').read_text())


def real_class(cdoc):
    return getattr(importlib.import_module(cdoc['module']), cdoc['name'])


def struct_cases(ctx, doc, oracle, only=None):
    quick = ctx.tier == 'quick'
    schema = sg.Schema(doc)
    cases, meta = [], []
    budget_valid = 10 if quick else 64
    n_mut_src = 2 if quick else 10
    per_class = {}
    KEY_TABLES.clear()
    for cdoc in doc['classes']:
        for it in cdoc['rd']:
            if it['kind'][0] == 'tagged':
                KEY_TABLES.setdefault(cdoc['name'], []).append(('tags:' + it['field'], {r[0] for r in (doc.get('tables') or {}).get(it['kind'][1], {}).get('rows', [])}))
    CONVERTED.clear()
    for cdoc in doc['classes']:
        tg = {}
        for it in cdoc['rd']:
            if it.get('converted') and it['kind'][0] == 'struct':
                tg.setdefault(it['tag'], set()).add(it['field'])
        if tg:
            CONVERTED[cdoc['name']] = tg
    REBIND.clear()
    REBIND.update({c['name']: (1 if c.get('rebind_nested') else 0) for c in doc['classes'] if c.get('rebind') is not None})
    for cdoc in doc['classes']:
        for it in cdoc['rd']:
            if it.get('by') and it['by'].get('src') == 'next_type':
                KEY_TABLES.setdefault(cdoc['name'], []).append(('type:' + it['field'], {row[0][1] for row in it['by']['table']}))
            elif it.get('by'):
                KEY_TABLES.setdefault(cdoc['name'], []).append((it['by']['key_field'], {row[0][1] for row in it['by']['table']}))
    for cdoc in doc['classes']:
        cname = cdoc['name']
        if only and cname not in only:
            continue
        if 'stub' in cdoc.get('flags', []):
            continue            # a Struct subclass without read/write of its own: tied only as the last item of its parents
        if oracle.budget.stop('the structure generator (class %s)' % cname):
            break
        cls = real_class(cdoc)
        tag = cdoc['default_tag']
        rng = ctx.subrng('struct/' + cname)
        gen = sg.Gen(schema, rng)
        stats = per_class.setdefault(cname, {'valid': 0, 'mutated': 0, 'accept': 0, 'reject': 0, 'versions': [], 'free_items_max': 0})
        supported = schema.versions_of(cname)
        groups = schema.distinct_versions(cname)
        for v in sg.VERSIONS:
            if oracle.budget.stop('the structure generator (class %s, version %d)' % (cname, v)):
                break
            if v not in supported:
                # below the class-level minimum version: the code raises VersionNotSupported on everything, the model
                # (c_minver) refuses everything: tie it with the empty structure and with encodings valid for the first
                # supported version
                refusal_probe(ctx, cname, cls, tag, v)
                for bs in [sg.hdr(tag, 1, 0)] + [sg.encode(tag, gen.struct(cname, supported[0], 0)) for _ in range(2 if quick else 6)]:
                    obj, rest = impl_read(cls, bs, v)
                    rew = impl_write(obj, v) if obj is not None else None
                    sc = scase(v, tag, cname, bs, obj, rest, rew)
                    if sc is None:
                        continue
                    cases.append(sc)
                    meta.append({'class': cname, 'v': v, 'kind': 'below-minimum-version', 'value': '', 'hex': bs.hex(),
                                 'impl': 'accept' if obj is not None else 'reject:' + rest})
                    stats['mutated'] += 1
                    stats['accept' if obj is not None else 'reject'] += 1
                    ctx.count('struct.below-minver.k.%s' % ('accept' if obj is not None else 'reject'))
                    ctx.case_seen((cname, v, bs), nontrivial=True)
                continue
            stats['versions'].append(v)
            # a class without version guards behaves identically under every version: full budget for one
            # representative of each group of versions with the same active items, a reduced one for the others
            rep = any(g[0] == v for g in groups)
            vectors, k = gen.count_vectors(cname, v, budget_valid if rep else (2 if quick else 8),
                                           exhaustive_limit=8)
            stats['free_items_max'] = max(stats['free_items_max'], k)
            others = [x for x in supported if x != v]
            valids = []
            # an object that has every field (decoded from the all-present value), cleared field by field below
            items_v = schema.active(cname, v)
            full_counts = [1 if it['mult'] != 'Many' else 2 for it in items_v]
            full_obj, _ = impl_read(cls, sg.encode(tag, gen.struct(cname, v, 0, full_counts)), v)
            todo = list(vectors if quick else vectors * 3) + [None]   # None: the everything-present-at-every-level value (last: not a mutation source)
            for counts in todo:                                      # thorough: three value draws per occurrence vector
                if counts is None:
                    val = gen.full(cname, v)
                else:
                    if full_obj is not None:
                        oracle.presence_pattern(cname, cls, v, full_obj, items_v, counts,
                                                {it['field']: n for it, n in zip(items_v, counts)})
                    val = gen.struct(cname, v, 0, counts)
                bs = sg.encode(tag, val)
                valids.append(val)
                obj, rest = impl_read(cls, bs, v)
                rew = impl_write(obj, v) if obj is not None else None
                sc = scase(v, tag, cname, bs, obj, rest, rew)
                if sc is None:
                    ctx.count('struct.k-skipped.outside-modelled-domain')
                    sc = SKIP
                if counts is None and not rep and quick:
                    sc = SKIP       # the (large) everything-present value of a non-representative version: direct oracle only
                cases.append(sc)
                meta.append({'class': cname, 'v': v, 'kind': 'valid', 'value': sg.describe(val), 'hex': bs.hex(),
                             'impl': 'accept' if obj is not None else 'reject:' + rest})
                stats['valid'] += 1
                stats['accept' if obj is not None else 'reject'] += 1
                ctx.count('struct.valid.%s' % ('accept' if obj is not None else 'reject'))
                ctx.case_seen((cname, v, bs), nontrivial=True)
                if obj is not None:
                    ov = [rng.choice(others)] if others and rng.random() < 0.5 and cname not in REBIND else []
                    oracle.accepted(cname, cls, v, bs, obj, rest, True, ov)
                else:
                    # the encoder produced a schema-valid value the real reader refuses: the correspondence will
                    # disagree; as a property statement: is there an object with this content that encodes to it?
                    pass
            srcs = valids if len(valids) <= n_mut_src else [valids[0], valids[1]] + rng.sample(valids[2:], n_mut_src - 2)
            if not rep:
                srcs = srcs[:1]
            seen = set()
            for val in srcs:
                good, muts = sg.mutations(tag, val, rng, schema, v, gen)
                if not rep and quick and len(muts) > 12:
                    muts = rng.sample(muts, 12)
                for label, bs in muts:
                    if bs in seen or bs == good:
                        continue
                    seen.add(bs)
                    obj, rest = impl_read(cls, bs, v)
                    rew = impl_write(obj, v) if obj is not None else None
                    sc = scase(v, tag, cname, bs, obj, rest, rew)
                    if sc is None:
                        ctx.count('struct.k-skipped.outside-modelled-domain')
                        sc = SKIP
                    cases.append(sc)
                    meta.append({'class': cname, 'v': v, 'kind': 'mutated:' + label, 'value': sg.describe(val), 'hex': bs.hex(),
                                 'impl': 'accept' if obj is not None else 'reject:' + rest})
                    stats['mutated'] += 1
                    stats['accept' if obj is not None else 'reject'] += 1
                    ctx.count('struct.mutated.%s.%s' % (label.split('-')[0] if label.startswith(('truncate', 'length')) else label,
                                                          'accept' if obj is not None else 'reject'))
                    ctx.case_seen((cname, v, bs), nontrivial=True)
                    if obj is not None:
                        oracle.accepted(cname, cls, v, bs, obj, rest, False)
            # a value generated for another version, decoded under this one
            for v2 in ([] if cname in REBIND else others):
                if [i['tag'] for i in schema.active(cname, v2)] != [i['tag'] for i in schema.active(cname, v)]:
                    val = gen.struct(cname, v2, 0)
                    bs = sg.encode(tag, val)
                    obj, rest = impl_read(cls, bs, v)
                    rew = impl_write(obj, v) if obj is not None else None
                    sc = scase(v, tag, cname, bs, obj, rest, rew)
                    if sc is None:
                        ctx.count('struct.k-skipped.outside-modelled-domain')
                        sc = SKIP
                    cases.append(sc)
                    meta.append({'class': cname, 'v': v, 'kind': 'cross-version:%d' % v2, 'value': sg.describe(val), 'hex': bs.hex(),
                                 'impl': 'accept' if obj is not None else 'reject:' + rest})
                    stats['mutated'] += 1
                    stats['accept' if obj is not None else 'reject'] += 1
                    ctx.count('struct.cross-version.%s' % ('accept' if obj is not None else 'reject'))
                    if obj is not None:
                        oracle.accepted(cname, cls, v, bs, obj, rest, False)
    keep = [k for k, c in enumerate(cases) if c is not SKIP]
    return [cases[k] for k in keep], [meta[k] for k in keep], per_class


def refusal_probe(ctx, cname, cls, tag, v):
    """class-level `if kmip_version < V: raise VersionNotSupported`: below V both directions must refuse
    (the schema model is tied only for v >= V)."""
    empty = sg.hdr(tag, 1, 0)
    obj, why = impl_read(cls, empty, v)
    ctx.count('struct.below-minver.%s' % ('refused' if obj is None else 'ACCEPTED'))
    if obj is not None or why != 'VersionNotSupported':
        ctx.disagreement('structs', {'class': cname, 'v': v, 'what': 'read below the class-level minimum version is not refused with VersionNotSupported',
                                     'impl': 'accept' if obj is not None else why})
    try:
        w = impl_write_exc(cls(), v)
    except Exception:
        return
    if w[0] is not None or not (w[1] or '').startswith('VersionNotSupported'):
        ctx.disagreement('structs', {'class': cname, 'v': v, 'what': 'write below the class-level minimum version is not refused with VersionNotSupported',
                                     'impl': w[1] if w[0] is None else 'wrote ' + w[0].hex()})


# ------------------------------------------------------------------ seeds for the classes outside T: unit-test encodings
def ttlv_structures(b, depth=0):
    """every structure item (type 1) contained in the TTLV byte string b, at any depth, as its own byte string"""
    out = []
    pos, n = 0, len(b)
    while pos + 8 <= n and depth < 12:
        ty = b[pos + 3]
        ln = struct.unpack('!I', b[pos + 4:pos + 8])[0]
        if b[pos] != 0x42 or not (1 <= ty <= 10):
            break
        size = 8 + ln + ((8 - ln % 8) % 8 if ty != 1 else 0)
        if pos + size > n:
            break
        if ty == 1:
            out.append(b[pos:pos + size])
            out += ttlv_structures(b[pos + 8:pos + size], depth + 1)
        pos += size
    return out


def harvest_blobs(repo):
    """TTLV encodings found as byte-string literals in kmip/tests/unit/core (whole literals and every structure
    nested in them) -> [(relative file, bytes)]"""
    out = []
    root = Path(repo) / 'kmip' / 'tests' / 'unit' / 'core'

    def const_bytes(n):
        if isinstance(n, ast.Constant) and isinstance(n.value, bytes):
            return n.value
        if isinstance(n, ast.BinOp) and isinstance(n.op, ast.Add):
            a, b = const_bytes(n.left), const_bytes(n.right)
            return a + b if a is not None and b is not None else None
        return None

    for p in sorted(root.rglob('test_*.py')):
        try:
            tree = ast.parse(p.read_text())
        except SyntaxError:
            continue
        rel = str(p.relative_to(root))
        inner = set()
        for n in ast.walk(tree):
            if isinstance(n, ast.BinOp):
                for ch in (n.left, n.right):
                    inner.add(id(ch))
        for n in ast.walk(tree):
            if id(n) in inner:
                continue
            b = const_bytes(n) if isinstance(n, (ast.Constant, ast.BinOp)) else None
            if b is not None and len(b) >= 8 and b[0] == 0x42:
                out.append((rel, b))
                for sub in ttlv_structures(b):
                    if sub != b:
                        out.append((rel, sub))
    seen, uniq = set(), []
    for f, b in out:
        if (f, b) not in seen:
            seen.add((f, b))
            uniq.append((f, b))
    return uniq


def all_struct_classes():
    """every default-constructible Struct subclass of the codec modules (incl. subclasses that inherit read/write)"""
    import gen_schemas
    from kmip.core import primitives
    out = []
    for mn in gen_schemas.module_names(core.REPO):
        mod = importlib.import_module(mn)
        for name, c in sorted(vars(mod).items()):
            if inspect.isclass(c) and c.__module__ == mn and issubclass(c, primitives.Struct):
                try:
                    tag = c().tag.value
                except Exception:
                    continue
                out.append((mn, name, c, tag))
    return out


def harvested_oracle(ctx, oracle, t_classes):
    """decode -> encode -> decode on every harvested unit-test encoding, for every class whose tag matches and
    every version that accepts it.  This is the only generated input for the hand-modelled classes."""
    blobs = harvest_blobs(ctx.repo)
    classes = all_struct_classes()
    by_tag = {}
    for mn, name, c, tag in classes:
        by_tag.setdefault(tag, []).append((mn, name, c))
    enums, _ = kmip()
    payload_tags = {enums.Tags.REQUEST_PAYLOAD.value, enums.Tags.RESPONSE_PAYLOAD.value}
    accepted_by_class = {}
    n_blobs = n_acc = 0
    quick = ctx.tier == 'quick'
    for f, b in blobs:
        if getattr(oracle, 'budget', None) is not None and oracle.budget.stop('the harvested encodings'):
            break
        tag = int.from_bytes(b[:3], 'big')
        cands = by_tag.get(tag, [])
        if tag in payload_tags:
            # payload classes share one tag: use the classes of the module the test file is about
            stem = Path(f).stem.replace('test_', '')
            cands = [x for x in cands if x[0].endswith('.payloads.' + stem)]
        if not cands:
            continue
        n_blobs += 1
        for mn, name, c in cands:
            for v in sg.VERSIONS:
                obj, rest = impl_read(c, b, v)
                if obj is None:
                    continue
                if quick and accepted_by_class.get(name, 0) >= 60:
                    continue
                # a whole message carries its version in its header (read() rebinds kmip_version from it, write()
                # does not): the value is defined for that version only
                hdr = getattr(obj, 'request_header', None) or getattr(obj, 'response_header', None)
                if hdr is not None and getattr(hdr, 'protocol_version', None) is not None:
                    pv = hdr.protocol_version
                    if 10 * pv.major + pv.minor != v:
                        ctx.count('harvest.message-under-foreign-version.skipped')
                        continue
                n_acc += 1
                accepted_by_class[name] = accepted_by_class.get(name, 0) + 1
                ctx.case_seen((name, v, b), nontrivial=True)
                others = [x for x in sg.VERSIONS if x != v]
                oracle.accepted(name, c, v, b, obj, rest, False, [] if hdr is not None else [others[(len(b) + v) % len(others)]])
    ctx.cov['harvested'] = {'blobs_with_a_candidate_class': n_blobs, 'accepted_class_version_pairs': n_acc,
                            'classes_reached': len(accepted_by_class),
                            'hand_modelled_classes_reached': sorted(n for n in accepted_by_class if n not in t_classes)}
    ctx.log('harvested unit-test encodings: %d blobs, %d accepted (class, version) decodings, %d classes (%d outside T)' % (
        n_blobs, n_acc, len(accepted_by_class), len([n for n in accepted_by_class if n not in t_classes])))
    return accepted_by_class


# ------------------------------------------------------------------ targeted probes (defects named in DESIGN section 7 / found while building)
def probes(ctx, oracle):
    enums, utils = kmip()
    from kmip.core import objects, primitives
    from kmip.core.messages import payloads
    from kmip.core.factories.attributes import AttributeFactory
    # F6: non-ASCII text constructs but cannot be encoded; a UTF-8 encoded text cannot be decoded
    for text in ('é', 'café', '€'):
        t = primitives.TextString(text, enums.Tags.NAME_VALUE)
        w, exc = impl_write_exc(t, 10)
        ctx.count('probe.textstring-non-ascii.%s' % ('encoded' if w is not None else 'raises'))
        if w is None:
            ctx.violation({'class': 'TextString', 'value_class': 'non-ascii', 'check': 'constructed-value-cannot-be-encoded'},
                          {'class': 'TextString', 'value': text, 'exc': exc},
                          'TextString(%r) is constructible but write() raises' % text)
        else:
            back = primitives.TextString(tag=enums.Tags.NAME_VALUE)
            try:
                back.read(utils.BytearrayStream(w))
                ok = back.value == text
            except Exception:
                ok = False
            if not ok:
                ctx.violation({'class': 'TextString', 'value_class': 'non-ascii', 'check': 'read(write(x))!=x'},
                              {'class': 'TextString', 'value': text, 'encoded': w.hex()}, 'non-ASCII text does not round trip')
    # F7: encoding a Create request under KMIP 2.0 must not change what a later 1.x encoding produces
    f = AttributeFactory()
    for build in (
        lambda ta: ('CreateRequestPayload', payloads.CreateRequestPayload(object_type=enums.ObjectType.SYMMETRIC_KEY, template_attribute=ta)),
        lambda ta: ('RegisterRequestPayload', payloads.RegisterRequestPayload(object_type=enums.ObjectType.TEMPLATE, template_attribute=ta,
                                                                             managed_object=__import__('kmip.core.secrets', fromlist=['x']).Template(attributes=[f.create_attribute(enums.AttributeType.CRYPTOGRAPHIC_LENGTH, 128)]))),
    ):
        attrs = [f.create_attribute(enums.AttributeType.CRYPTOGRAPHIC_ALGORITHM, enums.CryptographicAlgorithm.AES),
                 f.create_attribute(enums.AttributeType.CRYPTOGRAPHIC_LENGTH, 256)]
        try:
            name, p = build(objects.TemplateAttribute(attributes=attrs))
        except Exception:
            continue
        before = impl_write(p, 12)
        impl_write(p, 20)
        after = impl_write(p, 12)
        ctx.count('probe.purity-2.0.%s.%s' % (name, 'same' if before == after else 'DIFFERS'))
        if before is not None and before != after:
            ctx.violation({'class': name, 'check': 'encode-under-other-version-changes-object', 'other_version': 20,
                           'retag_only': retag_only(before, after)},
                          {'class': name, 'build': 'template attribute [Cryptographic Algorithm=AES, Cryptographic Length=256]',
                           'encode_1.2_before': before.hex(), 'encode_1.2_after_a_2.0_encoding': after.hex() if after else None},
                          '%s: encoding under KMIP 2.0 retags the caller\'s attribute values; a later 1.2 encoding differs' % name)
    # a response header that carries a server correlation value (decoded by read(), never written by write())
    from kmip.core.messages import messages as _messages
    for v in (14, 20):
        body = (sg.wrap(0x420069, [sg.enc_prim(0x42006a, 'PInt', v // 10), sg.enc_prim(0x42006b, 'PInt', v % 10)]) +
                sg.enc_prim(0x420092, 'PDate', 1) + sg.enc_prim(0x420106, 'PText', 'abc') + sg.enc_prim(0x42000d, 'PInt', 1))
        bs = sg.hdr(0x42007a, 1, len(body)) + body
        obj, rest = impl_read(_messages.ResponseHeader, bs, v)
        ctx.count('probe.responseheader-correlation.%s' % ('accepted' if obj is not None else 'refused'))
        if obj is not None:
            oracle.accepted('ResponseHeader', _messages.ResponseHeader, v, bs, obj, rest, True)
    # GetAttributes response under 2.0 with an empty Attributes structure: accepted by read(), refused by write()
    from kmip.core.messages import payloads as _payloads
    bs = bytes.fromhex('42007c0100000018420094070000000131000000000000004201250100000000')
    obj, rest = impl_read(_payloads.GetAttributesResponsePayload, bs, 20)
    ctx.count('probe.getattributes-resp-empty-2.0.%s' % ('accepted' if obj is not None else 'refused'))
    if obj is not None:
        oracle.accepted('GetAttributesResponsePayload', _payloads.GetAttributesResponsePayload, 20, bs, obj, rest, False)
    # constructible values that must survive encode -> decode (found while building the translator)
    for name, mk, v in (
        ('ActivateRequestPayload', lambda: payloads.ActivateRequestPayload(), 10),
        ('RevokeRequestPayload', lambda: payloads.RevokeRequestPayload(), 10),
        ('CapabilityInformation', lambda: objects.CapabilityInformation(batch_undo_capability=True, batch_continue_capability=False), 14),
        ('CapabilityInformation', lambda: objects.CapabilityInformation(batch_undo_capability=False), 20),
    ):
        try:
            x = mk()
        except Exception:
            continue
        w, exc = impl_write_exc(x, v)
        if w is None:
            continue
        back, r = impl_read(type(x), w, v)
        ok = back is not None and r == b'' and same_obj(x, back) is not False and impl_write(back, v) == w
        ctx.count('probe.ctor-roundtrip.%s.%s' % (name, 'ok' if ok else 'FAILS'))
        if not ok:
            ctx.violation({'class': name, 'check': 'read(write(x))!=x'},
                          {'class': name, 'kmip_version': v, 'encoded': w.hex(), 'decoded': repr(back)[:200] if back is not None else r},
                          '%s: a default-constructed / constructor-built value does not survive encode-decode' % name)


# ------------------------------------------------------------------ objects built through the public constructors (all classes)
def constructed_objects(ctx, oracle):
    """Real objects for the classes the schema generator cannot reach (dispatch on an earlier field, key material,
    credentials, whole messages): built with the public constructors and factories, with boundary values
    (empty / zero / False, index 0, length residues), then driven through the round-trip oracle under every version."""
    enums, utils = kmip()
    from kmip.core import objects, primitives, secrets, attributes, misc
    from kmip.core.messages import payloads, contents, messages
    from kmip.core.factories.attributes import AttributeFactory
    rng = ctx.subrng('constructed')
    f = AttributeFactory()
    A = enums.AttributeType
    out = []          # (name, thunk, versions)
    V1 = [10, 11, 12, 13, 14]
    ALL = sg.VERSIONS

    # --- one Attribute per attribute type the value factory knows, several values each (incl. falsy ones)
    samples = {
        A.UNIQUE_IDENTIFIER: ['1', '', 'abcdefgh'], A.NAME: None, A.OBJECT_TYPE: [enums.ObjectType.SYMMETRIC_KEY, enums.ObjectType.CERTIFICATE],
        A.CRYPTOGRAPHIC_ALGORITHM: [enums.CryptographicAlgorithm.AES, enums.CryptographicAlgorithm.DES],
        A.CRYPTOGRAPHIC_LENGTH: [0, 128, 2 ** 31 - 1],
        A.CRYPTOGRAPHIC_PARAMETERS: [{'block_cipher_mode': enums.BlockCipherMode.CBC, 'padding_method': enums.PaddingMethod.PKCS5},
                                     {'hashing_algorithm': enums.HashingAlgorithm.SHA_256}, {}],
        A.CERTIFICATE_TYPE: [enums.CertificateType.X_509], A.DIGITAL_SIGNATURE_ALGORITHM: [enums.DigitalSignatureAlgorithm.SHA256_WITH_RSA_ENCRYPTION],
        A.OPERATION_POLICY_NAME: ['default', ''], A.CRYPTOGRAPHIC_USAGE_MASK: [[enums.CryptographicUsageMask.ENCRYPT, enums.CryptographicUsageMask.DECRYPT], []],
        A.LEASE_TIME: [0, 3600, 2 ** 32 - 1], A.STATE: [enums.State.PRE_ACTIVE, enums.State.DESTROYED_COMPROMISED],
        A.INITIAL_DATE: [0, 1411134000], A.ACTIVATION_DATE: [0, 2 ** 31], A.PROCESS_START_DATE: [1], A.PROTECT_STOP_DATE: [1], A.DEACTIVATION_DATE: [1],
        A.DESTROY_DATE: [1], A.COMPROMISE_OCCURRENCE_DATE: [1], A.COMPROMISE_DATE: [1], A.ARCHIVE_DATE: [1], A.LAST_CHANGE_DATE: [1], A.ORIGINAL_CREATION_DATE: [1],
        A.OBJECT_GROUP: ['group', ''], A.FRESH: [True, False], A.SENSITIVE: [True, False], A.ALWAYS_SENSITIVE: [False], A.EXTRACTABLE: [False], A.NEVER_EXTRACTABLE: [True],
        A.CONTACT_INFORMATION: ['Joe', ''], A.CUSTOM_ATTRIBUTE: ['x', ''],
        A.APPLICATION_SPECIFIC_INFORMATION: [{'application_namespace': 'ssl', 'application_data': 'www.example.com'}],
    }
    EXTREME_DATES = [0, -1, 2 ** 31, 2 ** 55, 2 ** 56, 2 ** 62, 2 ** 63 - 1, -2 ** 63]
    for t in A:
        if t.name.endswith('_DATE'):
            samples[t] = list(samples.get(t, [])) + [d for d in EXTREME_DATES if d not in samples.get(t, [])]
    attrs_ok = []
    for t in A:
        vals = samples.get(t, [None])
        if t is A.NAME:
            vals = [attributes.Name.create(x, enums.NameType.UNINTERPRETED_TEXT_STRING) for x in ['key-1'] + sg.TEXT_TRAPS] + \
                   [attributes.Name.create('', enums.NameType.URI)]
        elif t in (A.OBJECT_GROUP, A.CONTACT_INFORMATION, A.OPERATION_POLICY_NAME, A.CUSTOM_ATTRIBUTE, A.UNIQUE_IDENTIFIER):
            vals = list(vals) + sg.TEXT_TRAPS[:8] + sg.TEXT_TRAPS[14:20]
        for val in vals:
            for idx in ((None, 0, 3) if any(val is x for x in vals[:3]) else (None,)):
                try:
                    a = f.create_attribute(t, val, idx)
                except Exception:
                    ctx.count('constructed.attribute.factory-refused')
                    continue
                if a.attribute_value is None:
                    continue
                how = 'AttributeFactory().create_attribute(%s, %r, index=%r)' % (t.name, val, idx)
                out.append(('Attribute', (lambda a=a: a), V1, how))
                if idx is None and val is vals[0]:
                    attrs_ok.append((t, val))

    # KMIP 2.0 Attributes structures holding one date attribute with an extreme value (the by-tag factory path)
    for tname in ('ACTIVATION_DATE', 'INITIAL_DATE', 'PROCESS_START_DATE', 'PROTECT_STOP_DATE', 'DEACTIVATION_DATE', 'DESTROY_DATE',
                  'COMPROMISE_OCCURRENCE_DATE', 'COMPROMISE_DATE', 'ARCHIVE_DATE', 'LAST_CHANGE_DATE', 'ORIGINAL_CREATION_DATE'):
        tg = getattr(enums.Tags, tname)
        for d in EXTREME_DATES:
            out.append(('Attributes', (lambda tg=tg, d=d: objects.Attributes(attributes=[f.value_factory.create_attribute_value_by_enum(tg, d)])), [20],
                        'Attributes([%s = %d]) built with AttributeValueFactory.create_attribute_value_by_enum' % (tname, d)))

    def mk_attrs(k):
        picks = [attrs_ok[(k * 7 + j * 3) % len(attrs_ok)] for j in range(1 + k % 4)]
        return [f.create_attribute(t, val) for t, val in picks]

    for k in range(8):
        out.append(('TemplateAttribute', (lambda k=k: objects.TemplateAttribute(attributes=mk_attrs(k))), V1, 'TemplateAttribute(attributes=%d factory attributes #%d)' % (1 + k % 4, k)))
    out.append(('TemplateAttribute', lambda: objects.TemplateAttribute(attributes=[]), V1, 'TemplateAttribute(attributes=[])'))
    out.append(('CommonTemplateAttribute', lambda: objects.CommonTemplateAttribute(attributes=mk_attrs(2)), V1, 'CommonTemplateAttribute'))
    out.append(('Template', lambda: secrets.Template(attributes=mk_attrs(3)), V1, 'Template(attributes)'))
    out.append(('Template', lambda: secrets.Template(attributes=[]), [10], 'secrets.Template(attributes=[])'))

    # --- key material, key blocks, managed objects
    def key_block(material=b'\x01' * 16, fmt=enums.KeyFormatType.RAW, alg=enums.CryptographicAlgorithm.AES, length=128, wrap=None, comp=None):
        return objects.KeyBlock(
            key_format_type=misc.KeyFormatType(fmt),
            key_compression_type=None if comp is None else objects.KeyBlock.KeyCompressionType(comp),
            key_value=objects.KeyValue(key_material=objects.KeyMaterial(material)),
            cryptographic_algorithm=None if alg is None else attributes.CryptographicAlgorithm(alg),
            cryptographic_length=None if length is None else attributes.CryptographicLength(length),
            key_wrapping_data=wrap)

    def wrapping():
        return objects.KeyWrappingData(
            wrapping_method=enums.WrappingMethod.ENCRYPT,
            encryption_key_information=objects.EncryptionKeyInformation(
                unique_identifier='100182d5-72b8-47aa-8383-4d97d512e98a',
                cryptographic_parameters=attributes.CryptographicParameters(block_cipher_mode=enums.BlockCipherMode.NIST_KEY_WRAP)),
            encoding_option=enums.EncodingOption.NO_ENCODING)

    for n, m in enumerate([b'', b'\x00', b'\x01' * 7, b'\x02' * 8, b'\x03' * 9, bytes(range(32))]):
        out.append(('KeyBlock', (lambda m=m: key_block(m)), ALL, 'KeyBlock(RAW, KeyValue(KeyMaterial(%d bytes)), AES, 128)' % len(m)))
        out.append(('KeyValue', (lambda m=m: objects.KeyValue(key_material=objects.KeyMaterial(m))), ALL, 'KeyValue(KeyMaterial(%d bytes))' % len(m)))
    out.append(('KeyBlock', lambda: key_block(alg=None, length=None, wrap=wrapping()), ALL, 'KeyBlock(wrapped, no algorithm/length)'))
    out.append(('KeyBlock', lambda: key_block(length=0, comp=enums.KeyCompressionType.EC_PUBLIC_KEY_TYPE_UNCOMPRESSED), ALL, 'KeyBlock(length 0, compression type)'))
    out.append(('KeyValue', lambda: objects.KeyValue(key_material=objects.KeyMaterialStruct()), ALL, 'KeyValue(KeyMaterialStruct())'))
    out.append(('KeyValue', lambda: objects.KeyValue(key_material=objects.KeyMaterial(b'\x05' * 24), attributes=mk_attrs(1)), V1, 'KeyValue(material, attributes)'))
    out.append(('SymmetricKey', lambda: secrets.SymmetricKey(key_block()), ALL, 'SymmetricKey(KeyBlock)'))
    out.append(('PublicKey', lambda: secrets.PublicKey(key_block(b'\x30\x82' * 20, enums.KeyFormatType.X_509, enums.CryptographicAlgorithm.RSA, 2048)), ALL, 'PublicKey(KeyBlock X.509 RSA 2048)'))
    out.append(('PrivateKey', lambda: secrets.PrivateKey(key_block(b'\x30\x82' * 33, enums.KeyFormatType.PKCS_8, enums.CryptographicAlgorithm.RSA, 2048)), ALL, 'PrivateKey(KeyBlock PKCS#8 RSA 2048)'))
    out.append(('SecretData', lambda: secrets.SecretData(secrets.SecretData.SecretDataType(enums.SecretDataType.PASSWORD),
                                                         key_block(b'secret', enums.KeyFormatType.OPAQUE, None, None)), ALL, 'SecretData(PASSWORD, KeyBlock OPAQUE)'))
    out.append(('OpaqueObject', lambda: secrets.OpaqueObject(secrets.OpaqueObject.OpaqueDataType(enums.OpaqueDataType.NONE),
                                                             secrets.OpaqueObject.OpaqueDataValue(b'\x00' * 9)), ALL, 'OpaqueObject(NONE, 9 bytes)'))
    out.append(('Certificate', lambda: secrets.Certificate(enums.CertificateType.X_509, b'\x30\x82\x03\x12'), ALL, 'Certificate(X_509, 4 bytes)'))
    out.append(('Certificate', lambda: secrets.Certificate(enums.CertificateType.PGP, b''), ALL, 'Certificate(PGP, empty)'))
    out.append(('SplitKey', lambda: secrets.SplitKey(split_key_parts=4, key_part_identifier=1, split_key_threshold=2,
                                                     split_key_method=enums.SplitKeyMethod.POLYNOMIAL_SHARING_PRIME_FIELD,
                                                     prime_field_size=104729, key_block=key_block()), ALL, 'SplitKey(prime field)'))
    out.append(('SplitKey', lambda: secrets.SplitKey(split_key_parts=2, key_part_identifier=2, split_key_threshold=2,
                                                     split_key_method=enums.SplitKeyMethod.XOR, key_block=key_block()), ALL, 'SplitKey(XOR)'))

    # --- credentials / authentication
    out.append(('Credential', lambda: objects.Credential(enums.CredentialType.USERNAME_AND_PASSWORD,
                                                         objects.UsernamePasswordCredential('John', 'abc123')), ALL, 'Credential(username/password)'))
    out.append(('Credential', lambda: objects.Credential(enums.CredentialType.USERNAME_AND_PASSWORD,
                                                         objects.UsernamePasswordCredential('', '')), ALL, 'Credential(username "", password "")'))
    out.append(('Credential', lambda: objects.Credential(enums.CredentialType.DEVICE,
                                                         objects.DeviceCredential(device_serial_number='serNum123456', password='secret', device_identifier='devID2233',
                                                                                  network_identifier='netID9000', machine_identifier='machineID1', media_identifier='mediaID313')), ALL, 'Credential(device)'))
    out.append(('Credential', lambda: objects.Credential(enums.CredentialType.ATTESTATION,
                                                         objects.AttestationCredential(nonce=objects.Nonce(nonce_id=b'\x01', nonce_value=b'\x00' * 8),
                                                                                       attestation_type=enums.AttestationType.TPM_QUOTE, attestation_measurement=b'\xff' * 8)), [12, 13, 14, 20], 'Credential(attestation)'))
    out.append(('Authentication', lambda: contents.Authentication(credentials=[
        objects.Credential(enums.CredentialType.USERNAME_AND_PASSWORD, objects.UsernamePasswordCredential('a', None)),
        objects.Credential(enums.CredentialType.DEVICE, objects.DeviceCredential(device_serial_number='s'))]), ALL, 'Authentication(2 credentials)'))

    # --- payloads with dispatch / conversions
    def ta(k=0):
        return objects.TemplateAttribute(attributes=mk_attrs(k))
    out.append(('GetResponsePayload', lambda: payloads.GetResponsePayload(enums.ObjectType.SYMMETRIC_KEY, '1', secrets.SymmetricKey(key_block())), ALL, 'GetResponsePayload(SYMMETRIC_KEY, "1", SymmetricKey)'))
    out.append(('GetResponsePayload', lambda: payloads.GetResponsePayload(enums.ObjectType.SECRET_DATA, 'abcdefgh', secrets.SecretData(
        secrets.SecretData.SecretDataType(enums.SecretDataType.SEED), key_block(b'x', enums.KeyFormatType.OPAQUE, None, None))), ALL, 'GetResponsePayload(SECRET_DATA)'))
    out.append(('GetResponsePayload', lambda: payloads.GetResponsePayload(enums.ObjectType.CERTIFICATE, '2', secrets.Certificate(enums.CertificateType.X_509, b'\x30')), ALL, 'GetResponsePayload(CERTIFICATE)'))
    out.append(('GetResponsePayload', lambda: payloads.GetResponsePayload(enums.ObjectType.CERTIFICATE, '', secrets.Certificate(enums.CertificateType.X_509, b'\x30')), [10, 20],
                'GetResponsePayload(CERTIFICATE, unique_identifier="", Certificate)', True))
    for k in range(4):
        out.append(('CreateRequestPayload', (lambda k=k: payloads.CreateRequestPayload(enums.ObjectType.SYMMETRIC_KEY, ta(k))), ALL, 'CreateRequestPayload(SYMMETRIC_KEY, template #%d)' % k))
    out.append(('CreateResponsePayload', lambda: payloads.CreateResponsePayload(enums.ObjectType.SYMMETRIC_KEY, '1', ta(1)), V1, 'CreateResponsePayload(with template attribute)'))
    out.append(('CreateResponsePayload', lambda: payloads.CreateResponsePayload(enums.ObjectType.SYMMETRIC_KEY, ''), ALL, 'CreateResponsePayload(unique identifier "")'))
    out.append(('RegisterRequestPayload', lambda: payloads.RegisterRequestPayload(enums.ObjectType.SYMMETRIC_KEY, ta(2), secrets.SymmetricKey(key_block())), ALL, 'RegisterRequestPayload(SYMMETRIC_KEY)'))
    out.append(('RegisterRequestPayload', lambda: payloads.RegisterRequestPayload(enums.ObjectType.OPAQUE_DATA, ta(0), secrets.OpaqueObject(
        secrets.OpaqueObject.OpaqueDataType(enums.OpaqueDataType.NONE), secrets.OpaqueObject.OpaqueDataValue(b''))), ALL, 'RegisterRequestPayload(OPAQUE_DATA, empty value)'))
    out.append(('CreateKeyPairRequestPayload', lambda: payloads.CreateKeyPairRequestPayload(
        common_template_attribute=objects.TemplateAttribute(attributes=mk_attrs(1), tag=enums.Tags.COMMON_TEMPLATE_ATTRIBUTE),
        private_key_template_attribute=objects.TemplateAttribute(attributes=mk_attrs(2), tag=enums.Tags.PRIVATE_KEY_TEMPLATE_ATTRIBUTE),
        public_key_template_attribute=objects.TemplateAttribute(attributes=mk_attrs(3), tag=enums.Tags.PUBLIC_KEY_TEMPLATE_ATTRIBUTE)), ALL, 'CreateKeyPairRequestPayload(3 templates)'))
    out.append(('CreateKeyPairResponsePayload', lambda: payloads.CreateKeyPairResponsePayload(
        '1', '2', objects.TemplateAttribute(attributes=mk_attrs(1), tag=enums.Tags.PRIVATE_KEY_TEMPLATE_ATTRIBUTE),
        objects.TemplateAttribute(attributes=[], tag=enums.Tags.PUBLIC_KEY_TEMPLATE_ATTRIBUTE)), V1, 'CreateKeyPairResponsePayload("1", "2", private + public key template attributes)'))
    out.append(('CreateKeyPairResponsePayload', lambda: payloads.CreateKeyPairResponsePayload('', ''), ALL, 'CreateKeyPairResponsePayload("", "")'))
    out.append(('LocateRequestPayload', lambda: payloads.LocateRequestPayload(maximum_items=0, offset_items=0, storage_status_mask=0, attributes=mk_attrs(2)), ALL, 'LocateRequestPayload(max 0, offset 0, mask 0, attributes)'))
    out.append(('LocateRequestPayload', lambda: payloads.LocateRequestPayload(), ALL, 'LocateRequestPayload()'))
    out.append(('GetAttributesRequestPayload', lambda: payloads.GetAttributesRequestPayload('1', ['Name', 'Object Group', 'x-Purpose']), V1, 'GetAttributesRequestPayload(names incl. custom)'))
    out.append(('GetAttributesRequestPayload', lambda: payloads.GetAttributesRequestPayload('', ['Cryptographic Algorithm']), ALL, 'GetAttributesRequestPayload(uid "")'))
    out.append(('GetAttributesResponsePayload', lambda: payloads.GetAttributesResponsePayload('1', mk_attrs(3)), ALL, 'GetAttributesResponsePayload'))
    out.append(('GetAttributeListResponsePayload', lambda: payloads.GetAttributeListResponsePayload('1', ['Name', 'State']), ALL, 'GetAttributeListResponsePayload'))
    out.append(('QueryRequestPayload', lambda: payloads.QueryRequestPayload([enums.QueryFunction.QUERY_OPERATIONS, enums.QueryFunction.QUERY_OBJECTS]), ALL, 'QueryRequestPayload(2 functions)'))
    out.append(('DeriveKeyRequestPayload', lambda: payloads.DeriveKeyRequestPayload(
        object_type=enums.ObjectType.SYMMETRIC_KEY, unique_identifiers=['1', ''], derivation_method=enums.DerivationMethod.HASH,
        derivation_parameters=attributes.DerivationParameters(derivation_data=b'', iteration_count=0), template_attribute=ta(1)), ALL, 'DeriveKeyRequestPayload'))

    # --- Query response: a container outside T (it embeds ServerInformation) that embeds version-dependent structures
    def server_information():
        si = misc.ServerInformation()
        si.data = utils.BytearrayStream(sg.enc_prim(0x42009d, 'PText', 'vendor') + sg.enc_prim(0x420055, 'PText', 'x'))
        return si

    def query_response(v=20):
        """every member the version defines (a member of a later version is not part of a value of version v)"""
        def since(ver, x):
            return x if v >= ver else None
        return payloads.QueryResponsePayload(
            operations=[enums.Operation.CREATE, enums.Operation.QUERY], object_types=[enums.ObjectType.SYMMETRIC_KEY],
            vendor_identification='IBM test server, not-TKLM 2.0.1.1 KMIP 2.0.0.1', server_information=server_information(),
            application_namespaces=['ssl', ''],
            extension_information=since(11, [objects.ExtensionInformation(extension_name=objects.ExtensionName('ACME LOCATION'), extension_tag=objects.ExtensionTag(0x54AA01),
                                                                extension_type=objects.ExtensionType(7))]),
            attestation_types=since(12, [enums.AttestationType.TPM_QUOTE]),
            rng_parameters=since(13, [objects.RNGParameters(rng_algorithm=enums.RNGAlgorithm.FIPS186_2, cryptographic_algorithm=enums.CryptographicAlgorithm.AES,
                                                  cryptographic_length=256, hashing_algorithm=enums.HashingAlgorithm.SHA_256, prediction_resistance=False)]),
            profile_information=since(13, [objects.ProfileInformation(profile_name=enums.ProfileName.BASELINE_SERVER_BASIC_KMIPv12, server_uri='https://example.com', server_port=0)]),
            validation_information=since(13, [objects.ValidationInformation(validation_authority_type=enums.ValidationAuthorityType.COMMON_CRITERIA, validation_version_major=1,
                                                                  validation_version_minor=0, validation_type=enums.ValidationType.HYBRID, validation_level=0)]),
            capability_information=since(13, [objects.CapabilityInformation(streaming_capability=False, asynchronous_capability=True, attestation_capability=True,
                                                                  batch_undo_capability=since(14, True), batch_continue_capability=since(14, False),
                                                                  unwrap_mode=enums.UnwrapMode.PROCESSED, destroy_action=enums.DestroyAction.SHREDDED,
                                                                  shredding_algorithm=enums.ShreddingAlgorithm.CRYPTOGRAPHIC, rng_mode=enums.RNGMode.SHARED_INSTANTIATION)]),
            client_registration_methods=since(13, [enums.ClientRegistrationMethod.CLIENT_GENERATED]))
    for v in ALL:
        out.append(('QueryResponsePayload', (lambda v=v: query_response(v)), [v], 'QueryResponsePayload(every optional member KMIP %d defines: server information with data, extension information, '
                    'RNG parameters, profile / validation information, capability information incl. the KMIP 1.4 fields, ...)' % v))

    # --- whole messages
    def header(v, **kw):
        return messages.RequestHeader(protocol_version=contents.ProtocolVersion(v // 10, v % 10), batch_count=contents.BatchCount(kw.pop('n', 1)), **kw)

    def req(v, items, **kw):
        return messages.RequestMessage(request_header=header(v, n=len(items), **kw), batch_items=items)

    for v in ALL:
        out.append(('RequestMessage', (lambda v=v: req(v, [messages.RequestBatchItem(operation=contents.Operation(enums.Operation.GET),
                                                                                  request_payload=payloads.GetRequestPayload('1'))])), [v], 'RequestMessage(Get "1") under its own version %d' % v))
        out.append(('RequestMessage', (lambda v=v: req(v, [
            messages.RequestBatchItem(operation=contents.Operation(enums.Operation.CREATE), unique_batch_item_id=contents.UniqueBatchItemID(b'\x01'),
                                      request_payload=payloads.CreateRequestPayload(enums.ObjectType.SYMMETRIC_KEY, ta(1))),
            messages.RequestBatchItem(operation=contents.Operation(enums.Operation.ACTIVATE), unique_batch_item_id=contents.UniqueBatchItemID(b'\x02'),
                                      request_payload=payloads.ActivateRequestPayload())],
            maximum_response_size=contents.MaximumResponseSize(0), batch_order_option=contents.BatchOrderOption(True),
            authentication=contents.Authentication(credentials=[objects.Credential(enums.CredentialType.USERNAME_AND_PASSWORD, objects.UsernamePasswordCredential('u', 'p'))]))),
            [v], 'RequestMessage(Create + Activate, authentication, max response size 0) under version %d' % v))
        out.append(('ResponseMessage', (lambda v=v: messages.ResponseMessage(
            response_header=messages.ResponseHeader(protocol_version=contents.ProtocolVersion(v // 10, v % 10), time_stamp=contents.TimeStamp(1), batch_count=contents.BatchCount(1)),
            batch_items=[messages.ResponseBatchItem(operation=contents.Operation(enums.Operation.QUERY), result_status=contents.ResultStatus(enums.ResultStatus.SUCCESS),
                                                    response_payload=query_response(v))])),
            [v], 'ResponseMessage(Query response with every optional member) under version %d' % v))
        out.append(('ResponseMessage', (lambda v=v: messages.ResponseMessage(
            response_header=messages.ResponseHeader(protocol_version=contents.ProtocolVersion(v // 10, v % 10), time_stamp=contents.TimeStamp(0), batch_count=contents.BatchCount(3)),
            batch_items=[messages.ResponseBatchItem(operation=contents.Operation(enums.Operation.DESTROY), result_status=contents.ResultStatus(enums.ResultStatus.SUCCESS),
                                                    response_payload=payloads.DestroyResponsePayload(attributes.UniqueIdentifier('1'))),
                         messages.ResponseBatchItem(operation=contents.Operation(enums.Operation.ACTIVATE), result_status=contents.ResultStatus(enums.ResultStatus.SUCCESS),
                                                    result_reason=contents.ResultReason(enums.ResultReason.GENERAL_FAILURE), result_message=contents.ResultMessage('done'),
                                                    response_payload=payloads.ActivateResponsePayload(attributes.UniqueIdentifier('2'))),
                         messages.ResponseBatchItem(result_status=contents.ResultStatus(enums.ResultStatus.OPERATION_FAILED),
                                                    result_reason=contents.ResultReason(enums.ResultReason.ITEM_NOT_FOUND), result_message=contents.ResultMessage(''))])),
            [v], 'ResponseMessage(Destroy success + Activate success carrying a reason and a message + failure with empty message) under version %d' % v))

    n_built = 0
    for entry in out:
        if oracle.budget.stop('the constructed objects'):
            break
        name, thunk, versions, how = entry[:4]
        must = len(entry) > 4 and entry[4]
        try:
            x = thunk()
        except Exception as e:
            ctx.count('constructed.ctor-refused.%s' % name)
            continue
        n_built += 1
        for v in versions:
            others = [y for y in versions if y != v]
            ov = [others[(n_built + v) % len(others)]] if others else []
            if 20 in others and v != 20 and 20 not in ov:
                ov.append(20)
            try:
                x = thunk()      # a fresh object per version: a purity failure must not contaminate the next check
            except Exception:
                break
            oracle.constructed(name, x, v, must_encode=must, other_versions=ov, how=how)
    ctx.cov['constructed_objects'] = {'builders': len(out), 'built': n_built,
                                      'classes': sorted({e[0] for e in out})}


SIZES = [255, 256, 257, 1023, 1024, 1025, 4095, 4096, 4097, 65535, 65536, 65537]


def size_probes(ctx, oracle):
    """Value SIZES: text / byte strings and big integers whose encoded length sits around 2^8, 2^10, 2^12 and 2^16, as bare
    primitives and inside a few structures.  These long values go through the direct implementation round-trip oracle only
    (no Coq case: the literals would dominate the case files; lengths 0..41 and 256/257 are in the K pools)."""
    enums, utils = kmip()
    from kmip.core import primitives, objects, attributes
    from kmip.core.messages import messages, contents
    quick = ctx.tier == 'quick'
    sizes = [x for x in SIZES if x not in (65535, 65537)] if quick else SIZES      # quick: one value beyond 2^16, thorough: all three
    T = enums.Tags.NAME_VALUE
    n = 0
    for size in sizes:
        if oracle.budget.stop('the size probes'):
            return
        text = ('k' * 7 + '\u00e9') * (size // 9) + 'z' * (size % 9)          # `size` UTF-8 bytes, multi-byte characters inside
        text = text[:len(text)]
        while len(text.encode('utf-8')) > size:
            text = text[:-1]
        text += 'z' * (size - len(text.encode('utf-8')))
        data = bytes((i * 7 + 3) % 256 for i in range(size))
        big_pos, big_neg = (1 << (8 * size - 1)) - 1, -(1 << (8 * size - 9))
        prim_cases = [('TextString', lambda: primitives.TextString(text, T), lambda: primitives.TextString(tag=T), text),
                      ('ByteString', lambda: primitives.ByteString(data, T), lambda: primitives.ByteString(tag=T), data)]
        if size <= 4097:
            prim_cases += [('BigInteger', lambda: primitives.BigInteger(big_pos, T), lambda: primitives.BigInteger(tag=T), big_pos),
                           ('BigInteger', lambda: primitives.BigInteger(big_neg, T), lambda: primitives.BigInteger(tag=T), big_neg)]
        for pname, mk, blank, val in prim_cases:
            n += 1
            ctx.case_seen(('size', pname, size, val < 0 if isinstance(val, int) else 0), nontrivial=True)
            try:
                w = impl_write(mk(), 10)
            except Exception:
                w = None
            if w is None:
                ctx.violation({'class': pname, 'check': 'constructed-value-cannot-be-encoded', 'size': size},
                              {'class': pname, 'value_bytes': size, 'built': '%s of %d bytes' % (pname, size)}, '%s of %d bytes cannot be encoded' % (pname, size))
                continue
            b = blank()
            try:
                b.read(utils.BytearrayStream(w))
                back, err = b.value, None
            except Exception as e:
                back, err = None, '%s: %s' % (type(e).__name__, str(e)[:120])
            s2 = utils.BytearrayStream()
            again = None
            if err is None:
                try:
                    b.write(s2)
                    again = bytes(s2.buffer)
                except Exception as e:
                    err = 'write of the decoded value: ' + type(e).__name__
            ctx.count('size.%s.%s' % (pname, 'ok' if err is None and back == val and again == w else 'FAILS'))
            if err is not None or back != val or again != w:
                ctx.violation({'class': pname, 'check': 'read(write(x))!=x', 'size': size},
                              {'class': pname, 'value_bytes': size, 'built': '%s whose value takes %d bytes' % (pname, size),
                               'encoded_head': w[:24].hex(), 'encoded_length': len(w), 'error': err},
                              '%s of %d bytes does not survive encode-decode (%s)' % (pname, size, err or 'value or re-encoding differs'))
        # inside structures (bytes from the independent encoder, then the full accepted-input oracle)
        if size in (255, 256, 257, 1024, 4097, 65536):
            name_bs = sg.wrap(0x420053, [sg.enc_prim(0x420055, 'PText', text), sg.enc_prim(0x420054, 'PEnum', 1)])
            cred_bs = sg.wrap(0x420025, [sg.enc_prim(0x420099, 'PText', text), sg.enc_prim(0x4200a1, 'PText', text[:size // 2])])
            item_bs = sg.wrap(0x42000f, [sg.enc_prim(0x42007f, 'PEnum', 1), sg.enc_prim(0x42007e, 'PEnum', 1), sg.enc_prim(0x42007d, 'PText', text)])
            cust_bs = sg.wrap(0x420008, [sg.enc_prim(0x42000a, 'PText', 'x-custom'), sg.enc_prim(0x42000b, 'PText', text)])
            for cname, cls, bs in (('Name', attributes.Name, name_bs), ('UsernamePasswordCredential', objects.UsernamePasswordCredential, cred_bs),
                                   ('ResponseBatchItem', messages.ResponseBatchItem, item_bs), ('Attribute', objects.Attribute, cust_bs)):
                obj, rest = impl_read(cls, bs, 12)
                ctx.count('size.in-%s.%s' % (cname, 'accepted' if obj is not None else 'REFUSED'))
                ctx.case_seen(('size', cname, size), nontrivial=True)
                if obj is None:
                    oracle.fail(cname, 12, 'valid-encoding-refused', bs[:64], {'built': '%s carrying a text of %d bytes (independent encoder)' % (cname, size),
                                                                                'encoded_length': len(bs), 'exc': rest}, {'size': size})
                else:
                    oracle.accepted(cname, cls, 12, bs, obj, rest, True)
    ctx.cov['size_probes'] = {'sizes': sizes, 'primitive_round_trips': n,
                              'note': 'long values (255..65537 bytes) go through the direct implementation round-trip oracle only, not through the Coq comparator'}


ODD_NAMES = ['cryptographic algorithm', 'CRYPTOGRAPHIC ALGORITHM', 'Cryptographic algorithm', 'cRYPTOGRAPHIC aLGORITHM', 'name', 'NAME', 'state',
             ' Cryptographic Algorithm', 'Cryptographic Algorithm ', 'Cryptographic  Algorithm', 'Cryptographic.Algorithm', 'CRYPTOGRAPHIC_ALGORITHM',
             'Object Type\x00', '', ' ', 'No Such Attribute', 'x-custom', 'X-custom', 'x-', 'x-Cryptographic Algorithm', 'Unique identifier', 'unique Identifier']


def apply_odd_name(name):
    """Everything a caller / peer can do with an attribute NAME: direct conversion, the name-carrying payloads under 2.0 and
    1.x, an Attribute structure decoded with that name, the TemplateAttribute -> Attributes conversion.  Each step may be
    refused (most are, on the reference tree); none may change what later conversions return."""
    enums, utils = kmip()
    from kmip.core import objects, primitives
    from kmip.core.messages import payloads
    done = []

    def attempt(label, fn):
        try:
            fn()
            done.append(label + ': ok')
        except Exception as e:
            done.append(label + ': ' + type(e).__name__)
    attempt('convert_attribute_name_to_tag(%r)' % name, lambda: enums.convert_attribute_name_to_tag(name))
    for v in (20, 14):
        attempt('GetAttributesRequestPayload("1", [%r]).write under %d' % (name, v),
                lambda v=v: impl_write_exc(payloads.GetAttributesRequestPayload('1', [name]), v)[0] or (_ for _ in ()).throw(ValueError('refused')))
        attempt('GetAttributeListResponsePayload("1", [%r]).write under %d' % (name, v),
                lambda v=v: impl_write_exc(payloads.GetAttributeListResponsePayload('1', [name]), v)[0] or (_ for _ in ()).throw(ValueError('refused')))
    # an Attribute structure carrying that name with an enumeration value (Cryptographic Algorithm = AES) and with a text value
    for val in (sg.enc_prim(0x42000b, 'PEnum', 3), sg.enc_prim(0x42000b, 'PText', 'v')):
        body = sg.enc_prim(0x42000a, 'PText', name) + val
        abytes = sg.hdr(0x420008, 1, len(body)) + body
        attempt('Attribute.read(name=%r)' % name, lambda: impl_read(objects.Attribute, abytes, 12)[0] or (_ for _ in ()).throw(ValueError('refused')))
        tbody = sg.enc_prim(0x420057, 'PEnum', 2) + sg.hdr(0x420091, 1, len(abytes)) + abytes
        cbytes = sg.hdr(0x420079, 1, len(tbody)) + tbody

        def create_roundtrip():
            p, _ = impl_read(payloads.CreateRequestPayload, cbytes, 12)
            if p is None:
                raise ValueError('refused')
            if impl_write(p, 20) is None:
                raise ValueError('2.0 encoding refused')
        attempt('CreateRequestPayload decoded under 1.2 with that attribute name, encoded under 2.0', create_roundtrip)
    return done


def odd_inputs(ctx, oracle):
    """odd attribute names, each followed by a re-check of the reference corpus"""
    if not oracle.recheck_corpus('nothing but the constructed objects has been processed yet'):
        return
    for name in ODD_NAMES:
        if oracle.budget.stop('the odd attribute names'):
            return
        done = apply_odd_name(name)
        for d in done:
            ctx.count('odd-name.%s' % d.rsplit(': ', 1)[1])
        if not oracle.recheck_corpus('then, in the same process: ' + '; '.join(done), odd={'attribute_name': name}):
            return


def budget_verdict(ctx, oracle):
    """Generation that had to be cut short for lack of time, without any finding, is not a pass: part of the input space
    this check claims to cover was not visited."""
    st = oracle.budget.stopped
    if st and st.startswith('time budget') and not ctx.violations and not ctx.broken:
        ctx.broken.append({'kind': 'correspondence', 'name': 'generation budget',
                           'detail': 'the generator did not finish: %s; the implementation has become much slower or its encodings much '
                                     'larger than on the reference tree (no failing input was identified)' % st, 'candidates': []})


# ------------------------------------------------------------------ run
def run(ctx):
    ctx.cov['rule'] = (
        'structures: for each class under the translator x each KMIP version, occurrence vectors over the active items '
        '(every presence/absence combination of optional/repeated items up to 2^8, structured+sampled beyond; repeated items with '
        '0/1/3 elements), values drawn from boundary pools (length residues mod 8, sign/width boundaries, 0/False/empty, smallest/'
        'largest enum member) and seeded random; each valid encoding also mutated (drop/duplicate/reorder a field, field of another '
        'version, foreign/unknown tag, type byte, bit flip, inner/outer length +-1/+-8, truncation, trailing bytes). '
        'primitives: as C02.  A case is distinct when (class, version, byte string) is new.')
    ok_regen = ctx.regen(only=['enums', 'schemas'])
    ctx.prove('props/C01.v')
    quick = ctx.tier == 'quick'
    oracle = Oracle(ctx)

    # --- primitives (shared with C02)
    import c02
    pcases, pmeta = c02.prim_cases(ctx, 40 if quick else 300, 6 if quick else 30)
    # re-encoding of DECODED primitives (hidden state left behind by read(), e.g. a stale padding length)
    for m in list(pmeta):
        if m[0] == 'dec':
            c, r = prims.case_reenc(m[1], bytes.fromhex(m[2]))
            pcases.append(c)
            pmeta.append(('reenc', m[1], m[2], 'reject' if r is None else r[0]))
            ctx.count('prim.reenc.%s.%s' % (m[1], 'reject' if r is None else r[0]))
    bad = ctx.run_cases('prims', c02.HEADER, pcases, 'check_pcase', what='enc_prim/dec_prim/validate_prim vs kmip.core.primitives')
    for i in bad[:20]:
        ctx.disagreement('prims', {'case': pmeta[i], 'coq': pcases[i][:400]})

    hard = 2.0 * PHASE_BUDGET.get(ctx.tier, 150.0)
    with watchdog(oracle.budget, hard, 'baseline, probes and constructed objects'):
        oracle.take_baseline()
        probes(ctx, oracle)
        size_probes(ctx, oracle)
        constructed_objects(ctx, oracle)
        odd_inputs(ctx, oracle)

    header = HEADER
    if not ok_regen:
        # The translator refused the tree (fail closed: that alone makes the run fail).  To still look for a concrete
        # failing input, tie what CAN be translated: the classes with an untranslatable construct and everything
        # containing them are dropped, and the partial environment is inlined in the case files (coq/gen is not touched).
        import gen_schemas
        try:
            t = gen_schemas.translate(ctx.repo)
            doc = json.loads(gen_schemas.render_json(t))
            inline = gen_schemas.render_coq(t)
            header = ('From PK Require Import Codec.SchemaCases.\n' + inline +
                      'From Coq Require Import ZArith String List.\nImport ListNotations.\nOpen Scope Z_scope.\nNotation length := List.length.\n')
            ctx.cov['translator_partial'] = {'untranslatable': t['unlisted_errors']}
            ctx.log('translator refused %d class(es); continuing with a partial environment of %d classes' % (len(t['unlisted_errors']), len(doc['classes'])))
            # The classes that just dropped out get no model this run.  Drive them through the direct oracle with values
            # generated from the LAST GOOD schemas.json (still in coq/gen: regen does not overwrite on failure): the schema
            # only steers the generator here, nothing is compared with it.
            try:
                stale = load_schema()
                stale = dict(stale, classes=stale['classes'] + stale.get('oracle_only_classes', []))
                lost = {c['name'] for c in stale['classes']} - {c['name'] for c in doc['classes'] + doc.get('oracle_only_classes', [])}
                if lost:
                    ctx.log('oracle-only generation from the last good schema for: %s' % ', '.join(sorted(lost)))
                    with watchdog(oracle.budget, hard, 'oracle-only generation from the last good schema'):
                        _c, _m, lost_stats = struct_cases(ctx, stale, oracle, only=lost)
                        ctx.cov['oracle_only_from_last_good_schema'] = lost_stats
            except Exception as e:
                ctx.log('no usable last good schema: %s' % e)
        except Exception as e:
            ctx.log('no partial environment either: %s' % e)
            with watchdog(oracle.budget, hard, 'the harvested encodings'):
                harvested_oracle(ctx, oracle, set())
            budget_verdict(ctx, oracle)
            return
    else:
        doc = load_schema()
    t_classes = {c['name'] for c in doc['classes']}
    ctx.cov['translator'] = {
        'classes_with_read_write': len(doc['all_class_names']),
        'under_T': len([c for c in doc['classes'] if 'stub' not in c.get('flags', [])]),
        'stub_classes': sorted(c['name'] for c in doc['classes'] if 'stub' in c.get('flags', [])),
        'schema_v3': doc.get('schema_v3', False),
        'dispatch_keys_outside_the_model': {c['name'] + '.' + it['field']: it['by']['dropped'] for c in doc['classes'] for it in c['rd']
                                            if it.get('by') and it['by'].get('dropped')},
        'under_T_names': sorted(t_classes),
        'excluded': doc['excluded'],
        'listed_but_translatable': doc['listed_but_translatable'],
        'class_level_min_version': {c['name']: c['minver'] for c in doc['classes'] if c.get('minver')},
        'validate_called_in_read_or_write': sorted(c['name'] for c in doc['classes'] if 'validate' in c.get('flags', [])),
    }
    ctx.log('translator: %d of %d classes under T (+%d stub), %d excluded' % (
        ctx.cov['translator']['under_T'], len(doc['all_class_names']), len(ctx.cov['translator']['stub_classes']), len(doc['excluded'])))

    # --- E_ok on the regenerated environment, independently of props/C01.v
    okE, out, err = ctx.coq_eval('env_ok', header + 'Eval vm_compute in (env_ok E, map c_name (filter (fun k => negb (cls_ok E k)) (e_classes E))).\n')
    flat = ' '.join(out.split())
    ctx.cov['env_ok'] = flat[:400] if okE else 'coqc failed: ' + (err or out)[-400:]
    env_ok = okE and '(true,' in flat.replace(' ', '')
    if not env_ok:
        ctx.broken.append({'kind': 'obligation', 'name': 'env_ok E', 'detail': 'the reader and writer schemas extracted from the tree do not agree: ' + ctx.cov['env_ok'],
                           'candidates': []})

    # --- structures: correspondence + oracle
    cases, meta, per_class = [], [], {}
    with watchdog(oracle.budget, hard, 'the structure generator'):
        cases, meta, per_class = struct_cases(ctx, doc, oracle)
    ctx.cov['per_class'] = per_class
    bad = ctx.run_cases('structs', header, cases, 'check_scase E %d' % FUEL,
                        what='rd/wr of Codec/Schema.v under the regenerated E vs read()/write() of the real classes')
    for i in bad[:20]:
        m = dict(meta[i])
        m['model'] = ctx.model_output(header, 'model_scase E %d (%s)' % (FUEL, cases[i])) if i in bad[:3] else None
        ctx.disagreement('structs', m)
        if str(m.get('impl', '')).startswith('reject') and m.get('hex'):
            try:
                if constructed_witness(ctx, m['class'], m['v'], bytes.fromhex(m['hex'])):
                    ctx.count('finder.constructed-witness')
            except Exception as e:      # the finder is best effort; the disagreement is reported in any case
                ctx.log('constructed_witness raised %s: %s' % (type(e).__name__, str(e)[:200]))
    for i in (0, len(cases) // 3, 2 * len(cases) // 3):
        if cases:
            ctx.sample({'struct_case': meta[i], 'coq': cases[i][:300]})

    # --- containers outside T that embed translated (version-dependent) classes: their own schema, minus the items of the
    #     classes outside T, steers the generator; only the direct oracle looks at the results (no model for them)
    oo = doc.get('oracle_only_classes', [])
    if oo:
        with watchdog(oracle.budget, hard, 'oracle-only containers'):
            _c, _m, oo_stats = struct_cases(ctx, dict(doc, classes=doc['classes'] + oo), oracle, only={c['name'] for c in oo})
            ctx.cov['oracle_only_containers'] = oo_stats
            ctx.log('oracle-only containers: %s' % ', '.join('%s (%d encodings)' % (n, st['valid'] + st['mutated']) for n, st in sorted(oo_stats.items())))

    # --- all classes, including the hand-modelled ones: harvested unit-test encodings through the real classes only
    with watchdog(oracle.budget, hard, 'the harvested encodings'):
        harvested_oracle(ctx, oracle, t_classes)
    ctx.cov['oracle_objects_checked'] = oracle.n
    with watchdog(oracle.budget, hard, 'the final re-check of the reference corpus'):
        oracle.recheck_corpus('then the structure generator, its mutated encodings and the harvested encodings were processed in the same process')
    ctx.cov['reference_corpus'] = {'values': len(oracle.corpus), 'rechecks': ctx.dist.get('oracle.corpus.rechecked', 0)}
    budget_verdict(ctx, oracle)
    ctx.cov['trusted_extra'] = [
        'translate/gen_schemas.py (ast walk of read()/write(); constructor expressions evaluated in the defining module)',
        'harness/schemagen.py encoder and generator; harness printers (vlib.coqprint)',
        'self.validate() inside read/write is accepted by the translator when validate() can only raise TypeError (never on reader-built objects); tied by K only',
        'classes with a class-level minimum version are tied for versions >= the minimum; below it the refusal is checked directly',
    ]


# ------------------------------------------------------------------ replay of a recorded violation
def constructed_witness(ctx, cname, v, bs):
    """Finder for a correspondence disagreement of the kind "the model (reader AND writer schema) accepts this encoding,
    the real reader refuses it": look for an OBJECT whose own write() yields exactly these bytes, which makes it a concrete
    failure of the round trip (encodable, not decodable).  Search: replace one fixed-width leaf of the encoding (Integer,
    Long Integer, Enumeration, Interval, Date-Time) by a small benign value; when the real reader accepts the neighbour,
    put the original value back through the object's public attributes and write it.  Runs only for disagreeing cases."""
    import ttlvparse
    cls = next((c for _, n, c, _ in all_struct_classes() if n == cname), None)
    if cls is None:
        return False
    leaves = []

    def walk(off, end):
        while off + 8 <= end:
            ty = bs[off + 3]
            ln = int.from_bytes(bs[off + 4:off + 8], 'big')
            if ty == 1:
                walk(off + 8, off + 8 + ln)
            elif ty in (2, 3, 5, 9, 10):
                leaves.append((off, ty, ln))
            off += 8 + ln + (-ln) % 8
    try:
        ttlvparse.parse(bs)
        walk(0, len(bs))
    except Exception:
        return False
    for off, ty, ln in leaves:
        raw = bs[off + 8:off + 8 + ln]
        orig = int.from_bytes(raw, 'big', signed=ty in (2, 3, 9))
        for benign in (1, 0, 2):
            if benign == orig:
                continue
            nb = bs[:off + 8] + int(benign).to_bytes(ln, 'big') + bs[off + 8 + ln:]
            obj, rest = impl_read(cls, nb, v)
            if obj is None or rest:
                continue
            names = [n for n in dir(obj) if not n.startswith('_')]
            for n in names:
                try:
                    cur = getattr(obj, n)
                except Exception:
                    continue
                if callable(cur) or isinstance(cur, bool):
                    continue
                curv = getattr(cur, 'value', cur)
                curv = getattr(curv, 'value', curv)
                if curv != benign:
                    continue
                for newv in ([orig] if not hasattr(cur, 'name') else []) + ([type(cur)(orig)] if hasattr(cur, 'name') and hasattr(type(cur), '__members__') and any(m.value == orig for m in type(cur)) else []):
                    o2, _ = impl_read(cls, nb, v)
                    try:
                        setattr(o2, n, newv)
                    except Exception:
                        continue
                    w = impl_write(o2, v)
                    if w == bs:
                        back, why = impl_read(cls, bs, v)
                        if back is None:
                            ctx.violation({'class': cname, 'check': 'write(x)-cannot-be-read'},
                                          {'class': cname, 'kmip_version': v, 'input_hex': bs.hex(),
                                           'detail': {'steps': ['x = %s decoded from the neighbour encoding (the same bytes with the item at offset %d set to %d)' % (cname, off, benign),
                                                                'x.%s = %r' % (n, orig), 'write(x) under KMIP %s gives input_hex' % v,
                                                                'a fresh %s refuses to read input_hex: %s' % (cname, why)],
                                                      'neighbour_hex': nb.hex(), 'attribute': n, 'value': orig}},
                                          '%s (KMIP %s): an object with %s = %r encodes, and its own encoding is refused by read() with %s' % (cname, v, n, orig, why))
                            return True
    return False


def replay(ctx, payload):
    """bin/check C01 --replay <file>: feed the recorded bytes to the recorded class under the recorded version again."""
    inp = payload.get('input') or {}
    cname, v = inp.get('class'), inp.get('kmip_version')
    detail = inp.get('detail') if isinstance(inp.get('detail'), dict) else {}
    hexes = [h for h in (detail.get('encoded'), inp.get('input_hex'), inp.get('encoded')) if isinstance(h, str)]
    cls = next((c for _, n, c, _ in all_struct_classes() if n == cname), None)
    if (payload.get('signature') or {}).get('check') == 'reference-corpus-changed' and (cls is not None or cname == 'enums.attribute_name_tag_table'):
        pass
    elif 'size' in (payload.get('signature') or {}) and cname in ('TextString', 'ByteString', 'BigInteger'):
        pass
    elif cls is None or not hexes or v not in sg.VERSIONS:
        print('replay: nothing replayable in this file (class %r, version %r)' % (cname, v))
        return 2
    oracle = Oracle(ctx)
    oracle.take_baseline()          # two-step findings: what fresh default instances encode to BEFORE the recorded input is decoded
    rc = 0
    if 'size' in (payload.get('signature') or {}) and cname in ('TextString', 'ByteString', 'BigInteger'):
        # a size probe: build the primitive of the recorded size again and round-trip it
        global SIZES
        SIZES = [int(payload['signature']['size'])]
        ctx.tier = 'thorough'
        size_probes(ctx, oracle)
        hit = [x for x in ctx.violations if x['signature'].get('class') == cname]
        for x in hit:
            print('replay: VIOLATION reproduced:', x['what'])
        print('replay: %s' % ('the violation reproduces' if hit else 'the violation does not reproduce on this tree'))
        return 1 if hit else 0
    if (payload.get('signature') or {}).get('check') == 'write(x)-cannot-be-read':
        hit = any(constructed_witness(ctx, cname, v, bytes.fromhex(h)) for h in hexes[:1])
        for x in ctx.violations:
            print('replay: VIOLATION reproduced:', x['what'])
        print('replay: %s' % ('the violation reproduces' if hit else 'the violation does not reproduce on this tree'))
        return 1 if hit else 0
    if (payload.get('signature') or {}).get('check') == 'reference-corpus-changed':
        # step 1: the reference value in a fresh process; step 2: the recorded odd input; step 3: the reference value again
        odd = (detail.get('odd_input') or {}).get('attribute_name')
        if odd is None:
            print('replay: the change was noticed at the end of the run, no single odd input was recorded')
            return 2
        helper = cname == 'enums.attribute_name_tag_table'
        before = oracle.helper_fingerprint() if helper else oracle.fingerprint(cls, v, bytes.fromhex(inp['input_hex']))
        steps = apply_odd_name(odd)
        after = oracle.helper_fingerprint() if helper else oracle.fingerprint(cls, v, bytes.fromhex(inp['input_hex']))
        print('replay: reference %s recorded; then %s; reference %s' % (cname, '; '.join(steps)[:600], 'DIFFERS' if before != after else 'unchanged'))
        print('replay: %s' % ('the violation reproduces' if before != after else 'the violation does not reproduce on this tree'))
        return 1 if before != after else 0
    for h in hexes:
        try:
            bs = bytes.fromhex(h)
        except ValueError:
            continue
        obj, rest = impl_read(cls, bs, v)
        if obj is None:
            print('replay: %s.read refuses %s... under KMIP %s with %s' % (cname, h[:48], v, rest))
            if 'rejected' in str(payload.get('what', '')) or 'rejected' in str((payload.get('signature') or {}).get('check', '')):
                rc = 1
            continue
        print('replay: %s.read accepts %s... under KMIP %s; running the round-trip oracle' % (cname, h[:48], v))
        oracle.accepted(cname, cls, v, bs, obj, rest, False, [x for x in sg.VERSIONS if x != v][:1])
    for viol in ctx.violations:
        print('replay: VIOLATION reproduced:', viol['what'], json.dumps(viol['witness'])[:300])
        rc = 1
    print('replay: %s' % ('the violation reproduces' if rc else 'the violation does not reproduce on this tree'))
    return rc
