"""C16 - field x version: the payload / object / message classes that have version blocks, written and read by the
real classes under every member of enums.KMIPVersion.

write: an instance with every version-dependent field set is encoded under v; observed = did it raise, and which of the
       version-dependent tags are children of the encoding.
read : for each version-dependent tag t, an encoding valid under v without t gets the TTLV item of t (taken from an
       encoding where the class emits it) spliced in at its place; observed = does read(v) accept it.
The model answers both from the guard table regenerated from the source (Fields.v over PKGen.VersionFields).
"""
import struct

import kdrv
from kmip.core import enums, objects as O, primitives as P, attributes as A, utils, exceptions as kexc
from kmip.core.messages import payloads, messages, contents
from vlib import coqprint as cp

T = enums.Tags
KV = list(enums.KMIPVersion)


def ver_of(kv):
    n = kv.name.split('_')
    return (int(n[1]), int(n[2]))


def cver(v):
    return '(%s, %s)' % (cp.z(v[0]), cp.z(v[1]))


# ---------------------------------------------------------------------------------------------- TTLV helpers
def children(buf):
    """[(tag value, raw item bytes)] of the children of the structure encoded in buf."""
    length = struct.unpack('!I', buf[4:8])[0]
    body = buf[8:8 + length]
    out = []
    i = 0
    while i + 8 <= len(body):
        tag = int.from_bytes(body[i:i + 3], 'big')
        ln = struct.unpack('!I', body[i + 4:i + 8])[0]
        pad = (8 - ln % 8) % 8
        out.append((tag, body[i:i + 8 + ln + pad]))
        i += 8 + ln + pad
    return out


def rebuild(buf, items):
    body = b''.join(raw for _, raw in items)
    return buf[:4] + struct.pack('!I', len(body)) + body


def encode(obj, kv):
    s = utils.BytearrayStream()
    obj.write(s, kmip_version=kv)
    return bytes(s.buffer)


def decode(cls_factory, data, kv):
    obj = cls_factory()
    obj.read(utils.BytearrayStream(data), kmip_version=kv)
    return obj


# ---------------------------------------------------------------------------------------------- recipes
VARIANT = [0]
CUR = [None]         # the version an instance is being built for (ResponseHeader carries it)


def var(a, b):
    """Two different contents for every version-dependent field (information-flow test of the readers)."""
    return a if VARIANT[0] == 0 else b


def ta(tag=T.TEMPLATE_ATTRIBUTE):
    return O.TemplateAttribute(attributes=[kdrv.attr('CRYPTOGRAPHIC_ALGORITHM', enums.CryptographicAlgorithm.AES),
                                           kdrv.attr('CRYPTOGRAPHIC_LENGTH', var(128, 256))], tag=tag)


def psm(tag=T.PROTECTION_STORAGE_MASKS):
    return O.ProtectionStorageMasks(protection_storage_masks=var([3, 768], [1, 2]), tag=tag)


def name_value():
    return kdrv.attr_value('NAME', kdrv.name_value(var('n1', 'n2')))


def pick(on, **kw):
    """kwargs whose tag (keyword -> tag name in the recipe) is switched on."""
    return kw


RECIPES = {}


def recipe(cls, tags, nested=()):
    """tags: {TAG_NAME: constructor keyword or None when the field is a mandatory alternate of another tag}."""
    def deco(fn):
        RECIPES[cls.__name__] = {'cls': cls, 'tags': tags, 'build': fn, 'nested': set(nested)}
        return fn
    return deco


def kw(on, mapping):
    return {k: v() for t, (k, v) in mapping.items() if t in on}


@recipe(payloads.CreateRequestPayload, ['TEMPLATE_ATTRIBUTE', 'ATTRIBUTES', 'PROTECTION_STORAGE_MASKS'])
def _(on):
    return payloads.CreateRequestPayload(object_type=enums.ObjectType.SYMMETRIC_KEY, template_attribute=ta(),
                                         protection_storage_masks=psm() if 'PROTECTION_STORAGE_MASKS' in on else None)


@recipe(payloads.CreateResponsePayload, ['TEMPLATE_ATTRIBUTE'])
def _(on):
    return payloads.CreateResponsePayload(object_type=enums.ObjectType.SYMMETRIC_KEY, unique_identifier='1',
                                          template_attribute=ta() if 'TEMPLATE_ATTRIBUTE' in on else None)


@recipe(payloads.RegisterRequestPayload, ['TEMPLATE_ATTRIBUTE', 'ATTRIBUTES', 'PROTECTION_STORAGE_MASKS'])
def _(on):
    return payloads.RegisterRequestPayload(object_type=enums.ObjectType.SYMMETRIC_KEY, template_attribute=ta(),
                                           managed_object=kdrv.secret_for(enums.ObjectType.SYMMETRIC_KEY),
                                           protection_storage_masks=psm() if 'PROTECTION_STORAGE_MASKS' in on else None)


@recipe(payloads.RegisterResponsePayload, ['TEMPLATE_ATTRIBUTE'])
def _(on):
    return payloads.RegisterResponsePayload(unique_identifier='1', template_attribute=ta() if 'TEMPLATE_ATTRIBUTE' in on else None)


@recipe(payloads.DeriveKeyRequestPayload, ['TEMPLATE_ATTRIBUTE', 'ATTRIBUTES'])
def _(on):
    return payloads.DeriveKeyRequestPayload(
        object_type=enums.ObjectType.SYMMETRIC_KEY, unique_identifiers=['1'], derivation_method=enums.DerivationMethod.HASH,
        derivation_parameters=A.DerivationParameters(cryptographic_parameters=A.CryptographicParameters(
            hashing_algorithm=enums.HashingAlgorithm.SHA_256), derivation_data=b'abc'),
        template_attribute=ta())


@recipe(payloads.DeriveKeyResponsePayload, ['TEMPLATE_ATTRIBUTE'])
def _(on):
    return payloads.DeriveKeyResponsePayload(unique_identifier='1', template_attribute=ta() if 'TEMPLATE_ATTRIBUTE' in on else None)


CKP = ['COMMON_TEMPLATE_ATTRIBUTE', 'PRIVATE_KEY_TEMPLATE_ATTRIBUTE', 'PUBLIC_KEY_TEMPLATE_ATTRIBUTE', 'COMMON_ATTRIBUTES',
       'PRIVATE_KEY_ATTRIBUTES', 'PUBLIC_KEY_ATTRIBUTES', 'COMMON_PROTECTION_STORAGE_MASKS', 'PRIVATE_PROTECTION_STORAGE_MASKS',
       'PUBLIC_PROTECTION_STORAGE_MASKS']


@recipe(payloads.CreateKeyPairRequestPayload, CKP)
def _(on):
    def opt(*names):
        return any(n in on for n in names)
    return payloads.CreateKeyPairRequestPayload(
        common_template_attribute=ta(T.COMMON_TEMPLATE_ATTRIBUTE) if opt('COMMON_TEMPLATE_ATTRIBUTE', 'COMMON_ATTRIBUTES') else None,
        private_key_template_attribute=ta(T.PRIVATE_KEY_TEMPLATE_ATTRIBUTE) if opt('PRIVATE_KEY_TEMPLATE_ATTRIBUTE', 'PRIVATE_KEY_ATTRIBUTES') else None,
        public_key_template_attribute=ta(T.PUBLIC_KEY_TEMPLATE_ATTRIBUTE) if opt('PUBLIC_KEY_TEMPLATE_ATTRIBUTE', 'PUBLIC_KEY_ATTRIBUTES') else None,
        common_protection_storage_masks=psm(T.COMMON_PROTECTION_STORAGE_MASKS) if opt('COMMON_PROTECTION_STORAGE_MASKS') else None,
        private_protection_storage_masks=psm(T.PRIVATE_PROTECTION_STORAGE_MASKS) if opt('PRIVATE_PROTECTION_STORAGE_MASKS') else None,
        public_protection_storage_masks=psm(T.PUBLIC_PROTECTION_STORAGE_MASKS) if opt('PUBLIC_PROTECTION_STORAGE_MASKS') else None)


@recipe(payloads.EncryptRequestPayload, ['AUTHENTICATED_ENCRYPTION_ADDITIONAL_DATA'])
def _(on):
    return payloads.EncryptRequestPayload(unique_identifier='1', data=b'0123456789abcdef', iv_counter_nonce=b'\1' * 12,
                                          auth_additional_data=var(b'aad', b'bbd') if 'AUTHENTICATED_ENCRYPTION_ADDITIONAL_DATA' in on else None)


@recipe(payloads.EncryptResponsePayload, ['AUTHENTICATED_ENCRYPTION_TAG'])
def _(on):
    return payloads.EncryptResponsePayload(unique_identifier='1', data=b'0123456789abcdef', iv_counter_nonce=b'\1' * 12,
                                           auth_tag=var(b'tagtagtagtagtagt', b'gatgatgatgatgatg') if 'AUTHENTICATED_ENCRYPTION_TAG' in on else None)


@recipe(payloads.DecryptRequestPayload, ['AUTHENTICATED_ENCRYPTION_ADDITIONAL_DATA', 'AUTHENTICATED_ENCRYPTION_TAG'])
def _(on):
    return payloads.DecryptRequestPayload(unique_identifier='1', data=b'0123456789abcdef', iv_counter_nonce=b'\1' * 12,
                                          auth_additional_data=var(b'aad', b'bbd') if 'AUTHENTICATED_ENCRYPTION_ADDITIONAL_DATA' in on else None,
                                          auth_tag=var(b'tagtagtagtagtagt', b'gatgatgatgatgatg') if 'AUTHENTICATED_ENCRYPTION_TAG' in on else None)


@recipe(payloads.DeleteAttributeRequestPayload, ['ATTRIBUTE_NAME', 'ATTRIBUTE_INDEX', 'CURRENT_ATTRIBUTE'])
def _(on):
    return payloads.DeleteAttributeRequestPayload(
        unique_identifier='1', attribute_name=var('Name', 'Object Group'), attribute_index=var(1, 2) if 'ATTRIBUTE_INDEX' in on else None,
        current_attribute=O.CurrentAttribute(attribute=name_value()))


@recipe(payloads.DeleteAttributeResponsePayload, ['ATTRIBUTE'])
def _(on):
    return payloads.DeleteAttributeResponsePayload(unique_identifier='1', attribute=kdrv.attr('NAME', kdrv.name_value(var('n1', 'n2')), 0))


@recipe(payloads.ModifyAttributeRequestPayload, ['ATTRIBUTE', 'CURRENT_ATTRIBUTE', 'NEW_ATTRIBUTE'])
def _(on):
    return payloads.ModifyAttributeRequestPayload(
        unique_identifier='1', attribute=kdrv.attr('NAME', kdrv.name_value(var('n1', 'n2')), 0),
        current_attribute=O.CurrentAttribute(attribute=name_value()) if 'CURRENT_ATTRIBUTE' in on else None,
        new_attribute=O.NewAttribute(attribute=name_value()))


@recipe(payloads.ModifyAttributeResponsePayload, ['ATTRIBUTE'])
def _(on):
    return payloads.ModifyAttributeResponsePayload(unique_identifier='1', attribute=kdrv.attr('NAME', kdrv.name_value(var('n1', 'n2')), 0))


@recipe(payloads.LocateRequestPayload, ['ATTRIBUTE', 'ATTRIBUTES'])
def _(on):
    return payloads.LocateRequestPayload(maximum_items=3, attributes=[kdrv.attr('CRYPTOGRAPHIC_LENGTH', var(128, 256))])


@recipe(payloads.GetAttributesRequestPayload, ['ATTRIBUTE_REFERENCE'])
def _(on):
    return payloads.GetAttributesRequestPayload(unique_identifier='1', attribute_names=var(['Cryptographic Length', 'State'], ['Name']))


@recipe(payloads.GetAttributesResponsePayload, ['ATTRIBUTE', 'ATTRIBUTES'])
def _(on):
    return payloads.GetAttributesResponsePayload(unique_identifier='1', attributes=[kdrv.attr('CRYPTOGRAPHIC_LENGTH', var(128, 256))])


@recipe(payloads.GetAttributeListResponsePayload, ['ATTRIBUTE_REFERENCE'])
def _(on):
    return payloads.GetAttributeListResponsePayload(unique_identifier='1', attribute_names=var(['Cryptographic Length', 'State'], ['Name']))


QR = ['EXTENSION_INFORMATION', 'ATTESTATION_TYPE', 'RNG_PARAMETERS', 'PROFILE_INFORMATION', 'VALIDATION_INFORMATION',
      'CAPABILITY_INFORMATION', 'CLIENT_REGISTRATION_METHOD', 'DEFAULTS_INFORMATION', 'PROTECTION_STORAGE_MASK']


def rng_parameters():
    return O.RNGParameters(rng_algorithm=var(enums.RNGAlgorithm.FIPS186_2, enums.RNGAlgorithm.DRBG))


def profile_information():
    return O.ProfileInformation(profile_name=enums.ProfileName.BASELINE_SERVER_BASIC_KMIPv12, server_uri='https://example.com', server_port=var(5696, 5697))


def validation_information():
    return O.ValidationInformation(validation_authority_type=enums.ValidationAuthorityType.COMMON_CRITERIA,
                                   validation_version_major=1, validation_type=enums.ValidationType.HYBRID, validation_level=var(5, 6))


def capability_information(on=('BATCH_UNDO_CAPABILITY', 'BATCH_CONTINUE_CAPABILITY')):
    return O.CapabilityInformation(streaming_capability=False, asynchronous_capability=var(True, False),
                                   batch_undo_capability=var(True, False) if 'BATCH_UNDO_CAPABILITY' in on else None,
                                   batch_continue_capability=var(True, False) if 'BATCH_CONTINUE_CAPABILITY' in on else None)


def object_defaults():
    return O.ObjectDefaults(object_type=enums.ObjectType.SYMMETRIC_KEY, attributes=O.Attributes(
        attributes=[A.CryptographicAlgorithm(var(enums.CryptographicAlgorithm.AES, enums.CryptographicAlgorithm.RSA))]))


def defaults_information():
    return O.DefaultsInformation(object_defaults=[object_defaults()])


@recipe(payloads.QueryResponsePayload, QR)
def _(on):
    g = lambda t, f: f() if t in on else None
    return payloads.QueryResponsePayload(
        operations=[enums.Operation.CREATE, enums.Operation.GET], object_types=[enums.ObjectType.SYMMETRIC_KEY],
        vendor_identification='vendor',
        extension_information=[O.ExtensionInformation(extension_name=O.ExtensionName(var('ACME', 'EMCA')))] if 'EXTENSION_INFORMATION' in on else None,
        attestation_types=[var(enums.AttestationType.TPM_QUOTE, enums.AttestationType.SAML_ASSERTION)] if 'ATTESTATION_TYPE' in on else None,
        rng_parameters=[rng_parameters()] if 'RNG_PARAMETERS' in on else None,
        profile_information=[profile_information()] if 'PROFILE_INFORMATION' in on else None,
        validation_information=[validation_information()] if 'VALIDATION_INFORMATION' in on else None,
        capability_information=[capability_information()] if 'CAPABILITY_INFORMATION' in on else None,
        client_registration_methods=[var(enums.ClientRegistrationMethod.CLIENT_GENERATED, enums.ClientRegistrationMethod.CLIENT_REGISTERED)] if 'CLIENT_REGISTRATION_METHOD' in on else None,
        defaults_information=g('DEFAULTS_INFORMATION', defaults_information),
        protection_storage_masks=var([3, 768], [1, 2]) if 'PROTECTION_STORAGE_MASK' in on else None)


@recipe(O.CapabilityInformation, ['BATCH_UNDO_CAPABILITY', 'BATCH_CONTINUE_CAPABILITY'])
def _(on):
    return capability_information(on)


@recipe(messages.ResponseHeader, ['SERVER_HASHED_PASSWORD'])
def _(on):
    return messages.ResponseHeader(protocol_version=contents.ProtocolVersion(*(ver_of(CUR[0]) if CUR[0] else (1, 0))), time_stamp=contents.TimeStamp(1600000000),
                                   batch_count=contents.BatchCount(1),
                                   server_hashed_password=var(b'\x0f', b'\x0e') * 32 if 'SERVER_HASHED_PASSWORD' in on else None)


@recipe(messages.RequestBatchItem, ['EPHEMERAL'])
def _(on):
    return messages.RequestBatchItem(operation=contents.Operation(enums.Operation.ACTIVATE),
                                     request_payload=payloads.ActivateRequestPayload(unique_identifier=A.UniqueIdentifier('1')),
                                     ephemeral=var(True, False) if 'EPHEMERAL' in on else None)


# whole structures that exist only from some version on
STRUCTS = {
    'Attributes': (O.Attributes, lambda: O.Attributes(attributes=[A.CryptographicAlgorithm(enums.CryptographicAlgorithm.AES)])),
    'CurrentAttribute': (O.CurrentAttribute, lambda: O.CurrentAttribute(attribute=name_value())),
    'NewAttribute': (O.NewAttribute, lambda: O.NewAttribute(attribute=name_value())),
    'AttributeReference': (O.AttributeReference, lambda: O.AttributeReference(vendor_identification='v', attribute_name='Name')),
    'ProtectionStorageMasks': (lambda: O.ProtectionStorageMasks(tag=T.PROTECTION_STORAGE_MASKS), psm),
    'ObjectDefaults': (O.ObjectDefaults, object_defaults),
    'DefaultsInformation': (O.DefaultsInformation, defaults_information),
    'SetAttributeRequestPayload': (payloads.SetAttributeRequestPayload, lambda: payloads.SetAttributeRequestPayload(
        unique_identifier='1', new_attribute=O.NewAttribute(attribute=name_value()))),
    'SetAttributeResponsePayload': (payloads.SetAttributeResponsePayload, lambda: payloads.SetAttributeResponsePayload(unique_identifier='1')),
    'RNGParameters': (O.RNGParameters, rng_parameters),
    'ProfileInformation': (O.ProfileInformation, profile_information),
    'ValidationInformation': (O.ValidationInformation, validation_information),
    'CapabilityInformation': (O.CapabilityInformation, capability_information),
}

STRUCTS['AttestationCredential'] = (O.AttestationCredential, lambda: O.AttestationCredential(
    nonce=O.Nonce(nonce_id=b'\x01', nonce_value=b'\x02\x03'), attestation_type=enums.AttestationType.TPM_QUOTE,
    attestation_measurement=b'\xff' * 8))

# independent oracle: tag -> version of the specification that introduced the field (harness-side copy, by tag only)
SPEC_FIELD_MIN = {
    'ATTRIBUTES': (2, 0), 'COMMON_ATTRIBUTES': (2, 0), 'PRIVATE_KEY_ATTRIBUTES': (2, 0), 'PUBLIC_KEY_ATTRIBUTES': (2, 0),
    'PROTECTION_STORAGE_MASKS': (2, 0), 'COMMON_PROTECTION_STORAGE_MASKS': (2, 0), 'PRIVATE_PROTECTION_STORAGE_MASKS': (2, 0),
    'PUBLIC_PROTECTION_STORAGE_MASKS': (2, 0), 'CURRENT_ATTRIBUTE': (2, 0), 'NEW_ATTRIBUTE': (2, 0), 'ATTRIBUTE_REFERENCE': (2, 0),
    'EPHEMERAL': (2, 0), 'SERVER_HASHED_PASSWORD': (2, 0), 'DEFAULTS_INFORMATION': (2, 0), 'PROTECTION_STORAGE_MASK': (2, 0),
    'AUTHENTICATED_ENCRYPTION_ADDITIONAL_DATA': (1, 4), 'AUTHENTICATED_ENCRYPTION_TAG': (1, 4),
    'BATCH_UNDO_CAPABILITY': (1, 4), 'BATCH_CONTINUE_CAPABILITY': (1, 4),
    'EXTENSION_INFORMATION': (1, 1), 'ATTESTATION_TYPE': (1, 2), 'RNG_PARAMETERS': (1, 3), 'PROFILE_INFORMATION': (1, 3),
    'VALIDATION_INFORMATION': (1, 3), 'CAPABILITY_INFORMATION': (1, 3), 'CLIENT_REGISTRATION_METHOD': (1, 3)}
SPEC_STRUCT_MIN = {'Attributes': (2, 0), 'CurrentAttribute': (2, 0), 'NewAttribute': (2, 0), 'AttributeReference': (2, 0),
                   'ProtectionStorageMasks': (2, 0), 'ObjectDefaults': (2, 0), 'DefaultsInformation': (2, 0),
                   'SetAttributeRequestPayload': (2, 0), 'SetAttributeResponsePayload': (2, 0), 'RNGParameters': (1, 3),
                   'ProfileInformation': (1, 3), 'ValidationInformation': (1, 3), 'CapabilityInformation': (1, 3),
                   'AttestationCredential': (1, 2)}


def tag_names(buf):
    out = []
    for tag, _ in children(buf):
        try:
            n = T(tag).name
        except ValueError:
            n = hex(tag)
        out.append(n)
    return out


def try_encode(obj, kv):
    try:
        if isinstance(obj, messages.ResponseHeader):
            obj.protocol_version = contents.ProtocolVersion(*ver_of(kv))
        return encode(obj, kv), None
    except Exception as e:          # noqa - any refusal counts
        return None, e


def try_decode(factory, data, kv):
    try:
        decode(factory, data, kv)
        return True, None
    except Exception as e:          # noqa
        return False, e


def field_cases(ctx, cases, meta):
    for name, rc in RECIPES.items():
        tags = rc['tags']
        full = rc['build'](set(tags))
        enc = {}
        for kv in KV:
            v = ver_of(kv)
            data, err = try_encode(rc['build'](set(tags)), kv)
            enc[kv] = data
            emitted = sorted(set(t for t in (tag_names(data) if data else []) if t in tags))
            cases.append('CFieldWrite %s %s %s %s %s' % (cp.string(name), cver(v), cp.lst(sorted(tags), cp.string),
                                                        cp.lst(emitted, cp.string), cp.boolean(data is None)))
            meta.append(('field-write', name, v))
            ctx.case_seen(('field-write', name, v, tuple(emitted)))
            ctx.count('field.write.%s' % ('raised' if data is None else 'ok'))
            for t in emitted:
                if SPEC_FIELD_MIN.get(t, (1, 0)) > v:
                    ctx.violation({'class': 'field-sent', 'payload': name, 'tag': t, 'version': '%d.%d' % v},
                                  {'class': name, 'version': v, 'children_tags': tag_names(data), 'hex': data.hex()[:400]},
                                  '%s encoded under KMIP %d.%d contains %s (introduced in KMIP %d.%d)' % (
                                      name, v[0], v[1], t, SPEC_FIELD_MIN[t][0], SPEC_FIELD_MIN[t][1]))
        # read: splice each version-dependent item (two different contents) into an encoding that is valid without it;
        # the reader has accepted the field when it decodes and the two contents give different objects
        def build(on, variant):
            VARIANT[0] = variant
            try:
                return rc['build'](on)
            finally:
                VARIANT[0] = 0

        def item_of(t, variant):
            for kv in KV:
                d, _ = try_encode(build({t}, variant), kv)
                if d is None:
                    continue
                ch = children(d)
                for k, (tag, raw) in enumerate(ch):
                    if tag == T[t].value:
                        return raw, (ch[k - 1][0] if k else None)
            return None

        def differs(a, b):
            try:
                if a == b:
                    return False
            except Exception:        # noqa
                pass
            for kv2 in KV:
                ea, eb = try_encode(a, kv2)[0], try_encode(b, kv2)[0]
                if ea != eb:
                    return True
            return False

        for t in tags:
            src = [item_of(t, 0), item_of(t, 1)]
            if None in src or src[0][0] == src[1][0]:
                ctx.disagreement('c16', {'field-read: no encoding emits the tag in two variants': (name, t)})
                continue
            for kv in KV:
                v = ver_of(kv)
                decoded = []
                how = None
                for variant in (0, 1):
                    base, _ = try_encode(build(set(), variant), kv)
                    if base is None:
                        decoded = None
                        break
                    ch = children(base)
                    if any(tag == T[t].value for tag, _ in ch):
                        spliced = base
                        how = 'present'
                    else:
                        raw, pred = src[variant]
                        pos = 0
                        for k, (tag, _) in enumerate(ch):
                            if tag == pred:
                                pos = k + 1
                        spliced = rebuild(base, ch[:pos] + [(T[t].value, raw)] + ch[pos:])
                        how = 'spliced'
                    try:
                        decoded.append((decode(rc['cls'], spliced, kv), spliced))
                    except Exception:        # noqa
                        decoded.append(None)
                if decoded is None:
                    continue
                if None in decoded:
                    ok, result = False, 'rejected'
                elif how == 'present' or differs(decoded[0][0], decoded[1][0]):
                    ok, result = True, 'accepted'
                else:
                    ok, result = False, 'ignored'
                cases.append('CFieldRead %s %s %s %s' % (cp.string(name), cver(v), cp.string(t), cp.boolean(ok)))
                meta.append(('field-read', name, t, v, how, result))
                ctx.case_seen(('field-read', name, t, v))
                ctx.count('field.read.%s.%s' % (how, result))
                if ok and SPEC_FIELD_MIN.get(t, (1, 0)) > v:
                    ctx.violation({'class': 'field-accepted', 'payload': name, 'tag': t, 'version': '%d.%d' % v},
                                  {'class': name, 'version': v, 'tag': t, 'hex': decoded[0][1].hex()[:400]},
                                  '%s.read under KMIP %d.%d accepts %s (introduced in KMIP %d.%d)' % (
                                      name, v[0], v[1], t, SPEC_FIELD_MIN[t][0], SPEC_FIELD_MIN[t][1]))
    # structures
    for name, (factory, build) in STRUCTS.items():
        newest, _ = try_encode(build(), KV[-1])
        for kv in KV:
            v = ver_of(kv)
            data, err = try_encode(build(), kv)
            cases.append('CStruct "write" %s %s %s' % (cp.string(name), cver(v), cp.boolean(isinstance(err, kexc.VersionNotSupported))))
            meta.append(('struct-write', name, v))
            ctx.case_seen(('struct-write', name, v))
            if data is not None and SPEC_STRUCT_MIN[name] > v:
                ctx.violation({'class': 'field-sent', 'payload': name, 'version': '%d.%d' % v, 'site': 'objects.py:' + name}, {'class': name, 'version': v, 'hex': data.hex()[:400]},
                              '%s can be encoded under KMIP %d.%d' % (name, v[0], v[1]))
            if newest is not None:
                ok, err = try_decode(factory, newest, kv)
                refused = isinstance(err, kexc.VersionNotSupported)
                cases.append('CStruct "read" %s %s %s' % (cp.string(name), cver(v), cp.boolean(refused)))
                meta.append(('struct-read', name, v))
                ctx.case_seen(('struct-read', name, v))
                ctx.count('field.struct.%s' % ('refused' if refused else 'read'))
                if ok and SPEC_STRUCT_MIN[name] > v:
                    ctx.violation({'class': 'field-accepted', 'payload': name, 'version': '%d.%d' % v, 'site': 'objects.py:' + name}, {'class': name, 'version': v, 'hex': newest.hex()[:400]},
                                  '%s can be decoded under KMIP %d.%d' % (name, v[0], v[1]))
    # enums.is_attribute
    for tag in T:
        for kv in KV:
            cases.append('CAttrTag %s %s %s' % (cp.string(tag.name), cver(ver_of(kv)), cp.boolean(bool(enums.is_attribute(tag, kmip_version=kv)))))
            meta.append(('attr-tag', tag.name, ver_of(kv)))
            ctx.case_seen(('attr-tag', tag.name, ver_of(kv)))
    ctx.count('field.is_attribute', len(list(T)) * len(KV))
    # Attributes structure: a later attribute is neither written nor read under an earlier 2.x ... only 2.0 exists, so the
    # per-attribute gate is exercised through is_attribute above and through TemplateAttribute -> Attributes conversion here
    for tagname, build in (('SENSITIVE', lambda: P.Boolean(True, tag=T.SENSITIVE)),
                           ('OPERATION_POLICY_NAME', lambda: P.TextString('default', tag=T.OPERATION_POLICY_NAME))):
        data, err = try_encode(O.Attributes(attributes=[build()]), enums.KMIPVersion.KMIP_2_0)
        allowed = bool(enums.is_attribute(T[tagname], kmip_version=enums.KMIPVersion.KMIP_2_0))
        if (data is not None) != allowed:
            ctx.disagreement('c16', {'Attributes.write and is_attribute differ': tagname})


# ====================================================================================== later fields on the wire
REQUEST_CLASSES = {
    'CreateRequestPayload': enums.Operation.CREATE, 'RegisterRequestPayload': enums.Operation.REGISTER,
    'DeriveKeyRequestPayload': enums.Operation.DERIVE_KEY, 'CreateKeyPairRequestPayload': enums.Operation.CREATE_KEY_PAIR,
    'EncryptRequestPayload': enums.Operation.ENCRYPT, 'DecryptRequestPayload': enums.Operation.DECRYPT,
    'DeleteAttributeRequestPayload': enums.Operation.DELETE_ATTRIBUTE, 'ModifyAttributeRequestPayload': enums.Operation.MODIFY_ATTRIBUTE,
    'LocateRequestPayload': enums.Operation.LOCATE, 'GetAttributesRequestPayload': enums.Operation.GET_ATTRIBUTES,
}


def splice_into(struct_bytes, path, tagv, raw, pred):
    """Insert the TTLV item `raw` among the children of the structure reached from struct_bytes by the tag path (first
    child with each tag), after the child tagged `pred` (or first).  Lengths are recomputed on the way up.  Independent of
    PyKMIP (children / rebuild above)."""
    ch = children(struct_bytes)
    if not path:
        pos = 0
        for k, (tag, _) in enumerate(ch):
            if tag == pred:
                pos = k + 1
        return rebuild(struct_bytes, ch[:pos] + [(tagv, raw)] + ch[pos:])
    for k, (tag, item) in enumerate(ch):
        if tag == path[0]:
            ch[k] = (tag, splice_into(item, path[1:], tagv, raw, pred))
            return rebuild(struct_bytes, ch)
    raise KeyError(path[0])


def wire_field_cases(ctx, cases, meta):
    """For every version-conditional field of the request envelope and of the request payloads: a well-formed request of a
    version that does not have the field yet, with the field's TTLV item spliced in at its place by an independent encoder,
    sent through the real KmipSession.  The request must be refused before the engine sees it."""
    import kdrv as _k
    import sessdrv
    eng = _k.Engine(workdir=ctx.work)
    proxy = sessdrv.EngineProxy(eng)
    targets = [('RequestBatchItem', 'EPHEMERAL', None)]
    for name, op in REQUEST_CLASSES.items():
        for t in RECIPES[name]['tags']:
            if t in SPEC_FIELD_MIN:
                targets.append((name, t, op))
    try:
        for name, t, op in targets:
            rc = RECIPES[name]
            src = None
            for kv in reversed(KV):
                VARIANT[0] = 0
                d, _ = try_encode(rc['build']({t}), kv)
                if d is None:
                    continue
                ch = children(d)
                for k, (tag, raw) in enumerate(ch):
                    if tag == T[t].value:
                        src = (raw, ch[k - 1][0] if k else None)
                if src:
                    break
            if src is None:
                ctx.disagreement('c16', {'wire-field: no encoding emits the tag': (name, t)})
                continue
            raw, pred = src
            for kv in KV:
                v = ver_of(kv)
                if not SPEC_FIELD_MIN[t] > v:
                    continue
                if op is None:
                    item = (enums.Operation.ACTIVATE, payloads.ActivateRequestPayload(unique_identifier=A.UniqueIdentifier('1')))
                    path = [T.BATCH_ITEM.value]
                else:
                    base_payload = rc['build'](set())
                    if try_encode(base_payload, kv)[0] is None:
                        continue
                    item = (op, base_payload)
                    path = [T.BATCH_ITEM.value, T.REQUEST_PAYLOAD.value]
                req = eng.build([item], version=v)
                frame = sessdrv.encode_request(req, v)
                try:
                    spliced = splice_into(frame, path, T[t].value, raw, pred)
                except KeyError:
                    continue
                ncalls = len(proxy.calls)
                obs, conn = sessdrv.run_spec(proxy, sessdrv.default_spec(spliced, ts=eng.clock.t), dumps=False)
                processed = len(proxy.calls) > ncalls
                sent = b''.join(obs['frames'][0]['sent']) if obs['frames'] else b''
                cases.append('CWireField %s %s %s %s' % (cp.string(name), cver(v), cp.string(t), cp.boolean(processed)))
                meta.append(('wire-field', name, t, v))
                ctx.case_seen(('wire-field', name, t, v))
                ctx.count('wire-field.%s' % ('processed' if processed else 'refused'))
                if processed:
                    ctx.violation({'class': 'field-accepted', 'payload': name, 'tag': t, 'version': '%d.%d' % v, 'via': 'session', 'site': 'read() of ' + name},
                                  {'class': name, 'tag': t, 'request_version': v, 'request_hex': spliced.hex(), 'answer_hex': sent.hex()[:400],
                                   'operation': op.name if op else 'ACTIVATE'},
                                  'a KMIP %d.%d request carrying %s (%s, introduced in KMIP %d.%d) is decoded by the session and handed to the engine' % (
                                      v[0], v[1], t, name, SPEC_FIELD_MIN[t][0], SPEC_FIELD_MIN[t][1]))
    finally:
        eng.close()
