"""C16 - field x version: payload classes written / read under every version (filled in below)."""


def field_cases(ctx, cases, meta):
    return
