"""C19 - the client reports exactly what the server answered.

regenerate (enum tables) -> prove (props/C19.v) -> correspondence K(b): scripted responder x every client method x
response shapes x chunkings, Coq compares with Client.interpret / proxy_call / Framing.read -> correspondence K(a):
every method x argument menu x versions against the real server stack -> direct oracle on every case.
"""
import random
import traceback

# Whatever happens - also while importing the code under test - must end in the framework's VIOLATION protocol, never in
# an uncaught traceback: an import failure is remembered and reported by run().
IMPORT_ERROR = None
try:
    from kmip.core import enums, utils
    from kmip.core.messages import messages
    from kmip.services.kmip_protocol import KMIPProtocol, RequestLengthMismatch

    import clientdrv as D
    from clientdrv import Item, RS, RR, KV, OP
except BaseException as _e:       # noqa
    if isinstance(_e, (KeyboardInterrupt, SystemExit)):
        raise
    IMPORT_ERROR = traceback.format_exc()

HEADER = ('From PK Require Import Client.ClientCases.\nFrom Coq Require Import List ZArith.\n'
          'Import ListNotations.\nOpen Scope Z_scope.\n')

RESULT_OBJECT_OPS = {'create', 'create_key_pair', 'register', 'locate', 'get', 'get_attributes', 'get_attribute_list',
                     'activate', 'revoke', 'destroy', 'mac'}
PAYLOAD_OPS = {'delete_attribute', 'set_attribute', 'modify_attribute'}
DICT_OPS = {'rekey', 'derive_key', 'check', 'encrypt', 'decrypt', 'signature_verify', 'sign'}


def path_of(name):
    return 'result-object' if name in RESULT_OBJECT_OPS else 'send_request_payload' if name in PAYLOAD_OPS else 'dict'


# ---------------------------------------------------------------------- response shapes
def shapes_for(op, version, rng, reasons, quick):
    """[(label, legal?, [Item...])].  `legal` = a server may send this to a one-item request of this client."""
    msg = D.gen_text(rng, 1, 30)
    out = []
    out.append(('success', True, [Item(RS.SUCCESS, payload=op.payload(rng, version))]))
    for flabel, mk in D.FALSY_PAYLOADS.get(op.name, []):
        # values a payload field DOES carry although they are empty / zero: they must come back as such, not as absent
        fp = mk(rng, version)
        if fp is not None:
            out.append(('success-falsy-' + flabel, True, [Item(RS.SUCCESS, payload=fp)]))
    if op.name == 'get':
        # wrapped keys: Key Wrapping Data with every optional sub-structure present / absent, pairwise different values
        for shape in ('both', 'enc-only', 'mac-only', 'both-no-params', 'enc-params-only', 'mac-params-only', 'split'):
            out.append(('success-wrapped-' + shape, True, [Item(RS.SUCCESS, payload=D.p_get(rng, version, shape))]))
    for r in reasons:
        out.append(('failure', True, [Item(RS.OPERATION_FAILED, r, D.gen_text(rng, 0, 40))]))
    r0 = rng.choice(list(RR))
    out.append(('failure-without-message', True, [Item(RS.OPERATION_FAILED, r0, None)]))
    out.append(('failure-empty-message', True, [Item(RS.OPERATION_FAILED, r0, '')]))
    out.append(('request-failure', True, [Item(RS.OPERATION_FAILED, rng.choice([RR.INVALID_MESSAGE, RR.AUTHENTICATION_NOT_SUCCESSFUL,
                                                                               RR.RESPONSE_TOO_LARGE, RR.GENERAL_FAILURE]), msg, op=None)]))
    out.append(('request-failure-without-message', True, [Item(RS.OPERATION_FAILED, RR.INVALID_MESSAGE, None, op=None)]))
    # a server that refuses at header level answers in ITS version (PyKMIP's own session: 1.0): the Response Header announces
    # a protocol version different from the client's
    others = [D.VER_TUPLE[x] for x in D.VERSIONS if x != version]
    hvs = others if not quick else ([(1, 0)] if version != KV.KMIP_1_0 else [(1, 2), (2, 0)]) + [rng.choice(others)]
    for hv in hvs:
        out.append(('request-failure-header-%d.%d' % hv, True,
                    [Item(RS.OPERATION_FAILED, rng.choice([RR.INVALID_MESSAGE, RR.AUTHENTICATION_NOT_SUCCESSFUL, RR.GENERAL_FAILURE]),
                          D.gen_text(rng, 1, 30), op=None, hv=hv)]))
    out.append(('failure-header-other-version', False, [Item(RS.OPERATION_FAILED, r0, msg, hv=rng.choice(others))]))
    # decodable but not legal answers to this client: the model must still agree, the oracle only forbids "success"
    out.append(('pending', False, [Item(RS.OPERATION_PENDING, r0, msg)]))
    out.append(('undone', False, [Item(RS.OPERATION_UNDONE, r0, msg)]))
    out.append(('failure-without-reason', False, [Item(RS.OPERATION_FAILED, None, msg)]))
    out.append(('pending-bare', False, [Item(RS.OPERATION_PENDING, None, None)]))
    out.append(('success-without-payload', False, [Item(RS.SUCCESS)]))
    out.append(('success-without-operation', False, [Item(RS.SUCCESS, op=None)]))
    others = [o for o in (OP.GET_ATTRIBUTE_LIST, OP.CREATE_KEY_PAIR, OP.GET_ATTRIBUTES, OP.QUERY, OP.DISCOVER_VERSIONS,
                          OP.DESTROY, OP.ENCRYPT, OP.REKEY_KEY_PAIR) if o != op.code]
    wo = rng.choice(others)
    out.append(('wrong-operation-failure', False, [Item(RS.OPERATION_FAILED, r0, msg, op=wo)]))
    out.append(('wrong-operation-success', False, [Item(RS.SUCCESS, op=rng.choice(others))]))
    out.append(('no-items', False, []))
    out.append(('two-items-fail-first', False, [Item(RS.OPERATION_FAILED, r0, msg), Item(RS.SUCCESS, payload=op.payload(rng, version))]))
    out.append(('two-items-success-first', False, [Item(RS.SUCCESS, payload=op.payload(rng, version)), Item(RS.OPERATION_FAILED, r0, msg)]))
    out.append(('failure-with-payload', False, [Item(RS.OPERATION_FAILED, r0, msg, payload=op.payload(rng, version))]))
    return out


def mangles(rng):
    def set_byte(i, b):
        return lambda d: d[:i] + bytes([b]) + d[i + 1:] if len(d) > i else d

    def random_body(d):
        return d[:8] + bytes(rng.randrange(256) for _ in range(len(d) - 8))

    def cut_fix(d):
        k = rng.randrange(8, max(9, len(d) - 1))
        k -= k % 8
        body = d[8:max(8, k)]
        return d[:4] + len(body).to_bytes(4, 'big') + body

    def bad_status(d):
        i = d.find(bytes.fromhex('42007f0500000004'))
        return d[:i + 8] + bytes.fromhex('0000007f') + d[i + 12:] if i >= 0 else d

    def drop_status(d):
        i = d.find(bytes.fromhex('42007f0500000004'))
        if i < 0:
            return d
        j = d.find(bytes.fromhex('42000f01'))       # batch item header: fix its length and the message length
        e = d[:i] + d[i + 16:]
        if j >= 0:
            bl = int.from_bytes(e[j + 4:j + 8], 'big') - 16
            e = e[:j + 4] + bl.to_bytes(4, 'big') + e[j + 8:]
        return e[:4] + (len(e) - 8).to_bytes(4, 'big') + e[8:]

    def flip(d):
        i = rng.randrange(8, len(d))
        return d[:i] + bytes([d[i] ^ (1 << rng.randrange(8))]) + d[i + 1:]

    return [('tag', set_byte(2, 0x78)), ('type', set_byte(3, 0x02)), ('random-body', random_body), ('cut-fix', cut_fix),
            ('bad-status', bad_status), ('drop-status', drop_status), ('flip', flip), ('flip', flip)]


# ---------------------------------------------------------------------- one scripted call
_CTX = None


def scripted_call(op, version, kwargs, items=None, mangle=None, plan=('whole',), raw=None):
    resp = D.Scripted(version, items=items, mangle=mangle, plan=plan, raw=raw)
    sock = D.ChunkSock(resp)
    cl = D.make_client(version, sock)
    out = D.run_call(lambda: D.call_pie(cl, op, kwargs))
    if sock.sent and resp.request is None and _CTX is not None:
        # wherever it happens: a request the server-side reader rejects is a violation with a concrete input
        _CTX.violation({'client': 'pie', 'op': op.name, 'what': 'request-not-decodable', 'version': version.name},
                       {'method': op.name, 'arguments': repr(kwargs)[:500], 'kmip_version': version.name,
                        'request_hex': sock.sent[0].hex(), 'decoder_error': resp.request_error},
                       '%s (%s) emitted a request the server-side decoder rejects: %s' % (op.name, version.name, resp.request_error))
    return out, resp, sock


def abstract_items(version, resp, items, mangled):
    """The abstract response the client was given: from the script, or (when bytes were mangled) from the real decoder."""
    if not mangled:
        rop = resp.request.batch_items[0].operation.value if resp.request is not None else None
        out = []
        for it in items:
            opv = rop if it.op == 'same' else it.op
            out.append({'op': opv.value if opv is not None else None, 'status': it.status.value,
                        'reason': it.reason.value if it.reason is not None else None,
                        'msg': it.message.encode('utf-8') if it.message is not None else None,
                        'payload': D.obj_attrs(it.payload, D.P_ATTR) if it.payload is not None else None})
        return out
    m = D.decode_response(version, resp.response_bytes)
    if m is None:
        return None
    return [D.ritem_of_batch_item(bi) for bi in m.batch_items]


def first_difference(a, b, path='value'):
    """Where two projected values differ: 'value[5][2][1][0]: expected ..., got ...'."""
    if a == b:
        return None
    if a is not None and b is not None and a[0] == 'l' and b[0] == 'l' and len(a[1]) == len(b[1]):
        for i, (x, y) in enumerate(zip(a[1], b[1])):
            d = first_difference(x, y, '%s[%d]' % (path, i))
            if d:
                return d
    return '%s: expected %s, got %s' % (path, repr(a)[:120], repr(b)[:120])


def oracle(ctx, op, version, label, legal, abstract, expected_val, out, truncated=False, witness=None):
    """The property itself, evaluated on the implementation's behaviour (no model)."""
    name = op.name
    w = dict(witness or {})
    w.update({'client': 'ProxyKmipClient', 'method': name, 'kmip_version': version.name, 'response': label,
              'observed': D.outcome_plain(out)})
    if truncated:
        if out[0] == 'return':
            ctx.violation({'client': 'pie', 'op': name, 'response': 'truncated-stream', 'what': 'returned-data'}, w,
                          '%s returned data although the response stream ended early' % name)
        return
    if abstract is None or len(abstract) == 0:
        if out[0] == 'return':
            ctx.violation({'client': 'pie', 'op': name, 'response': 'undecodable', 'what': 'returned-data'}, w,
                          '%s returned data for a response that cannot be decoded' % name)
        return
    first = abstract[0]
    if first['status'] != 0:
        if out[0] == 'return':
            ctx.violation({'client': 'pie', 'op': name, 'response': label, 'what': 'success-on-failure'}, w,
                          '%s returned normally although the result status was not Success' % name)
        elif out[0] == 'raise':
            _, cls, st, rs, msg = out
            exp = (first['status'], first['reason'], first['msg'])
            got = (st.value, rs.value, msg.encode('utf-8') if msg is not None else None)
            if exp != got:
                w['expected'] = repr(exp)
                ctx.violation({'client': 'pie', 'op': name, 'response': label, 'what': 'failure-misreported'}, w,
                              '%s raised an operation failure whose status/reason/message differ from the response' % name)
        elif legal:
            w['expected'] = 'operation failure carrying %r' % ((first['status'], first['reason'], first['msg']),)
            if name == 'check':
                sig = {'client': 'pie', 'op': 'check', 'response': 'failure', 'exc': out[1]}
            else:
                sig = {'client': 'pie', 'path': path_of(name), 'op': name, 'exc': out[1],
                       'response': 'failure-without-message' if first['msg'] is None else 'failure'}
            ctx.violation(sig, w, '%s raised %s instead of an operation failure for a legal failure response (%s)' % (name, out[1], label))
        return
    if legal:
        if out[0] != 'return':
            ctx.violation({'client': 'pie', 'op': name, 'response': label, 'what': 'success-not-returned'}, w,
                          '%s did not return the data of a successful response' % name)
        elif D.to_val(out[1]) != expected_val:
            w['expected'] = repr(expected_val)[:300]
            w['first_difference'] = first_difference(expected_val, D.to_val(out[1]))
            ctx.violation({'client': 'pie', 'op': name, 'response': label, 'what': 'wrong-data'}, w,
                          '%s returned data that differs from the payload of the successful response' % name)


def pie_cases(ctx, quick):
    rng = ctx.subrng('pie')
    cases, meta = [], []
    all_reasons = list(RR)
    ri = 0
    n_args = 1 if quick else 4
    for op in D.OPS:
        for version in D.VERSIONS:
            if op.min_version is not None and version < op.min_version:
                ctx.count('pie.%s.not-offered-in.%s' % (op.name, version.name))
                continue
            for rep in range(n_args):
                reasons = []
                for _ in range(3 if quick else 12):
                    reasons.append(all_reasons[ri % len(all_reasons)])
                    ri += 1
                for attempt in range(8):      # arguments the method accepts under this version (it emits a request)
                    kwargs = op.args(rng, version)
                    _, _, probe = scripted_call(op, version, kwargs, items=[Item(RS.OPERATION_FAILED, RR.GENERAL_FAILURE, 'probe')])
                    if probe.sent:
                        break
                shapes = shapes_for(op, version, rng, reasons, quick)
                for label, legal, items in shapes:
                    out, resp, sock = scripted_call(op, version, kwargs, items=items)
                    if not sock.sent:
                        # the method refused its arguments under this version before emitting anything
                        ctx.count('pie.%s.%s.nothing-emitted:%s' % (op.name, version.name, out[1] if out[0] == 'other' else out[0]))
                        break
                    if resp.request is None:
                        ctx.violation({'client': 'pie', 'op': op.name, 'what': 'request-not-decodable', 'version': version.name},
                                      {'method': op.name, 'arguments': repr(kwargs)[:400], 'kmip_version': version.name,
                                       'request_hex': sock.sent[0].hex(), 'decoder_error': resp.request_error},
                                      '%s emitted a request the server-side decoder rejects' % op.name)
                        break
                    abstract = abstract_items(version, resp, items, False)
                    exp = None
                    if legal and label.startswith('success'):
                        exp = D.to_val(op.expect(items[0].payload))
                    oracle(ctx, op, version, label, legal, abstract, exp, out,
                           witness={'arguments': repr(kwargs)[:400], 'response_items': [i.describe() for i in items],
                                    'response_hex': resp.response_bytes.hex()})
                    cases.append('(CPie %s %s %s)' % (op.model, D.resp_coq(abstract), D.outcome_coq(out)))
                    meta.append((op.name, version.name, label, D.outcome_plain(out)))
                    ctx.count('pie.%s.%s' % (label, out[0] if out[0] != 'other' else 'other:' + out[1]))
                    ctx.case_seen(('pie', op.name, version.name, label, cases[-1]), nontrivial=True)
                # undecodable / corrupted bytes
                for mlabel, mfn in (mangles(rng) if sock.sent and resp.request is not None else []):
                    base_items = rng.choice(shapes[:3])[2]
                    out, resp, sock = scripted_call(op, version, kwargs, items=base_items, mangle=mfn)
                    abstract = abstract_items(version, resp, base_items, True)
                    oracle(ctx, op, version, 'mangled-' + mlabel, False, abstract, None, out,
                           witness={'response_hex': resp.response_bytes.hex()})
                    sok, swhy = strictly_decodable(resp.response_bytes)
                    # agreed with the integrator: a STRUCTURE length overrunning the message is tolerated (not a C19 finding);
                    # a primitive announcing more value bytes than are present is not
                    overrun = ' bytes, ' in swhy and 'left' in swhy and first_overrun(resp.response_bytes) == 1
                    unchecked_length = 'type 6 must have length' in swhy   # Boolean.read ignores its length field
                    if not sok and out[0] == 'return' and (overrun or (
                            unchecked_length and
                            D.outcome_coq(out) == D.outcome_coq(scripted_call(op, version, kwargs, items=base_items)[0]))):
                        # A flipped LENGTH field (the last structure claims more bytes than the message holds: BytearrayStream.read
                        # hands over what is there; or a Boolean's length field, which Boolean.read does not look at) and the decode
                        # goes through with every value intact: the outcome equals that of the uncorrupted answer.
                        # Observed on the unchanged tree, counted, not demanded by this check (lenient structure lengths are
                        # the codec's business: C01/C02); the data returned is exactly the data carried.
                        ctx.count('pie.mangled-%s.length-overrun-tolerated.return' % mlabel)
                    elif not sok and out[0] == 'return':
                        # independent notion of decodable (not PyKMIP's own decoder)
                        ctx.violation({'client': 'pie', 'op': op.name, 'response': 'not-strictly-decodable', 'what': 'returned-data'},
                                      {'method': op.name, 'kmip_version': version.name, 'corruption': mlabel, 'why_undecodable': swhy,
                                       'response_hex': resp.response_bytes.hex(), 'observed': D.outcome_plain(out)},
                                      '%s returned data although the response cannot be decoded by the independent strict parser (%s)' % (op.name, swhy))
                    if op.name == 'get' and abstract and abstract[0]['status'] == 0 and abstract[0]['payload'] is not None:
                        # a corrupted-yet-decodable managed object: whether the Pie object model can represent it
                        # (ObjectFactory.convert / object validation) is C05's subject, not modelled here
                        ctx.count('pie.mangled-%s.get-success-not-compared' % mlabel)
                        continue
                    cases.append('(CPie %s %s %s)' % (op.model, D.resp_coq(abstract), D.outcome_coq(out)))
                    meta.append((op.name, version.name, 'mangled-' + mlabel, D.outcome_plain(out)))
                    ctx.count('pie.mangled-%s.%s.%s' % (mlabel, 'undecodable' if abstract is None else 'decodable', out[0]))
                    ctx.case_seen(('pie', op.name, version.name, mlabel, cases[-1]), nontrivial=True)
    return cases, meta


# ---------------------------------------------------------------------- framing: KMIPProtocol.read on chunked transports
def chunk_plans(n, rng, quick):
    """Chunking classes for an n-byte stream."""
    plans = [('whole',), ('bytes',), ('cuts', [4]), ('cuts', [8]), ('cuts', [1, 7]), ('cuts', [3, 8, 9]), ('size', 7),
             ('cuts', sorted(rng.sample(range(1, max(2, n)), min(max(0, n - 1), rng.randint(1, 6)))) if n > 2 else [1])]
    if n > 8:
        plans.append(('cuts', [8, n - 1]))
    if not quick:
        plans += [('size', k) for k in (2, 3, 5, 16)]
    return plans


def truncation_points(n, rng, quick):
    pts = {0, 1, 4, 7, 8, 9, n - 1, n - 8 if n > 16 else n - 1, n // 2}
    pts |= {rng.randrange(0, n) for _ in range(2 if quick else 8)}
    return sorted(p for p in pts if 0 <= p < n)


def read_observe(chunks):
    sock = D.ChunkSock(chunks=chunks)
    proto = KMIPProtocol(sock)
    try:
        data = proto.read()
    except EOFError:
        return ('eof',), sock
    except RequestLengthMismatch as e:
        return ('short', e.expected, e.received), sock
    except Exception as e:           # not a behaviour the model has: shows up as a disagreement
        return ('unexpected', type(e).__name__), sock
    return ('ok', bytes(data.buffer)), sock


def fres_coq(obs, sock):
    if obs[0] == 'ok':
        return '(FOk %s %s)' % (D.cp.byts(obs[1]), D.cp.lst(sock.chunks, D.cp.byts))
    if obs[0] == 'eof':
        return 'FEof'
    if obs[0] == 'unexpected':
        return '(FShort (-1) (-1))'
    return '(FShort %s %s)' % (D.cp.z(obs[1]), D.cp.z(obs[2]))


def framing_cases(ctx, quick):
    rng = ctx.subrng('framing')
    cases, meta = [], []
    streams = []
    for L in ([0, 1, 8, 13, 24] if quick else [0, 1, 2, 7, 8, 9, 16, 24, 40, 64]):
        body = D.gen_bytes(rng, L, L)
        frame = bytes([0x42, 0x00, 0x7b, 0x01]) + L.to_bytes(4, 'big') + body
        streams.append(('frame', frame, len(frame)))
        streams.append(('frame+more', frame + D.gen_bytes(rng, 1, 12), len(frame)))
        streams.append(('two-frames', frame + frame, len(frame)))
    streams.append(('huge-length', bytes.fromhex('42007b01ffffffff') + D.gen_bytes(rng, 5, 5), None))
    streams.append(('big-length', bytes.fromhex('42007b0100010000') + D.gen_bytes(rng, 20, 20), None))
    for _ in range(4 if quick else 20):
        streams.append(('random', D.gen_bytes(rng, 0, 30), None))
    for label, data, flen in streams:
        n = len(data)
        todo = [(pl, data) for pl in chunk_plans(n, rng, quick)]
        if flen:
            todo += [(('whole',), data[:k]) for k in truncation_points(flen, rng, quick)]
            todo += [(('bytes',), data[:k]) for k in truncation_points(flen, rng, True)[:4]]
        seen = set()
        for plan, d in todo:
            chunks = D.chunk(d, plan)
            key = tuple(chunks)
            if key in seen:
                continue
            seen.add(key)
            obs, sock = read_observe(chunks)
            cases.append('(CRead %s %s)' % (D.cp.lst(chunks, D.cp.byts), fres_coq(obs, sock)))
            meta.append((label, plan, d.hex(), obs[0]))
            ctx.count('framing.%s.%s' % (label, obs[0]))
            ctx.case_seen(('read', key), nontrivial=True)
            # direct oracle: a complete frame at the head of the stream is delivered intact; anything shorter is an error
            complete = flen is not None and len(d) >= flen
            if complete and (obs[0] != 'ok' or obs[1] != data[:flen] or b''.join(sock.chunks) != d[flen:]):
                ctx.violation({'client': 'protocol', 'what': 'frame-not-delivered-intact'},
                              {'chunks': [c.hex() for c in chunks], 'observed': repr(obs)[:300]},
                              'KMIPProtocol.read did not deliver a complete message intact under chunking %r' % (plan,))
            if flen is not None and len(d) < flen and obs[0] == 'ok':
                ctx.violation({'client': 'protocol', 'what': 'truncated-stream-delivered'},
                              {'chunks': [c.hex() for c in chunks], 'observed': repr(obs)[:300]},
                              'KMIPProtocol.read returned a message although the stream ended early')
    return cases, meta


# ---------------------------------------------------------------------- whole calls under chunking / truncation
def chunked_cases(ctx, quick):
    rng = ctx.subrng('chunked')
    cases, meta = [], []
    vi = 0
    for op in D.OPS:
        version = D.VERSIONS[vi % len(D.VERSIONS)]
        vi += 1
        if op.min_version is not None and version < op.min_version:
            version = op.min_version
        for label in ('success', 'failure'):
            for attempt in range(6):
                kwargs = op.args(rng, version)
                if label == 'success':
                    items = [Item(RS.SUCCESS, payload=op.payload(rng, version))]
                else:
                    items = [Item(RS.OPERATION_FAILED, rng.choice(list(RR)), D.gen_text(rng, 1, 20))]
                base, resp, sock = scripted_call(op, version, kwargs, items=items)
                if sock.sent and resp.request is not None:
                    break
            else:
                ctx.count('chunked.%s.nothing-emitted' % op.name)
                continue
            frame = resp.response_bytes
            abstract = abstract_items(version, resp, items, False)
            n = len(frame)
            plans = chunk_plans(n, rng, quick)
            truncs = [('truncate', k) for k in truncation_points(n, rng, quick)] + [('truncate', n // 2, ('bytes',))]
            for plan in plans + truncs:
                out, _, _ = scripted_call(op, version, kwargs, raw=frame, plan=plan)
                chunks = D.chunk(frame, plan)
                truncated = plan[0] == 'truncate'
                w = {'chunking': repr(plan), 'response_hex': frame.hex(), 'whole_delivery': D.outcome_plain(base)}
                if truncated:
                    oracle(ctx, op, version, label, False, abstract, None, out, truncated=True, witness=w)
                    if out[0] != 'other' or out[1] not in ('EOFError', 'RequestLengthMismatch'):
                        ctx.count('chunked.truncated.unexpected:%s' % (out[1] if out[0] == 'other' else out[0]))
                elif D.outcome_coq(out) != D.outcome_coq(base):
                    w.update({'client': 'ProxyKmipClient', 'method': op.name, 'observed': D.outcome_plain(out)})
                    ctx.violation({'client': 'pie', 'op': op.name, 'what': 'chunking-changes-outcome'}, w,
                                  '%s: the outcome depends on how the transport split the response (%r)' % (op.name, plan))
                cases.append('(CCall %s %s %s %s %s)' % (op.model, D.cp.lst(chunks, D.cp.byts), D.cp.byts(frame),
                                                       D.resp_coq(abstract), D.outcome_coq(out)))
                meta.append((op.name, version.name, label, repr(plan), D.outcome_plain(out)))
                ctx.count('chunked.%s.%s.%s' % (label, plan[0], out[0] if out[0] != 'other' else 'other:' + out[1]))
                ctx.case_seen(('call', op.name, label, repr(plan)), nontrivial=True)
    return cases, meta


# ---------------------------------------------------------------------- KMIPProxy level
def proxy_cases(ctx, quick):
    rng = ctx.subrng('proxy')
    cases, meta = [], []
    all_reasons = list(RR)
    ri = 0
    for op in D.OPS + D.PROXY_ONLY:
        for version in D.VERSIONS:
            if op.min_version is not None and version < op.min_version:
                continue
            call = D.PROXY_CALLS[op.name]
            if version >= KV.KMIP_2_0 and op.name in D.PROXY_CALLS_20:
                call = D.PROXY_CALLS_20[op.name]
            reasons = [all_reasons[(ri + k) % len(all_reasons)] for k in range(2 if quick else 8)]
            ri += len(reasons)
            shapes = shapes_for(op, version, rng, reasons, quick)
            for label, legal, items in shapes:
                resp = D.Scripted(version, items=items)
                sock = D.ChunkSock(resp)
                cl = D.make_client(version, sock)
                obs = D.proxy_observe(lambda: call(cl.proxy, rng))
                if not sock.sent:
                    ctx.count('proxy.%s.%s.nothing-emitted:%s' % (op.name, version.name, obs[1] if obs[0] == 'exc' else obs[0]))
                    break
                if resp.request is None:
                    ctx.violation({'client': 'proxy', 'op': op.name, 'what': 'request-not-decodable', 'version': version.name},
                                  {'method': 'KMIPProxy.' + op.name, 'kmip_version': version.name, 'request_hex': sock.sent[0].hex(),
                                   'decoder_error': resp.request_error}, 'KMIPProxy.%s emitted a request the server-side decoder rejects' % op.name)
                    break
                abstract = abstract_items(version, resp, items, False)
                cases.append('(CProxy %s %s %s)' % (op.model, D.resp_coq(abstract), D.pout_coq(obs)))
                meta.append((op.name, version.name, label, D.pout_plain(obs)))
                ctx.count('proxy.%s.%s' % (label, obs[0] if obs[0] != 'exc' else 'exc:' + obs[1]))
                ctx.case_seen(('proxy', op.name, version.name, label, cases[-1]), nontrivial=True)
                # direct oracle: what comes back carries exactly the first item's status / reason / message
                if not abstract:
                    continue
                first = abstract[0]
                exp = (first['status'], first['reason'], first['msg'].decode('utf-8') if first['msg'] is not None else None)
                got = D.pout_triple(obs)
                w = {'client': 'KMIPProxy', 'method': op.name, 'kmip_version': version.name, 'response': label,
                     'response_items': [i.describe() for i in items], 'observed': D.pout_plain(obs), 'expected': repr(exp)}
                if legal and label.startswith('success') and items[0].payload is not None:
                    for fld, e_, g_ in D.proxy_data_mismatches(op.name, obs, items[0].payload)[:2]:
                        w2 = dict(w)
                        w2.update({'field': fld, 'expected': e_, 'got': g_, 'response_hex': resp.response_bytes.hex()})
                        ctx.violation({'client': 'proxy', 'op': op.name, 'response': label, 'what': 'wrong-data', 'field': fld}, w2,
                                      'KMIPProxy.%s: result field %s is %s, the successful answer carries %s' % (op.name, fld, g_, e_))
                if got is not None and got != exp:
                    ctx.violation({'client': 'proxy', 'op': op.name, 'response': label, 'what': 'result-miscopied'}, w,
                                  'KMIPProxy.%s: status/reason/message of the result differ from the response' % op.name)
                if obs[0] == 'payload' and first['status'] != 0:
                    ctx.violation({'client': 'proxy', 'op': op.name, 'response': label, 'what': 'success-on-failure'}, w,
                                  'KMIPProxy.%s returned a payload although the result status was not Success' % op.name)
                if got is None and obs[0] == 'exc' and legal and first['status'] != 0:
                    sig = {'client': 'proxy', 'op': op.name, 'exc': obs[1],
                           'response': 'failure' if op.name in ('check', 'discover_versions') else
                                       ('failure-without-message' if first['msg'] is None else 'failure')}
                    if op.name in PAYLOAD_OPS:
                        sig['path'] = 'send_request_payload'
                    if op.name == 'discover_versions' and first['op'] is None:
                        sig['response'] = 'request-failure'
                    ctx.violation(sig, w, 'KMIPProxy.%s raised %s instead of reporting a legal failure response (%s)' % (op.name, obs[1], label))
    return cases, meta


# ---------------------------------------------------------------------- K(a): the real server stack
def server_call(ctx, st, op, version, kwargs, cases, meta, tag, client=None, history=None, rcases=None):
    """One Pie call against the real server stack.  client=(cl, sock): reuse that client object, switching it to `version`
    through the public kmip_version setter first (history = the calls it made before)."""
    n0 = len(st.decoded)
    if client is None:
        sock = D.ChunkSock(st)
        cl = D.make_client(version, sock)
    else:
        cl, sock = client
        cl.kmip_version = version
    s0 = len(sock.sent)
    out = D.run_call(lambda: D.call_pie(cl, op, kwargs))
    if len(sock.sent) == s0:
        ctx.count('server.%s.%s.nothing-emitted:%s' % (op.name, version.name, out[1] if out[0] == 'other' else out[0]))
        return out
    w = {'client': 'ProxyKmipClient', 'method': op.name, 'arguments': repr(kwargs)[:500], 'kmip_version': version.name,
         'request_hex': sock.sent[-1].hex(), 'response_hex': st.responses[-1].hex(), 'observed': D.outcome_plain(out)}
    if history is not None:
        w['history'] = 'same client object, earlier calls: ' + ', '.join('%s under %s' % h for h in history)
    if rcases is not None:
        body = payload_body(sock.sent[-1])
        if body is not None:
            rcases.append('(CReq %s %s %s %s)' % (KVER[version], D.cp.z(op.code.value), D.cp.byts(body), D.cp.byts(sock.sent[-1])))
    if len(st.decoded) == n0:
        ctx.violation({'client': 'pie', 'op': op.name, 'what': 'request-not-decodable', 'version': version.name}, w,
                      '%s (%s) emitted a request the server could not decode' % (op.name, version.name))
    else:
        req = st.decoded[-1]
        hv = req.request_header.protocol_version
        problems = []
        if (hv.major, hv.minor) != D.VER_TUPLE[version]:
            problems.append(('protocol version', D.VER_TUPLE[version], (hv.major, hv.minor)))
        if req.request_header.batch_count.value != 1 or len(req.batch_items) != 1:
            problems.append(('batch count', 1, (req.request_header.batch_count.value, len(req.batch_items))))
        else:
            bi = req.batch_items[0]
            if bi.operation.value != op.code:
                problems.append(('operation', op.code.name, bi.operation.value.name))
            else:
                for what, exp, got in D.request_expectations(op, kwargs, bi.request_payload, version):
                    if exp != got:
                        problems.append((what, exp, got))
        for what, exp, got in problems[:3]:
            w2 = dict(w)
            w2.update({'field': what, 'expected': repr(exp)[:300], 'server_decoded': repr(got)[:300]})
            ctx.violation({'client': 'pie', 'op': op.name, 'what': 'request-field-mismatch', 'field': what}, w2,
                          '%s (%s): the server decoded %s = %r, the argument was %r' % (op.name, version.name, what, got, exp))
        ctx.count('server.request.%s' % ('ok' if not problems else 'mismatch'))
    m = D.decode_response(version, st.responses[-1])
    abstract = [D.ritem_of_batch_item(bi) for bi in m.batch_items] if m is not None else None
    exp = None
    label = 'server:undecodable'
    if abstract:
        ok = abstract[0]['status'] == 0
        label = 'server:success' if ok else 'server:failure'
        if ok and m.batch_items[0].response_payload is not None:
            exp = D.to_val(op.expect(m.batch_items[0].response_payload))
    oracle(ctx, op, version, label, True, abstract, exp, out, witness=w)
    cases.append('(CPie %s %s %s)' % (op.model, D.resp_coq(abstract), D.outcome_coq(out)))
    meta.append((op.name, version.name, tag, label, D.outcome_plain(out)))
    reason = ''
    if abstract and abstract[0]['status'] != 0 and abstract[0]['reason'] is not None:
        reason = '.' + RR(abstract[0]['reason']).name
    ctx.count('server.%s.%s%s' % (op.name, label.split(':')[1], reason))
    ctx.case_seen(('server', op.name, version.name, cases[-1]), nontrivial=True)
    return out


def scenario(ctx, st, version, rng, cases, meta):
    """A history on the real server in which most operations succeed, so that real payloads travel back."""
    CA, CUM = enums.CryptographicAlgorithm, enums.CryptographicUsageMask
    O = D.OPS_BY_NAME

    def call(opname_, **kw):
        out = server_call(ctx, st, O[opname_], version, kw, cases, meta, 'scenario')
        return out[1] if out[0] == 'return' else None
    v2 = version >= KV.KMIP_2_0
    opn = None if v2 else 'default'
    uid = call('create', algorithm=CA.AES, length=256, operation_policy_name=opn, name=D.gen_text(rng, 3, 12),
               cryptographic_usage_mask=[CUM.ENCRYPT, CUM.DECRYPT])
    if uid is None:
        return
    call('get_attribute_list', uid=uid)
    call('get_attributes', uid=uid, attribute_names=['Name', 'Cryptographic Length', 'State', 'Cryptographic Algorithm'])
    call('get_attributes', uid=uid, attribute_names=None)
    call('get', uid=uid, key_wrapping_specification=None)
    call('encrypt', data=b'too early', uid=uid, cryptographic_parameters=None, iv_counter_nonce=None)     # not active yet: failure
    call('activate', uid=uid)
    cpd = {'cryptographic_algorithm': CA.AES, 'block_cipher_mode': enums.BlockCipherMode.CBC, 'padding_method': enums.PaddingMethod.PKCS5}
    pt, iv = D.gen_bytes(rng, 1, 40), D.gen_bytes(rng, 16, 16)
    r = call('encrypt', data=pt, uid=uid, cryptographic_parameters=cpd, iv_counter_nonce=iv)
    if r is not None:
        back = call('decrypt', data=r[0], uid=uid, cryptographic_parameters=cpd, iv_counter_nonce=iv)
        if back != pt:
            ctx.violation({'client': 'pie', 'what': 'encrypt-decrypt-roundtrip'}, {'version': version.name, 'plaintext': pt.hex(), 'got': repr(back)},
                          'decrypt(encrypt(x)) through the client and the real server is not x')
    hk = call('register', managed_object=D.pobjects.SymmetricKey(CA.HMAC_SHA256, 256, D.gen_bytes(rng, 32, 32),
                                                                 masks=[CUM.MAC_GENERATE, CUM.MAC_VERIFY], name='hmac' + D.gen_text(rng, 1, 5)))
    if hk is not None:
        call('activate', uid=hk)
        call('mac', data=D.gen_bytes(rng, 0, 30), uid=hk, algorithm=CA.HMAC_SHA256)
        call('mac', data=b'x', uid=hk, algorithm=None)
    kp = call('create_key_pair', algorithm=CA.RSA, length=1024, operation_policy_name=opn, public_name='pub' + D.gen_text(rng, 1, 5),
              public_usage_mask=[CUM.VERIFY], private_name='priv' + D.gen_text(rng, 1, 5), private_usage_mask=[CUM.SIGN])
    if kp is not None:
        pub, priv = kp
        call('activate', uid=priv)
        call('activate', uid=pub)
        sp = {'cryptographic_algorithm': CA.RSA, 'hashing_algorithm': enums.HashingAlgorithm.SHA_256, 'padding_method': enums.PaddingMethod.PSS}
        msg = D.gen_bytes(rng, 1, 30)
        sig = call('sign', data=msg, uid=priv, cryptographic_parameters=sp)
        if sig is not None:
            call('signature_verify', message=msg, signature=sig, uid=pub, cryptographic_parameters=sp)
            call('signature_verify', message=msg + b'!', signature=sig, uid=pub, cryptographic_parameters=sp)
        call('get', uid=pub, key_wrapping_specification=None)
        call('get', uid=priv, key_wrapping_specification=None)
    dk = call('create', algorithm=CA.AES, length=128, operation_policy_name=None, name=None, cryptographic_usage_mask=[CUM.DERIVE_KEY])
    if dk is not None:
        call('activate', uid=dk)
    call('derive_key', object_type=enums.ObjectType.SYMMETRIC_KEY, unique_identifiers=[dk or uid], derivation_method=enums.DerivationMethod.HASH,
         derivation_parameters={'cryptographic_parameters': {'hashing_algorithm': enums.HashingAlgorithm.SHA_256}},
         cryptographic_length=128, cryptographic_algorithm=CA.AES)
    for _ in range(3):
        o = D.gen_pie_object(rng)
        if v2:
            o.operation_policy_name = None
        ruid = call('register', managed_object=o)
        if ruid is not None:
            got = call('get', uid=ruid, key_wrapping_specification=None)
            if got is not None and D.to_val(got) != D.to_val(o):
                ctx.violation({'client': 'pie', 'what': 'register-get-roundtrip'}, {'version': version.name, 'registered': repr(D.to_val(o)), 'got': repr(D.to_val(got))},
                              'get(register(x)) through the client and the real server is not x')
    wk = call('create', algorithm=CA.AES, length=128, operation_policy_name=None, name=None, cryptographic_usage_mask=[CUM.WRAP_KEY])
    if wk is not None:
        call('activate', uid=wk)
        spec = {'wrapping_method': enums.WrappingMethod.ENCRYPT,
                'encryption_key_information': {'unique_identifier': wk,
                                               'cryptographic_parameters': {'block_cipher_mode': enums.BlockCipherMode.NIST_KEY_WRAP}},
                'encoding_option': enums.EncodingOption.NO_ENCODING}
        call('get', uid=uid, key_wrapping_specification=spec)
    call('locate', maximum_items=None, offset_items=None, storage_status_mask=None, object_group_member=None, attributes=None)
    call('locate', maximum_items=2, offset_items=1, storage_status_mask=None, object_group_member=None,
         attributes=[D.kdrv.attr('OBJECT_TYPE', enums.ObjectType.SYMMETRIC_KEY)])
    if not v2:
        call('modify_attribute', unique_identifier=uid, attribute=D.kdrv.attr('NAME', D.kdrv.name_value('renamed'), 0))
        call('delete_attribute', unique_identifier=uid, attribute_name='Name', attribute_index=0)
    else:
        call('set_attribute', unique_identifier=uid, attribute_name='Sensitive', attribute_value=True)
    call('check', uid=uid, usage_limits_count=1, cryptographic_usage_mask=[CUM.ENCRYPT], lease_time=None)
    call('rekey', uid=uid, offset=0)
    call('destroy', uid=uid)                                              # active: failure
    call('revoke', revocation_reason=enums.RevocationReasonCode.KEY_COMPROMISE, uid=uid, revocation_message='gone',
         compromise_occurrence_date=1500000000)
    call('destroy', uid=uid)
    call('get', uid=uid, key_wrapping_specification=None)                 # destroyed: failure


SWITCH_OPS = ['create', 'register', 'locate', 'get_attributes']


def switch_cases(ctx, quick):
    """ONE client object whose kmip_version is reassigned between calls: every ordered pair of versions x the operations
    whose encoding differs across versions; plus one long walk through all transitions on a single client."""
    rng = ctx.subrng('switch')
    cases, meta, rcases = [], [], []
    st = D.ServerStack(str(ctx.work))
    O = D.OPS_BY_NAME
    try:
        k = 0
        for v1 in D.VERSIONS:
            for v2 in D.VERSIONS:
                for name2 in SWITCH_OPS:
                    name1 = SWITCH_OPS[k % len(SWITCH_OPS)]
                    k += 1
                    sock = D.ChunkSock(st)
                    cl = D.make_client(v1, sock)
                    hist = []
                    for name, v in ((name1, v1), (name2, v2)):
                        for attempt in range(8):
                            kw = O[name].args(rng, v)
                            n = len(sock.sent)
                            server_call(ctx, st, O[name], v, kw, cases, meta, 'switch', client=(cl, sock), history=list(hist),
                                        rcases=rcases)
                            if len(sock.sent) > n:
                                break
                        hist.append((name, v.name))
                    ctx.count('switch.%s->%s' % (v1.name, v2.name))
        # a walk visiting every ordered pair of distinct versions on a single client object
        sock = D.ChunkSock(st)
        cl = D.make_client(D.VERSIONS[0], sock)
        hist = []
        walk = []
        n = len(D.VERSIONS)
        for d in range(1, n):
            for i in range(n):
                walk.append(D.VERSIONS[(i * d) % n] if False else D.VERSIONS[i])
                walk.append(D.VERSIONS[(i + d) % n])
        for j, v in enumerate(walk):
            name = SWITCH_OPS[j % len(SWITCH_OPS)]
            for attempt in range(8):
                kw = O[name].args(rng, v)
                n0 = len(sock.sent)
                server_call(ctx, st, O[name], v, kw, cases, meta, 'walk', client=(cl, sock), history=hist[-6:], rcases=rcases)
                if len(sock.sent) > n0:
                    break
            hist.append((name, v.name))
        ctx.count('switch.walk.calls', len(walk))
    finally:
        st.close()
    return cases, meta, rcases


def argument_menu_cases(ctx, quick):
    """Every method x version with NO optional argument, EVERY optional argument, and each optional argument alone, against
    the real server stack: the server's reader must decode the request and the decoded fields must equal the arguments."""
    rng = ctx.subrng('argmenus')
    cases, meta, rcases = [], [], []
    st = D.ServerStack(str(ctx.work))
    try:
        for op in D.OPS:
            for version in D.VERSIONS:
                if op.min_version is not None and version < op.min_version:
                    continue
                for label, kwargs in D.menus_for(op, rng, version):
                    n = len(cases)
                    server_call(ctx, st, op, version, kwargs, cases, meta, 'menu:' + label, rcases=rcases)
                    ctx.count('argmenus.%s.%s' % (label if label in ('none', 'all') else 'one-alone', 'emitted' if len(cases) > n else 'refused-by-client'))
    finally:
        st.close()
    return cases, meta, rcases


def server_cases(ctx, quick):
    rng = ctx.subrng('server')
    cases, meta = [], []
    st = D.ServerStack(str(ctx.work))
    try:
        for version in D.VERSIONS:
            scenario(ctx, st, version, rng, cases, meta)
        for op in D.OPS:
            for version in D.VERSIONS:
                if op.min_version is not None and version < op.min_version:
                    continue
                done = 0
                for attempt in range(12):
                    if done >= (2 if quick else 8):
                        break
                    kwargs = op.args(rng, version)
                    n = len(cases)
                    server_call(ctx, st, op, version, kwargs, cases, meta, 'sweep')
                    done += len(cases) - n
                if done == 0:
                    ctx.count('server.%s.%s.never-emitted' % (op.name, version.name))
    finally:
        st.close()
    return cases, meta


# ---------------------------------------------------------------------- corrupted VALUE bytes in well-formed structure
try:
    import ttlvparse
except BaseException:      # noqa
    IMPORT_ERROR = IMPORT_ERROR or traceback.format_exc()


def leaves(bs, off=0, end=None, out=None):
    """[(value offset, type, length)] of every primitive item of a TTLV byte string (own walk, by the specification)."""
    out = [] if out is None else out
    end = len(bs) if end is None else end
    while off + 8 <= end:
        ty = bs[off + 3]
        ln = int.from_bytes(bs[off + 4:off + 8], 'big')
        if ty == 1:
            leaves(bs, off + 8, off + 8 + ln, out)
        else:
            out.append((off + 8, ty, ln))
        off += 8 + ln + (-ln) % 8
    return out


def text_items_of(item, out=None):
    out = [] if out is None else out
    if item['type'] == 1:
        for c in item['value']:
            text_items_of(c, out)
    elif item['type'] == 7:
        out.append(item['value'])
    return out


def strictly_decodable(bs):
    """Independent notion of 'this response can be decoded': exactly one well-formed TTLV item (harness/ttlvparse.py:
    types, fixed lengths, zero padding, Boolean 0/1, nothing trailing) whose Text Strings are valid UTF-8 (strict:
    no stray/continuation/truncated/overlong/surrogate forms - CPython's strict decoder)."""
    try:
        item, rest = ttlvparse.parse(bytes(bs))
    except ttlvparse.Malformed as e:
        return False, str(e)
    if rest:
        return False, 'trailing bytes'
    for t in text_items_of(item):
        try:
            t.decode('utf-8', 'strict')
        except UnicodeDecodeError as e:
            return False, 'text %r is not UTF-8: %s' % (t, e.reason)
    return True, ''


def first_overrun(bs, off=0, end=None):
    """Type of the first item (depth first) whose announced value does not fit into its container, or None."""
    end = len(bs) if end is None else end
    while off < end:
        if off + 8 > end:
            return 0
        ty = bs[off + 3]
        ln = int.from_bytes(bs[off + 4:off + 8], 'big')
        if off + 8 + ln + (-ln) % 8 > end:
            return ty
        if ty == 1:
            r = first_overrun(bs, off + 8, off + 8 + ln)
            if r is not None:
                return r
        off += 8 + ln + (-ln) % 8
    return None


def last_leaf(bs):
    """(offsets of the enclosing structure headers, offset of the last primitive item's header) of a TTLV message."""
    stack, off, end = [], 0, len(bs)
    while True:
        items = D._items(bs, off, end)
        if not items:
            return stack, None
        o, tag, tot = items[-1]
        if bs[o + 3] == 1:
            stack.append(o)
            ln = int.from_bytes(bs[o + 4:o + 8], 'big')
            off, end = o + 8, o + 8 + ln
            if ln == 0:
                return stack, None
        else:
            return stack, o


def tail_corruptions(frame, rng):
    """Corruptions that keep the outer framing consistent: the length field of the FINAL primitive item is enlarged / reduced
    (enclosing lengths untouched: they still match the bytes present), or the tail of its value is cut off and every
    enclosing length repaired."""
    out = []
    stack, leaf = last_leaf(frame)
    if leaf is None:
        return out
    ty = frame[leaf + 3]
    ln = int.from_bytes(frame[leaf + 4:leaf + 8], 'big')

    def setlen(bs, o, v):
        return bs[:o + 4] + int(v).to_bytes(4, 'big') + bs[o + 8:]
    for k in (1, 8, 9, 64, 65536):
        out.append(('type%d-length+%d' % (ty, k), setlen(frame, leaf, ln + k)))
    for k in (1, 8):
        if ln - k >= 0:
            out.append(('type%d-length-%d' % (ty, k), setlen(frame, leaf, ln - k)))
    padded = ln + (-ln) % 8
    for t in sorted({1, 8, padded - 1, padded} & set(range(1, padded + 1))):
        cut = frame[:len(frame) - t]
        for o in stack:
            cut = setlen(cut, o, int.from_bytes(cut[o + 4:o + 8], 'big') - t)
        out.append(('type%d-value-cut-%d-lengths-repaired' % (ty, t), cut))
    return out


def value_corruptions(frame, rng, per_kind=2):
    """[(label, corrupted frame)]: single VALUE bytes (or padding bytes) changed, every header/length untouched."""
    out = []
    lv = leaves(frame)
    texts = [(o, n) for o, t, n in lv if t == 7 and n > 0]
    rng.shuffle(texts)

    def put(o, bs_):
        return frame[:o] + bytes(bs_) + frame[o + len(bs_):]
    for o, n in texts[:max(1, per_kind + 1)]:
        k = rng.randrange(n)
        out.append(('text-ff', put(o + k, [0xFF])))
        out.append(('text-fe', put(o + rng.randrange(n), [0xFE])))
        out.append(('text-stray-continuation', put(o + rng.randrange(n), [0x80])))
        out.append(('text-truncated-lead', put(o + n - 1, [rng.choice([0xC3, 0xE2, 0xF0])])))
        out.append(('text-latin1', put(o + rng.randrange(n), [0xE9]) if n == 1 or True else None))
        if n >= 2:
            out.append(('text-overlong', put(o + rng.randrange(n - 1), [0xC0, 0xAF])))
        if n >= 3:
            out.append(('text-surrogate', put(o + rng.randrange(n - 2), [0xED, 0xA0, 0x80])))
    bools = [(o, n) for o, t, n in lv if t == 6]
    for o, n in bools[:per_kind]:
        out.append(('boolean-2', put(o + 7, [2])))
        out.append(('boolean-high-byte', put(o, [1])))
    padded = [(o, t, n) for o, t, n in lv if n % 8]
    rng.shuffle(padded)
    for o, t, n in padded[:per_kind + 1]:
        pad = (-n) % 8
        out.append(('padding-type%d' % t, put(o + n + rng.randrange(pad), [rng.choice([1, 0x20, 0xFF])])))
    return out


def corrupt_value_cases(ctx, quick):
    rng = ctx.subrng('valuebytes')
    cases, meta = [], []
    for op in D.OPS:
        for version in D.VERSIONS:
            if op.min_version is not None and version < op.min_version:
                continue
            for label in ('success', 'failure'):
                for attempt in range(8):
                    kwargs = op.args(rng, version)
                    if label == 'success':
                        items = [Item(RS.SUCCESS, payload=op.payload(rng, version))]
                    else:
                        items = [Item(RS.OPERATION_FAILED, rng.choice(list(RR)), D.gen_text(rng, 3, 24))]
                    base, resp, sock = scripted_call(op, version, kwargs, items=items)
                    if sock.sent and resp.request is not None:
                        break
                else:
                    continue
                frame = resp.response_bytes
                ok, why = strictly_decodable(frame)
                if not ok:
                    raise D.HarnessError('the uncorrupted scripted response is not strictly decodable: ' + why)
                for clabel, bad in value_corruptions(frame, rng, 1 if quick else 3) + tail_corruptions(frame, rng):
                    if bad == frame:
                        continue
                    ok, why = strictly_decodable(bad)
                    out, _, _ = scripted_call(op, version, kwargs, raw=bad)
                    ctx.count('valuebytes.%s.%s.%s' % (clabel, 'decodable' if ok else 'undecodable',
                                                      out[0] if out[0] != 'other' else 'raises'))
                    ctx.case_seen(('valuebytes', op.name, version.name, label, clabel, bad), nontrivial=True)
                    if ok:
                        continue            # the corruption happened to produce another well-formed response
                    w = {'client': 'ProxyKmipClient', 'method': op.name, 'kmip_version': version.name, 'corruption': clabel,
                         'why_undecodable': why, 'response_hex': bad.hex(), 'uncorrupted_response_hex': frame.hex(),
                         'observed': D.outcome_plain(out)}
                    tolerated = None
                    if out[0] == 'return' and 'type 6 must have length' in why and D.outcome_coq(out) == D.outcome_coq(base):
                        tolerated = 'boolean-length-field-ignored'      # Boolean.read does not look at its length; data intact
                    elif out[0] == 'return' and '-length-' in clabel and clabel.startswith('type8'):
                        # the final Byte String announces FEWER bytes, its former tail is left over inside the payload structure
                        # and the payload reader does not look for left-over bytes (no is_oversized): the shorter value the
                        # message now announces is returned.  Unchanged-tree leniency of the codec, counted, not demanded.
                        tolerated = 'left-over-bytes-in-payload-structure-ignored'
                    if tolerated:
                        ctx.count('valuebytes.tolerated.%s' % tolerated)
                        continue
                    if out[0] != 'other':
                        ctx.violation({'client': 'pie', 'op': op.name, 'response': 'undecodable-value-bytes', 'corruption': clabel,
                                       'what': 'returned-data' if out[0] == 'return' else 'operation-failure-from-undecodable'}, w,
                                      '%s %s although the response cannot be decoded (%s: %s)' % (
                                          op.name, 'returned data' if out[0] == 'return' else 'raised an operation failure', clabel, why))
                    cases.append('(CPie %s Undecodable %s)' % (op.model, D.outcome_coq(out)))
                    meta.append((op.name, version.name, label, clabel, D.outcome_plain(out), bad.hex()))
    return cases, meta


# ---------------------------------------------------------------------- optional header / batch item fields
def optional_field_menu(version, rng):
    """(supported-on-this-tree fields, legal-but-known-unsupported fields) a server may add under `version`, each as
    (name, kind, encoder).  Specification: Response Header tables of KMIP 1.2 / 1.4 / 2.0, Batch Item table."""
    T = enums.Tags
    sup, unsup = [], []
    if version >= KV.KMIP_1_4:
        sup.append(('server-correlation-value', 'header', lambda: {T.SERVER_CORRELATION_VALUE: [D.t_text(T.SERVER_CORRELATION_VALUE, 'srv-' + D.gen_text(rng, 1, 12))]}))
    if version >= KV.KMIP_2_0:
        sup.append(('server-hashed-password', 'header', lambda: {T.SERVER_HASHED_PASSWORD: [D.t_bytes(T.SERVER_HASHED_PASSWORD, D.gen_bytes(rng, 32, 32))]}))
    sup.append(('time-stamp-variant', 'time', lambda: rng.choice([0, 1, 2 ** 31 + 5, 4102444800])))
    sup.append(('unique-batch-item-id', 'before_status', lambda: D.t_bytes(T.UNIQUE_BATCH_ITEM_ID, D.gen_bytes(rng, 1, 8))))
    sup.append(('empty-message-extension', 'after_payload', lambda: D.t_struct(T.MESSAGE_EXTENSION)))
    if version >= KV.KMIP_1_2:
        unsup.append(('nonce', 'header', lambda: {T.NONCE: [D.t_struct(T.NONCE, D.t_bytes(T.NONCE_ID, D.gen_bytes(rng, 1, 8)),
                                                                     D.t_bytes(T.NONCE_VALUE, D.gen_bytes(rng, 8, 16)))]}))
        unsup.append(('attestation-type', 'header', lambda: {T.ATTESTATION_TYPE: [D.t_enum(T.ATTESTATION_TYPE, k) for k in
                                                                                  rng.sample([1, 2, 3], rng.randint(1, 3))]}))
    unsup.append(('message-extension', 'after_payload', lambda: D.t_struct(
        T.MESSAGE_EXTENSION, D.t_text(T.VENDOR_IDENTIFICATION, 'Acme'), D.t_bool(T.CRITICALITY_INDICATOR, False),
        D.t_struct(T.VENDOR_EXTENSION, D.t_text(T.VENDOR_IDENTIFICATION, D.gen_text(rng, 1, 8))))))
    return sup, unsup


def apply_fields(frame, chosen):
    hdr, ts, kw = {}, None, {}
    for name, kind, enc in chosen:
        v = enc()
        if kind == 'header':
            hdr.update(v)
        elif kind == 'time':
            ts = v
        else:
            kw[kind] = kw.get(kind, b'') + v
    out = frame
    if hdr or ts is not None:
        out = D.with_header_fields(out, hdr, time_stamp=ts)
    if kw:
        out = D.with_batch_item_fields(out, **kw)
    return out


def optional_field_cases(ctx, quick):
    """Every legal answer must be reported exactly like its minimal-header twin, whatever optional Response Header and
    Batch Item fields the server adds (all present/absent combinations of the fields this tree decodes; the fields the
    specification allows but this tree cannot decode are known findings)."""
    import itertools
    rng = ctx.subrng('optfields')
    cases, meta = [], []
    for op in D.OPS:
        for version in D.VERSIONS:
            if op.min_version is not None and version < op.min_version:
                continue
            answers = [('success', lambda: [Item(RS.SUCCESS, payload=op.payload(rng, version))]),
                       ('failure', lambda: [Item(RS.OPERATION_FAILED, rng.choice(list(RR)), D.gen_text(rng, 1, 20))]),
                       ('request-failure', lambda: [Item(RS.OPERATION_FAILED, RR.AUTHENTICATION_NOT_SUCCESSFUL, D.gen_text(rng, 1, 20), op=None)])]
            for label, mk in answers:
                for attempt in range(8):
                    kwargs = op.args(rng, version)
                    items = mk()
                    base, resp, sock = scripted_call(op, version, kwargs, items=items)
                    if sock.sent and resp.request is not None:
                        break
                else:
                    continue
                frame = resp.response_bytes
                abstract = abstract_items(version, resp, items, False)
                sup, unsup = optional_field_menu(version, rng)
                combos = [c for r in range(1, len(sup) + 1) for c in itertools.combinations(sup, r)]
                if quick and len(combos) > 12:
                    combos = [c for c in combos if len(c) in (1, len(sup))] + rng.sample([c for c in combos if 1 < len(c) < len(sup)], 6)
                todo = [(c, None) for c in combos] + [((u,), u[0]) for u in unsup]
                for u in unsup[:1]:     # an unsupported field together with all supported ones (at most one Message Extension)
                    todo.append((tuple(x for x in sup if not (u[0] == 'message-extension' and x[0] == 'empty-message-extension')) + (u,), u[0]))
                for chosen, unsupported in todo:
                    names = '+'.join(n for n, _, _ in chosen)
                    bad = apply_fields(frame, chosen)
                    sok, swhy = strictly_decodable(bad)
                    if not sok:
                        raise D.HarnessError('harness built a malformed variant (%s): %s' % (names, swhy))
                    out, _, _ = scripted_call(op, version, kwargs, raw=bad)
                    same = D.outcome_coq(out) == D.outcome_coq(base)
                    ctx.count('optfields.%s.%s' % (names if unsupported else 'n=%d' % len(chosen), 'same-as-twin' if same else
                                                   'differs:' + (out[1] if out[0] == 'other' else out[0])))
                    ctx.case_seen(('optfields', op.name, version.name, label, names, bad), nontrivial=True)
                    if not same:
                        w = {'client': 'ProxyKmipClient', 'method': op.name, 'kmip_version': version.name, 'answer': label,
                             'added_fields': names, 'response_hex': bad.hex(), 'minimal_twin_hex': frame.hex(),
                             'observed': D.outcome_plain(out), 'minimal_twin_outcome': D.outcome_plain(base)}
                        if unsupported:
                            sig = {'client': 'pie', 'response': 'optional-field', 'field': unsupported, 'exc': out[1] if out[0] == 'other' else out[0]}
                        else:
                            sig = {'client': 'pie', 'op': op.name, 'response': 'optional-field', 'field': names, 'what': 'differs-from-minimal-twin'}
                        ctx.violation(sig, w, '%s (%s): a legal %s answer carrying %s is not reported like the same answer without it' % (
                            op.name, version.name, label, names))
                    decoded = D.decode_response(version, bad) is not None
                    cases.append('(CPie %s %s %s)' % (op.model, D.resp_coq(abstract if decoded else None), D.outcome_coq(out)))
                    meta.append((op.name, version.name, label, names, D.outcome_plain(out)))
    return cases, meta


# ---------------------------------------------------------------------- the client as a context manager
def with_block_cases(ctx, quick):
    """Every method inside `with ProxyKmipClient(...) as client:` (real open()/close()/__enter__/__exit__; only the TLS
    wrapping of the socket is replaced).  The expectation is evaluated OUTSIDE the block: what arrives there must be exactly
    what the same call does without the block - in particular an exception raised inside must propagate unchanged."""
    rng = ctx.subrng('withblock')
    cases, meta = [], []
    for op in D.OPS:
        for version in D.VERSIONS:
            if op.min_version is not None and version < op.min_version:
                continue
            for attempt in range(8):
                kwargs = op.args(rng, version)
                _, _, probe = scripted_call(op, version, kwargs, items=[Item(RS.OPERATION_FAILED, RR.GENERAL_FAILURE, 'probe')])
                if probe.sent:
                    break
            answers = [('success', dict(items=[Item(RS.SUCCESS, payload=op.payload(rng, version))])),
                       ('failure', dict(items=[Item(RS.OPERATION_FAILED, rng.choice(list(RR)), D.gen_text(rng, 1, 20))])),
                       ('request-failure', dict(items=[Item(RS.OPERATION_FAILED, RR.AUTHENTICATION_NOT_SUCCESSFUL, D.gen_text(rng, 1, 20), op=None, hv=(1, 0))])),
                       ('undecodable', dict(items=[Item(RS.SUCCESS, payload=op.payload(rng, version))], mangle=mangles(rng)[0][1])),
                       ('truncated', None)]
            for label, spec in answers:
                if spec is None:
                    frame = D.build_response(version, op.code, [Item(RS.SUCCESS, payload=op.payload(rng, version))])
                    spec = dict(raw=frame, plan=('truncate', rng.randrange(1, len(frame))))
                direct, resp, sock0 = scripted_call(op, version, kwargs, **spec)
                if not sock0.sent:
                    continue
                frame = resp.response_bytes
                plan = spec.get('plan', ('whole',))
                sock = D.ChunkSock(D.Scripted(version, raw=frame, plan=plan))
                out, notes = D.run_call_in_with_block(version, sock, lambda c: D.call_pie(c, op, kwargs))
                same = D.outcome_coq(out) == D.outcome_coq(direct)
                ctx.count('withblock.%s.%s' % (label, 'same-as-direct-call' if same and not notes else 'DIFFERS'))
                ctx.case_seen(('with', op.name, version.name, label, frame), nontrivial=True)
                if notes or not same:
                    w = {'client': 'ProxyKmipClient', 'method': op.name, 'arguments': repr(kwargs)[:400], 'kmip_version': version.name,
                         'usage': 'with ProxyKmipClient(...) as client: client.%s(...)' % op.name, 'answer': label,
                         'response_hex': frame.hex(), 'chunking': repr(plan), 'outside_the_with_block': D.outcome_plain(out),
                         'same_call_without_with': D.outcome_plain(direct), 'context_manager': notes}
                    ctx.violation({'client': 'pie', 'op': op.name, 'what': 'with-block-changes-outcome', 'answer': label,
                                   'how': (notes[0].split(':')[0] if notes else 'differs')}, w,
                                  'with ProxyKmipClient(...) as client: client.%s(...) - %s' % (
                                      op.name, notes[0] if notes else 'the outcome outside the block differs from the direct call'))
                if label in ('truncated',):
                    abstract = 'trunc'
                m = D.decode_response(version, frame) if label != 'truncated' else None
                abstract = [D.ritem_of_batch_item(bi) for bi in m.batch_items] if m is not None else None
                cases.append('(CPie %s %s %s)' % (op.model, D.resp_coq(abstract), D.outcome_coq(out)))
                meta.append((op.name, version.name, label, D.outcome_plain(out), notes))
    # the context-manager protocol itself: return values must not alter control flow
    for version in D.VERSIONS:
        sock = D.ChunkSock(None)
        cl = D.make_closed_client(version, sock)
        r_open = cl.open()
        ent = cl.__enter__() if False else None
        exc = ValueError('x')
        r_exit = cl.__exit__(ValueError, exc, None)
        facts = {'open() returned': repr(r_open), '__exit__(exc...) returned': repr(r_exit), 'open after __exit__': cl._is_open}
        ctx.count('withblock.protocol.%s' % ('ok' if not r_exit and not cl._is_open else 'ANOMALY'))
        if r_exit:
            ctx.violation({'client': 'pie', 'what': 'with-block-changes-outcome', 'how': '__exit__ returns a true value'},
                          {'kmip_version': version.name, 'facts': facts},
                          'ProxyKmipClient.__exit__ returned %r for a pending exception: the with statement would discard it' % (r_exit,))
    px = D.make_closed_client(D.VERSIONS[2], D.ChunkSock(None)).proxy
    ctx.count('withblock.KMIPProxy.context-manager.%s' % ('supported' if hasattr(px, '__enter__') and hasattr(px, '__exit__') else 'not-supported'))
    if hasattr(px, '__enter__') and hasattr(px, '__exit__'):
        try:
            r = type(px).__exit__(px, ValueError, ValueError('x'), None)
        except Exception:
            r = None
        if r:
            ctx.violation({'client': 'proxy', 'what': 'with-block-changes-outcome', 'how': '__exit__ returns a true value'}, {'returned': repr(r)},
                          'KMIPProxy.__exit__ returned a true value for a pending exception')
    return cases, meta


# ---------------------------------------------------------------------- request envelope
class _KVer(dict):
    def __missing__(self, version):        # built on first use: nothing at import time depends on the code under test
        return 'Request.V' + version.name[5:].replace('_', '')


KVER = _KVer()


def payload_body(req):
    """The bytes inside the Request Payload structure of a one-item request (independent TTLV walk)."""
    def item(b, off):
        tag = int.from_bytes(b[off:off + 3], 'big')
        ln = int.from_bytes(b[off + 4:off + 8], 'big')
        return tag, b[off + 3], ln, off + 8
    tag, ty, ln, o = item(req, 0)                   # request message
    tag, ty, hl, o2 = item(req, o)                  # request header
    o = o2 + hl
    tag, ty, bl, o = item(req, o)                   # batch item
    end = o + bl
    while o < end:
        tag, ty, ln, o2 = item(req, o)
        if tag == 0x420079:
            return req[o2:o2 + ln]
        o = o2 + ln + (-ln % 8)
    return None


def request_cases(ctx, quick):
    rng = ctx.subrng('requests')
    cases, meta = [], []
    for op in D.OPS:
        for version in D.VERSIONS:
            if op.min_version is not None and version < op.min_version:
                continue
            for attempt in range(6):
                kwargs = op.args(rng, version)
                out, resp, sock = scripted_call(op, version, kwargs, items=[Item(RS.OPERATION_FAILED, RR.GENERAL_FAILURE, 'x')])
                if sock.sent:
                    break
            else:
                continue
            req = sock.sent[0]
            body = payload_body(req)
            if body is None:
                ctx.violation({'client': 'pie', 'op': op.name, 'what': 'request-without-payload', 'version': version.name},
                              {'method': op.name, 'request_hex': req.hex()}, '%s emitted a request without a request payload' % op.name)
                continue
            cases.append('(CReq %s %s %s %s)' % (KVER[version], D.cp.z(op.code.value), D.cp.byts(body), D.cp.byts(req)))
            meta.append((op.name, version.name, req.hex()))
            ctx.count('request.envelope.%s' % version.name)
            ctx.case_seen(('req', op.name, version.name, req), nontrivial=True)
    return cases, meta


def load_own_findings(ctx):
    """known_findings.json is merged by bin/mkmanifest; until then (and afterwards, harmlessly) read findings.d/C19.json too."""
    import json
    from pathlib import Path
    p = Path(__file__).resolve().parents[1] / 'findings.d' / 'C19.json'
    have = {f.get('id') for f in ctx.findings}
    if p.exists():
        for f in json.loads(p.read_text()):
            if f.get('property') == 'C19' and f.get('id') not in have:
                ctx.findings.append(f)


def compare(ctx, name, cases, meta, shard=300, what=None, show=600):
    if not cases:
        ctx.broken.append({'kind': 'correspondence', 'name': name, 'detail': 'the stream produced no case at all', 'candidates': []})
        return
    bad = ctx.run_cases(name, HEADER, cases, 'check_ccase', shard=shard, what=what)
    for i in bad[:20]:
        m = meta[i] if meta is not None else None
        ctx.log('%s disagreement' % name, repr(m)[:300], cases[i][:show])
        ctx.disagreement(name, {'case': m, 'coq': cases[i][:show]})


def s_pie(ctx, quick):
    cases, meta = pie_cases(ctx, quick)
    compare(ctx, 'pie', cases, meta, what='Client.interpret vs ProxyKmipClient methods on scripted responses', show=700)
    ctx.sample({'pie_case': cases[0][:600]})


def s_framing(ctx, quick):
    cases, meta = framing_cases(ctx, quick)
    compare(ctx, 'framing', cases, meta, shard=150, what='Framing.read vs KMIPProtocol.read on chunked transports')
    ctx.sample({'framing_case': cases[len(cases) // 2][:400]})


def s_calls(ctx, quick):
    cases, meta = chunked_cases(ctx, quick)
    compare(ctx, 'calls', cases, meta, shard=60, show=300,
            what='EndToEnd.client_call vs ProxyKmipClient methods with the response split / cut by the transport')


def s_proxy(ctx, quick):
    cases, meta = proxy_cases(ctx, quick)
    compare(ctx, 'proxy', cases, meta, what='Client.proxy_call vs KMIPProxy methods on scripted responses', show=700)
    ctx.sample({'proxy_case': cases[0][:600]})


def s_valuebytes(ctx, quick):
    cases, meta = corrupt_value_cases(ctx, quick)
    compare(ctx, 'valuebytes', cases, meta, shard=1000,
            what='interpret o Undecodable = RaiseOther vs ProxyKmipClient on responses whose structure is intact but whose value bytes '
                 'are not decodable (invalid UTF-8, Boolean not 0/1, non-zero padding), judged by an independent strict parser')


def s_optfields(ctx, quick):
    cases, meta = optional_field_cases(ctx, quick)
    compare(ctx, 'optfields', cases, meta,
            what='Client.interpret vs ProxyKmipClient on legal answers carrying optional Response Header / Batch Item fields')


def s_withblock(ctx, quick):
    cases, meta = with_block_cases(ctx, quick)
    compare(ctx, 'withblock', cases, meta,
            what='Client.interpret vs what arrives OUTSIDE `with ProxyKmipClient(...) as client: client.<method>(...)`')


def s_requests(ctx, quick):
    cases, meta = request_cases(ctx, quick)
    compare(ctx, 'requests', cases, [m[:2] for m in meta], shard=40,
            what='Request.enc_request / dec_request vs the bytes ProxyKmipClient emits (envelope; payload body opaque)')


def s_argmenus(ctx, quick):
    cases, meta, rcases = argument_menu_cases(ctx, quick)
    compare(ctx, 'argmenus', cases, meta,
            what='every method with every optional argument present / each alone / none, under each version, against the real '
                 'KmipSession + KmipEngine: the server decodes the request and the decoded fields equal the arguments')
    compare(ctx, 'argmenureq', rcases, None, shard=40, show=200,
            what='Request.enc_request vs the bytes emitted for the argument menus')


def s_server(ctx, quick):
    cases, meta = server_cases(ctx, quick)
    compare(ctx, 'server', cases, meta, show=700,
            what='Client.interpret vs ProxyKmipClient methods against the real KmipSession + KmipEngine')
    ctx.sample({'server_case': cases[0][:600]})


def s_switch(ctx, quick):
    cases, meta, rcases = switch_cases(ctx, quick)
    compare(ctx, 'switch', cases, meta, show=500,
            what='Client.interpret vs ProxyKmipClient on ONE client object whose kmip_version is reassigned between calls '
                 '(all ordered pairs of versions; real KmipSession + KmipEngine)')
    compare(ctx, 'switchreq', rcases, None, shard=40, show=300,
            what='Request.enc_request under the CURRENT version vs the bytes emitted after a version switch')


# ---------------------------------------------------------------------- attribute names <-> tags under KMIP 2.0 (round 8, C19O)
def _norm_attr_name(n):
    import re
    return re.sub(r'[^A-Z0-9]+', '_', n.replace('#', '').upper()).strip('_')


def s_attrnames(ctx, quick):
    """KMIP 2.0 carries attributes by TAG, the client API speaks NAMES.  The expected pairing is built independently of the
    library's attribute_name_tag_table: the names are that table's first column, the tag of a name is the member of the Tags
    enumeration spelled like the name (the specification's naming; the member VALUES are the specification's tag numbers).
    For every pair: a hand-encoded (clientdrv.ttlv) GetAttributeList response carrying the tag must be reported under the
    name, and get_attributes(uid, [name]) must emit an Attribute Reference carrying the tag."""
    import struct
    import ttlvparse
    from kmip.core import enums as E
    T = E.Tags
    V20 = E.KMIPVersion.KMIP_2_0
    by_member = {t.name: t for t in T}
    names = [row[0] for row in E.attribute_name_tag_table]
    pairs = [(n, by_member[_norm_attr_name(n)]) for n in names if _norm_attr_name(n) in by_member]
    unpaired = [n for n in names if _norm_attr_name(n) not in by_member]
    if unpaired or len(set(t for _, t in pairs)) != len(pairs):
        ctx.broken.append({'kind': 'correspondence', 'name': 'harness/c19.py:attrnames',
                           'detail': 'attribute names without a Tags member of the same spelling, or two names for one tag: %r' % unpaired,
                           'candidates': []})

    def i_(tag, v):
        return D.ttlv(tag.value, 2, struct.pack('!i', v))

    def e_(tag, v):
        return D.ttlv(tag.value, 5, struct.pack('!I', v))

    def response(op, items):
        return D.t_struct(T.RESPONSE_MESSAGE,
                          D.t_struct(T.RESPONSE_HEADER,
                                     D.t_struct(T.PROTOCOL_VERSION, i_(T.PROTOCOL_VERSION_MAJOR, 2), i_(T.PROTOCOL_VERSION_MINOR, 0)),
                                     D.ttlv(T.TIME_STAMP.value, 9, struct.pack('!q', 1700000000)),
                                     i_(T.BATCH_COUNT, 1)),
                          D.t_struct(T.BATCH_ITEM, e_(T.OPERATION, op.value), e_(T.RESULT_STATUS, 0),
                                     D.t_struct(T.RESPONSE_PAYLOAD, *items)))

    n_resp = n_req = 0
    for name, tag in pairs:
        other = pairs[(pairs.index((name, tag)) + 1) % len(pairs)]
        frame = response(OP.GET_ATTRIBUTE_LIST, [D.t_text(T.UNIQUE_IDENTIFIER, '1'),
                                                 e_(T.ATTRIBUTE_REFERENCE, tag.value), e_(T.ATTRIBUTE_REFERENCE, other[1].value)])
        sock = D.ChunkSock(lambda data, frame=frame: [frame[:11], frame[11:]])
        cl = D.make_client(V20, sock)
        out = D.run_call(lambda: cl.get_attribute_list('1'))
        n_resp += 1
        want = sorted([name, other[0]])
        if out[0] != 'return' or sorted(out[1]) != want:
            ctx.violation({'client': 'pie', 'op': 'get_attribute_list', 'what': 'attribute-name-misreported', 'attribute': name},
                          {'method': 'get_attribute_list', 'kmip_version': 'KMIP_2_0', 'response_hex': frame.hex(),
                           'chunks': [11, len(frame) - 11], 'expected': want, 'got': repr(out)[:300]},
                          'KMIP 2.0 GetAttributeList response carrying tags %s (0x%06X) and %s: the client reports %s instead of %s'
                          % (tag.name, tag.value, other[1].name, repr(out[1] if out[0] == 'return' else out)[:200], want))
        # request side: the reference the client emits for the name
        ok = response(OP.GET_ATTRIBUTES, [D.t_text(T.UNIQUE_IDENTIFIER, '1')])
        sock = D.ChunkSock(lambda data, ok=ok: [ok])
        cl = D.make_client(V20, sock)
        D.run_call(lambda: cl.get_attributes('1', [name]))
        n_req += 1
        refs = []
        if sock.sent:
            def walk(it):
                if it['type'] == 1:
                    for ch in it['value']:
                        walk(ch)
                elif it['tag'] == T.ATTRIBUTE_REFERENCE.value:
                    refs.append(it['value'])
            try:
                walk(ttlvparse.parse(sock.sent[0])[0])
            except Exception:
                refs = []
        got = refs[0] if refs else None
        if got != tag.value:
            ctx.violation({'client': 'pie', 'op': 'get_attributes', 'what': 'attribute-reference-misencoded', 'attribute': name},
                          {'method': 'get_attributes', 'kmip_version': 'KMIP_2_0', 'arguments': repr(['1', [name]]),
                           'request_hex': sock.sent[0].hex() if sock.sent else None, 'expected_tag': tag.value, 'got': got},
                          'get_attributes(uid, [%r]) under KMIP 2.0 emits Attribute Reference %r instead of tag %s (0x%06X)'
                          % (name, got, tag.name, tag.value))
    ctx.cov['attrnames'] = {'pairs': len(pairs), 'responses': n_resp, 'requests': n_req}
    ctx.log('attribute names under KMIP 2.0: %d name/tag pairs, %d hand-encoded GetAttributeList responses, %d GetAttributes requests parsed independently'
            % (len(pairs), n_resp, n_req))


STREAMS = [('pie', s_pie), ('framing', s_framing), ('calls', s_calls), ('proxy', s_proxy), ('valuebytes', s_valuebytes),
           ('optfields', s_optfields), ('withblock', s_withblock), ('requests', s_requests), ('argmenus', s_argmenus), ('server', s_server), ('switch', s_switch), ('attrnames', s_attrnames)]


def guarded(ctx, name, fn, *a):
    """Run one part of the check; whatever it raises (HarnessError is a BaseException on purpose) becomes a broken
    correspondence, so that the run always ends in the framework's report and the other streams still run."""
    try:
        return fn(ctx, *a)
    except (KeyboardInterrupt, SystemExit):
        raise
    except BaseException as e:      # noqa
        tb = traceback.format_exc()
        ctx.log('stream %s raised %s: %s' % (name, type(e).__name__, str(e)[:300]))
        ctx.broken.append({'kind': 'correspondence', 'name': 'harness/c19.py:' + name,
                           'detail': 'the stream raised instead of producing cases:\n' + tb[-2500:], 'candidates': []})
        return None


def run(ctx):
    global _CTX
    _CTX = ctx
    load_own_findings(ctx)
    ctx.cov['rule'] = ('scripted responder: every ProxyKmipClient method x KMIP 1.0-2.0 x response shapes (success with generated '
                       'payload incl. falsy-but-present values, every ResultReason in rotation, message present/absent/empty, '
                       'operation echoed/absent/wrong, pending/undone, 0/2 items, corrupted bytes, optional header fields) x '
                       'chunkings; argument menus (all optionals / each alone / none) against the real server; a case is distinct '
                       'by (method, version, shape, abstract response, outcome)')
    quick = ctx.tier == 'quick'
    ctx.cov['trusted_extra'] = [
        'harness projections clientdrv.to_val / obj_attrs / secret_val (Python attribute reads -> model values); the scripted '
        'responder (responses written by the real encoder, requests decoded by the real server-side classes); the real '
        'ResponseMessage decoder classifies corrupted bytes as decodable / undecodable; harness/ttlvparse.py + strict UTF-8 as the '
        'independent notion of decodable; clientdrv.ttlv as independent TTLV writer for optional header fields',
        'modelled, not verified: TLS and socket behaviour (transport = list of non-empty chunks, end of list = EOF); response '
        'decoding (parameter `decode`; C01); ObjectFactory.convert (C05; compared through a canonical projection); request '
        'payload codecs (hypothesis of requests_decodable_partial, discharged by the server-stack correspondence)']
    if IMPORT_ERROR is not None:
        ctx.log('importing the code under test / the driver failed')
        ctx.broken.append({'kind': 'correspondence', 'name': 'harness/c19.py:import',
                           'detail': 'import failed:\n' + IMPORT_ERROR[-2500:], 'candidates': []})
        return
    guarded(ctx, 'regen', lambda c: c.regen(only=['enums']))
    guarded(ctx, 'prove', lambda c: c.prove('props/C19.v'))
    for name, fn in STREAMS:
        guarded(ctx, name, fn, quick)


# ---------------------------------------------------------------------- replay
def structurally_legal(op, abstract):
    if abstract is None or len(abstract) != 1:
        return False
    it = abstract[0]
    if it['status'] == 0:
        return it['op'] == op.code.value and it['payload'] is not None
    return it['status'] == 1 and it['reason'] is not None and it['payload'] is None and it['op'] in (None, op.code.value)


def replay(ctx, rp):
    """Re-evaluate a recorded violation: response-side inputs are replayed exactly (response bytes + chunking on the named
    method and version); everything else by re-running the deterministic check with the recorded seed and tier."""
    import ast
    load_own_findings(ctx)
    inp = rp.get('input') or {}
    if 'chunks' in inp and 'method' not in inp:
        chunks = [bytes.fromhex(c) for c in inp['chunks']]
        obs, sock = read_observe(chunks)
        ctx.log('KMIPProtocol.read on the recorded chunks ->', repr(obs)[:200])
        data = b''.join(chunks)
        flen = 8 + int.from_bytes(data[4:8], 'big') if len(data) >= 8 else None
        if obs[0] == 'ok' and (flen is None or len(data) < flen):
            ctx.violation({'client': 'protocol', 'what': 'truncated-stream-delivered'}, inp, rp.get('what', ''))
        if flen is not None and len(data) >= flen and (obs[0] != 'ok' or obs[1] != data[:flen]):
            ctx.violation({'client': 'protocol', 'what': 'frame-not-delivered-intact'}, inp, rp.get('what', ''))
        return ctx.finish()
    if 'response_hex' in inp and inp.get('method') in D.OPS_BY_NAME and 'request_hex' not in inp:
        op = D.OPS_BY_NAME[inp['method']]
        version = KV[inp['kmip_version']]
        frame = bytes.fromhex(inp['response_hex'])
        plan = ast.literal_eval(inp['chunking']) if 'chunking' in inp else ('whole',)
        rng = random.Random(rp.get('seed', 0))
        for attempt in range(12):
            kwargs = op.args(rng, version)
            out, resp, sock = scripted_call(op, version, kwargs, raw=frame, plan=plan)
            if sock.sent:
                break
        m = D.decode_response(version, frame)
        abstract = [D.ritem_of_batch_item(bi) for bi in m.batch_items] if m is not None else None
        sok, swhy = strictly_decodable(frame)
        if not sok:
            ctx.log('the recorded response is not decodable by the independent strict parser:', swhy)
            if out[0] != 'other':
                ctx.violation({'client': 'pie', 'op': op.name, 'response': 'undecodable-value-bytes',
                               'what': 'returned-data' if out[0] == 'return' else 'operation-failure-from-undecodable'}, dict(inp),
                              rp.get('what', 'the client did not raise for an undecodable response'))
            return ctx.finish()
        exp = None
        legal = structurally_legal(op, abstract)
        if legal and abstract[0]['status'] == 0:
            exp = D.to_val(op.expect(m.batch_items[0].response_payload))
        label = (rp.get('signature') or {}).get('response', 'replayed')
        ctx.log('%s under %s with the recorded response (%r) ->' % (op.name, version.name, plan), D.outcome_plain(out))
        oracle(ctx, op, version, label, legal, abstract, exp, out, truncated=(plan[0] == 'truncate'), witness=dict(inp))
        return ctx.finish()
    ctx.seed = rp.get('seed', ctx.seed)
    ctx.tier = rp.get('tier', ctx.tier)
    run(ctx)
    return ctx.finish()
