"""C19 - the client reports exactly what the server answered.

regenerate (enum tables) -> prove (props/C19.v) -> correspondence K(b): scripted responder x every client method x
response shapes x chunkings, Coq compares with Client.interpret / proxy_call / Framing.read -> correspondence K(a):
every method x argument menu x versions against the real server stack -> direct oracle on every case.
"""
import random
import traceback

from kmip.core import enums, utils
from kmip.core.messages import messages
from kmip.services.kmip_protocol import KMIPProtocol, RequestLengthMismatch

import clientdrv as D
from clientdrv import Item, RS, RR, KV, OP

HEADER = ('From PK Require Import Client.ClientCases.\nFrom Coq Require Import List ZArith.\n'
          'Import ListNotations.\nOpen Scope Z_scope.\n')

RESULT_OBJECT_OPS = {'create', 'create_key_pair', 'register', 'locate', 'get', 'get_attributes', 'get_attribute_list',
                     'activate', 'revoke', 'destroy', 'mac'}
PAYLOAD_OPS = {'delete_attribute', 'set_attribute', 'modify_attribute'}
DICT_OPS = {'rekey', 'derive_key', 'check', 'encrypt', 'decrypt', 'signature_verify', 'sign'}


def path_of(name):
    return 'result-object' if name in RESULT_OBJECT_OPS else 'send_request_payload' if name in PAYLOAD_OPS else 'dict'


# ---------------------------------------------------------------------- response shapes
def shapes_for(op, version, rng, reasons, quick):
    """[(label, legal?, [Item...])].  `legal` = a server may send this to a one-item request of this client."""
    msg = D.gen_text(rng, 1, 30)
    out = []
    out.append(('success', True, [Item(RS.SUCCESS, payload=op.payload(rng, version))]))
    for r in reasons:
        out.append(('failure', True, [Item(RS.OPERATION_FAILED, r, D.gen_text(rng, 0, 40))]))
    r0 = rng.choice(list(RR))
    out.append(('failure-without-message', True, [Item(RS.OPERATION_FAILED, r0, None)]))
    out.append(('failure-empty-message', True, [Item(RS.OPERATION_FAILED, r0, '')]))
    out.append(('request-failure', True, [Item(RS.OPERATION_FAILED, rng.choice([RR.INVALID_MESSAGE, RR.AUTHENTICATION_NOT_SUCCESSFUL,
                                                                               RR.RESPONSE_TOO_LARGE, RR.GENERAL_FAILURE]), msg, op=None)]))
    out.append(('request-failure-without-message', True, [Item(RS.OPERATION_FAILED, RR.INVALID_MESSAGE, None, op=None)]))
    # decodable but not legal answers to this client: the model must still agree, the oracle only forbids "success"
    out.append(('pending', False, [Item(RS.OPERATION_PENDING, r0, msg)]))
    out.append(('undone', False, [Item(RS.OPERATION_UNDONE, r0, msg)]))
    out.append(('failure-without-reason', False, [Item(RS.OPERATION_FAILED, None, msg)]))
    out.append(('pending-bare', False, [Item(RS.OPERATION_PENDING, None, None)]))
    out.append(('success-without-payload', False, [Item(RS.SUCCESS)]))
    out.append(('success-without-operation', False, [Item(RS.SUCCESS, op=None)]))
    others = [o for o in (OP.GET_ATTRIBUTE_LIST, OP.CREATE_KEY_PAIR, OP.GET_ATTRIBUTES, OP.QUERY, OP.DISCOVER_VERSIONS,
                          OP.DESTROY, OP.ENCRYPT, OP.REKEY_KEY_PAIR) if o != op.code]
    wo = rng.choice(others)
    out.append(('wrong-operation-failure', False, [Item(RS.OPERATION_FAILED, r0, msg, op=wo)]))
    out.append(('wrong-operation-success', False, [Item(RS.SUCCESS, op=rng.choice(others))]))
    out.append(('no-items', False, []))
    out.append(('two-items-fail-first', False, [Item(RS.OPERATION_FAILED, r0, msg), Item(RS.SUCCESS, payload=op.payload(rng, version))]))
    out.append(('two-items-success-first', False, [Item(RS.SUCCESS, payload=op.payload(rng, version)), Item(RS.OPERATION_FAILED, r0, msg)]))
    out.append(('failure-with-payload', False, [Item(RS.OPERATION_FAILED, r0, msg, payload=op.payload(rng, version))]))
    return out


def mangles(rng):
    def set_byte(i, b):
        return lambda d: d[:i] + bytes([b]) + d[i + 1:] if len(d) > i else d

    def random_body(d):
        return d[:8] + bytes(rng.randrange(256) for _ in range(len(d) - 8))

    def cut_fix(d):
        k = rng.randrange(8, max(9, len(d) - 1))
        k -= k % 8
        body = d[8:max(8, k)]
        return d[:4] + len(body).to_bytes(4, 'big') + body

    def bad_status(d):
        i = d.find(bytes.fromhex('42007f0500000004'))
        return d[:i + 8] + bytes.fromhex('0000007f') + d[i + 12:] if i >= 0 else d

    def drop_status(d):
        i = d.find(bytes.fromhex('42007f0500000004'))
        if i < 0:
            return d
        j = d.find(bytes.fromhex('42000f01'))       # batch item header: fix its length and the message length
        e = d[:i] + d[i + 16:]
        if j >= 0:
            bl = int.from_bytes(e[j + 4:j + 8], 'big') - 16
            e = e[:j + 4] + bl.to_bytes(4, 'big') + e[j + 8:]
        return e[:4] + (len(e) - 8).to_bytes(4, 'big') + e[8:]

    def flip(d):
        i = rng.randrange(8, len(d))
        return d[:i] + bytes([d[i] ^ (1 << rng.randrange(8))]) + d[i + 1:]

    return [('tag', set_byte(2, 0x78)), ('type', set_byte(3, 0x02)), ('random-body', random_body), ('cut-fix', cut_fix),
            ('bad-status', bad_status), ('drop-status', drop_status), ('flip', flip), ('flip', flip)]


# ---------------------------------------------------------------------- one scripted call
def scripted_call(op, version, kwargs, items=None, mangle=None, plan=('whole',), raw=None):
    resp = D.Scripted(version, items=items, mangle=mangle, plan=plan, raw=raw)
    sock = D.ChunkSock(resp)
    cl = D.make_client(version, sock)
    out = D.run_call(lambda: D.call_pie(cl, op, kwargs))
    return out, resp, sock


def abstract_items(version, resp, items, mangled):
    """The abstract response the client was given: from the script, or (when bytes were mangled) from the real decoder."""
    if not mangled:
        rop = resp.request.batch_items[0].operation.value if resp.request is not None else None
        out = []
        for it in items:
            opv = rop if it.op == 'same' else it.op
            out.append({'op': opv.value if opv is not None else None, 'status': it.status.value,
                        'reason': it.reason.value if it.reason is not None else None,
                        'msg': it.message.encode('utf-8') if it.message is not None else None,
                        'payload': D.obj_attrs(it.payload, D.P_ATTR) if it.payload is not None else None})
        return out
    m = D.decode_response(version, resp.response_bytes)
    if m is None:
        return None
    return [D.ritem_of_batch_item(bi) for bi in m.batch_items]


def oracle(ctx, op, version, label, legal, abstract, expected_val, out, truncated=False, witness=None):
    """The property itself, evaluated on the implementation's behaviour (no model)."""
    name = op.name
    w = dict(witness or {})
    w.update({'client': 'ProxyKmipClient', 'method': name, 'kmip_version': version.name, 'response': label,
              'observed': D.outcome_plain(out)})
    if truncated:
        if out[0] == 'return':
            ctx.violation({'client': 'pie', 'op': name, 'response': 'truncated-stream', 'what': 'returned-data'}, w,
                          '%s returned data although the response stream ended early' % name)
        return
    if abstract is None or len(abstract) == 0:
        if out[0] == 'return':
            ctx.violation({'client': 'pie', 'op': name, 'response': 'undecodable', 'what': 'returned-data'}, w,
                          '%s returned data for a response that cannot be decoded' % name)
        return
    first = abstract[0]
    if first['status'] != 0:
        if out[0] == 'return':
            ctx.violation({'client': 'pie', 'op': name, 'response': label, 'what': 'success-on-failure'}, w,
                          '%s returned normally although the result status was not Success' % name)
        elif out[0] == 'raise':
            _, cls, st, rs, msg = out
            exp = (first['status'], first['reason'], first['msg'])
            got = (st.value, rs.value, msg.encode('utf-8') if msg is not None else None)
            if exp != got:
                w['expected'] = repr(exp)
                ctx.violation({'client': 'pie', 'op': name, 'response': label, 'what': 'failure-misreported'}, w,
                              '%s raised an operation failure whose status/reason/message differ from the response' % name)
        elif legal:
            w['expected'] = 'operation failure carrying %r' % ((first['status'], first['reason'], first['msg']),)
            if name == 'check':
                sig = {'client': 'pie', 'op': 'check', 'response': 'failure', 'exc': out[1]}
            else:
                sig = {'client': 'pie', 'path': path_of(name), 'op': name, 'exc': out[1],
                       'response': 'failure-without-message' if first['msg'] is None else 'failure'}
            ctx.violation(sig, w, '%s raised %s instead of an operation failure for a legal failure response (%s)' % (name, out[1], label))
        return
    if legal:
        if out[0] != 'return':
            ctx.violation({'client': 'pie', 'op': name, 'response': label, 'what': 'success-not-returned'}, w,
                          '%s did not return the data of a successful response' % name)
        elif D.to_val(out[1]) != expected_val:
            w['expected'] = repr(expected_val)[:300]
            ctx.violation({'client': 'pie', 'op': name, 'response': label, 'what': 'wrong-data'}, w,
                          '%s returned data that differs from the payload of the successful response' % name)


def pie_cases(ctx, quick):
    rng = ctx.subrng('pie')
    cases, meta = [], []
    all_reasons = list(RR)
    ri = 0
    n_args = 1 if quick else 4
    for op in D.OPS:
        for version in D.VERSIONS:
            if op.min_version is not None and version < op.min_version:
                ctx.count('pie.%s.not-offered-in.%s' % (op.name, version.name))
                continue
            for rep in range(n_args):
                reasons = []
                for _ in range(3 if quick else 12):
                    reasons.append(all_reasons[ri % len(all_reasons)])
                    ri += 1
                kwargs = op.args(rng, version)
                shapes = shapes_for(op, version, rng, reasons, quick)
                for label, legal, items in shapes:
                    out, resp, sock = scripted_call(op, version, kwargs, items=items)
                    if not sock.sent:
                        # the method refused its arguments under this version before emitting anything
                        ctx.count('pie.%s.%s.nothing-emitted:%s' % (op.name, version.name, out[1] if out[0] == 'other' else out[0]))
                        break
                    if resp.request is None:
                        ctx.violation({'client': 'pie', 'op': op.name, 'what': 'request-not-decodable', 'version': version.name},
                                      {'method': op.name, 'arguments': repr(kwargs)[:400], 'kmip_version': version.name,
                                       'request_hex': sock.sent[0].hex(), 'decoder_error': resp.request_error},
                                      '%s emitted a request the server-side decoder rejects' % op.name)
                        break
                    abstract = abstract_items(version, resp, items, False)
                    exp = None
                    if label == 'success':
                        exp = D.to_val(op.expect(items[0].payload))
                    oracle(ctx, op, version, label, legal, abstract, exp, out,
                           witness={'arguments': repr(kwargs)[:400], 'response_items': [i.describe() for i in items],
                                    'response_hex': resp.response_bytes.hex()})
                    cases.append('(CPie %s %s %s)' % (op.model, D.resp_coq(abstract), D.outcome_coq(out)))
                    meta.append((op.name, version.name, label, D.outcome_plain(out)))
                    ctx.count('pie.%s.%s' % (label, out[0] if out[0] != 'other' else 'other:' + out[1]))
                    ctx.case_seen(('pie', op.name, version.name, label, cases[-1]), nontrivial=True)
                # undecodable / corrupted bytes
                for mlabel, mfn in (mangles(rng) if sock.sent and resp.request is not None else []):
                    base_items = rng.choice(shapes[:3])[2]
                    out, resp, sock = scripted_call(op, version, kwargs, items=base_items, mangle=mfn)
                    abstract = abstract_items(version, resp, base_items, True)
                    oracle(ctx, op, version, 'mangled-' + mlabel, False, abstract, None, out,
                           witness={'response_hex': resp.response_bytes.hex()})
                    cases.append('(CPie %s %s %s)' % (op.model, D.resp_coq(abstract), D.outcome_coq(out)))
                    meta.append((op.name, version.name, 'mangled-' + mlabel, D.outcome_plain(out)))
                    ctx.count('pie.mangled-%s.%s.%s' % (mlabel, 'undecodable' if abstract is None else 'decodable', out[0]))
                    ctx.case_seen(('pie', op.name, version.name, mlabel, cases[-1]), nontrivial=True)
    return cases, meta


def load_own_findings(ctx):
    """known_findings.json is merged by bin/mkmanifest; until then (and afterwards, harmlessly) read findings.d/C19.json too."""
    import json
    from pathlib import Path
    p = Path(__file__).resolve().parents[1] / 'findings.d' / 'C19.json'
    have = {f.get('id') for f in ctx.findings}
    if p.exists():
        for f in json.loads(p.read_text()):
            if f.get('property') == 'C19' and f.get('id') not in have:
                ctx.findings.append(f)


def run(ctx):
    load_own_findings(ctx)
    ctx.cov['rule'] = ('scripted responder: every ProxyKmipClient method x KMIP 1.0-2.0 x response shapes (success with generated '
                       'payload, every ResultReason in rotation, message present/absent/empty, operation echoed/absent/wrong, '
                       'pending/undone, 0/2 items, corrupted bytes) x chunkings; a case is distinct by (method, version, shape, '
                       'abstract response, outcome)')
    quick = ctx.tier == 'quick'
    ctx.regen(only=['enums'])
    ctx.prove('props/C19.v')
    cases, meta = pie_cases(ctx, quick)
    bad = ctx.run_cases('pie', HEADER, cases, 'check_ccase', what='Client.interpret vs ProxyKmipClient methods on scripted responses')
    for i in bad[:20]:
        ctx.disagreement('pie', {'case': meta[i], 'coq': cases[i][:600]})
    ctx.sample({'pie_case': cases[0][:600]})
