"""Atoms of C20 histories: each takes the World and performs a few requests that reach particular success /
failure paths of the engine, the crypto engine, the session layer or the pie client, planting canaries as
key material, secret data, passwords, plaintext, IVs, salts, derivation data and signatures."""
import logging

import kdrv
from kdrv import OT, OP, AT
from kmip.core import enums, objects as cobjects, attributes as cattrs, primitives
from kmip.core.messages import contents, payloads

E = enums
ALG = enums.CryptographicAlgorithm
MASK = enums.CryptographicUsageMask
ALLMASK = (MASK.ENCRYPT, MASK.DECRYPT, MASK.WRAP_KEY, MASK.UNWRAP_KEY, MASK.MAC_GENERATE, MASK.MAC_VERIFY,
           MASK.DERIVE_KEY, MASK.SIGN, MASK.VERIFY)

ATOMS = {}
ENGINE_ATOMS = []


def atom(layer='engine', random_ok=True):
    def deco(f):
        ATOMS[f.__name__] = f
        if layer == 'engine' and random_ok:
            ENGINE_ATOMS.append(f.__name__)
        return f
    return deco


# ---------------------------------------------------------------------------------------------- helpers
def reg_sym(w, alg=ALG.AES, n=32, mask=ALLMASK, activate=True, kind='aes', length=None, names=(), value=None):
    key = value if value is not None else w.can.new('key-material:' + kind, n)
    sec = kdrv.symmetric_key_secret(key, alg, length if length is not None else len(key) * 8)
    it = w.one(kdrv.register(OT.SYMMETRIC_KEY, sec, mask=mask, names=names), 'register ' + kind)
    uid = w.put(kind, w.uid_of(it), key)
    if uid and activate:
        w.one(kdrv.activate(uid))
    return uid


_RSA = {}


def rsa_pair(w, bits=1024):
    """(private PKCS8 DER, public DER) - fresh per canary seed (the key bytes are the canaries)."""
    k = (w.can_seed, bits, len([x for x in w.can.items if x[0].startswith('key-material:rsa')]))
    if k not in _RSA:
        from cryptography.hazmat.primitives.asymmetric import rsa
        from cryptography.hazmat.primitives import serialization as ser
        from cryptography.hazmat.backends import default_backend
        key = rsa.generate_private_key(65537, bits, default_backend())
        priv = key.private_bytes(ser.Encoding.DER, ser.PrivateFormat.PKCS8, ser.NoEncryption())
        pub = key.public_key().public_bytes(ser.Encoding.DER, ser.PublicFormat.PKCS1)
        _RSA[k] = (priv, pub)
    return _RSA[k]


def reg_rsa(w, activate=True, priv_mask=(MASK.SIGN, MASK.DECRYPT), pub_mask=(MASK.VERIFY, MASK.ENCRYPT)):
    priv, pub = rsa_pair(w)
    w.can.add('key-material:rsa-private', priv)
    K = enums.KeyFormatType
    s1 = kdrv.core_secret(OT.PRIVATE_KEY, cryptographic_algorithm=ALG.RSA, cryptographic_length=1024,
                          key_format_type=K.PKCS_8, key_value=priv, key_wrapping_data=None)
    s2 = kdrv.core_secret(OT.PUBLIC_KEY, cryptographic_algorithm=ALG.RSA, cryptographic_length=1024,
                          key_format_type=K.PKCS_1, key_value=pub, key_wrapping_data=None)
    u1 = w.put('rsa-private', w.uid_of(w.one(kdrv.register(OT.PRIVATE_KEY, s1, mask=priv_mask), 'register rsa private')), priv)
    u2 = w.put('rsa-public', w.uid_of(w.one(kdrv.register(OT.PUBLIC_KEY, s2, mask=pub_mask), 'register rsa public')), pub)
    if activate:
        for u in (u1, u2):
            if u:
                w.one(kdrv.activate(u))
    return u1, u2


def reg_secret_data(w, n=None, mask=(MASK.DERIVE_KEY,), activate=True):
    val = w.can.new('secret-data', n, text=w.rng.random() < 0.5)
    sec = kdrv.core_secret(OT.SECRET_DATA, key_format_type=enums.KeyFormatType.OPAQUE, key_value=val,
                           secret_data_type=enums.SecretDataType.PASSWORD)
    uid = w.put('secret-data', w.uid_of(w.one(kdrv.register(OT.SECRET_DATA, sec, mask=mask), 'register secret data')), val)
    if uid and activate:
        w.one(kdrv.activate(uid))
    return uid


def cparams(**kw):
    return kdrv.crypto_params(**kw)


CBC = dict(block_cipher_mode=E.BlockCipherMode.CBC, padding_method=E.PaddingMethod.PKCS5, cryptographic_algorithm=ALG.AES)


# ---------------------------------------------------------------------------------------------- setup / lifecycle
@atom(random_ok=False)
def setup_keys(w):
    reg_sym(w, n=32)
    reg_sym(w, n=16, activate=False, kind='aes-preactive')
    reg_sym(w, n=24, mask=(MASK.MAC_GENERATE,), kind='aes-maconly')
    reg_sym(w, n=32, alg=ALG.HMAC_SHA256, kind='hmac')
    reg_secret_data(w)


@atom()
def lifecycle_all_types(w):
    for ot in kdrv.STORED_TYPES:
        val = w.can.new('object-value:' + ot.name, w.rng.choice([16, 32]) if ot in (OT.SYMMETRIC_KEY, OT.SPLIT_KEY) else None)
        if ot == OT.SYMMETRIC_KEY:
            sec = kdrv.symmetric_key_secret(val, ALG.AES, len(val) * 8)
        elif ot == OT.SPLIT_KEY:
            sec = kdrv.core_secret(ot, cryptographic_algorithm=ALG.AES, cryptographic_length=len(val) * 8,
                                   key_format_type=E.KeyFormatType.RAW, key_value=val, key_wrapping_data=None, split_key_parts=3,
                                   key_part_identifier=1, split_key_threshold=2, split_key_method=E.SplitKeyMethod.XOR, prime_field_size=None)
        else:
            sec = kdrv.secret_for(ot, val)
        uid = w.put(ot.name, w.uid_of(w.one(kdrv.register(ot, sec, names=['n-%s' % ot.name.lower()]), 'register ' + ot.name)), val)
        if not uid:
            continue
        w.one(kdrv.get(uid))
        w.one(kdrv.get_attributes(uid))
        w.one(kdrv.get_attribute_list(uid))
        w.one(kdrv.activate(uid))
        w.one(kdrv.activate(uid), 'activate twice')
        w.one(kdrv.destroy(uid), 'destroy active')
        w.one(kdrv.revoke(uid, code=None), 'revoke without reason')
        w.one(kdrv.revoke(uid))
        w.one(kdrv.revoke(uid), 'revoke twice')
        w.one(kdrv.get(uid), 'get revoked')
        if w.rng.random() < 0.6:
            w.one(kdrv.destroy(uid))
            w.one(kdrv.get(uid), 'get destroyed')


@atom()
def create_paths(w):
    it = w.one(kdrv.create(ALG.AES, 256, names=['created']))
    uid = w.uid_of(it)
    if uid:
        w.put('created', uid)
        g = w.one(kdrv.get(uid))
        try:
            w.can.add('key-material:created', bytes.fromhex(g['payload']['secret']['key_block']['key_value']['key_material']))
        except Exception:
            pass
    w.one(kdrv.create(None, 256), 'no algorithm')
    w.one(kdrv.create(ALG.AES, None), 'no length')
    w.one(kdrv.create(ALG.AES, 256, mask=None), 'no mask')
    w.one(kdrv.create(ALG.AES, 100), 'bad length')
    w.one(kdrv.create(ALG.RSA, 1024), 'asymmetric algorithm')
    w.one(kdrv.create(ALG.AES, 256, otype=OT.PUBLIC_KEY), 'wrong object type')
    w.one(kdrv.create(ALG.AES, 128, names=['dup', 'dup']), 'duplicate names')
    w.one(kdrv.create(ALG.AES, 128, extra=[kdrv.attr(AT.OPERATION_POLICY_NAME, 'no-such-policy')]), 'unknown policy')
    w.one(kdrv.create(ALG.AES, 128, extra=[kdrv.raw_attr('x-Custom', primitives.TextString('v'))]), 'unsupported attribute')
    w.one(kdrv.create(ALG.AES, 128, extra=[kdrv.attr(AT.NAME, kdrv.name_value('noindex'))]), 'name without index')
    w.one(kdrv.create(ALG.AES, 128, extra=[kdrv.attr(AT.CRYPTOGRAPHIC_LENGTH, 128, 2)]), 'index on single valued')


@atom()
def create_key_pair_paths(w):
    it = w.one(kdrv.create_key_pair(ALG.RSA, 1024))
    if it is not None and kdrv.ok(it):
        p = it['payload']
        for k in ('private_key_unique_identifier', 'public_key_unique_identifier'):
            uid = str(p[k])
            g = w.one(kdrv.get(uid))
            try:
                w.can.add('key-material:generated-' + k[:7], bytes.fromhex(g['payload']['secret']['key_block']['key_value']['key_material']))
            except Exception:
                pass
    A = kdrv.attr
    w.one(kdrv.create_key_pair(common=[A(AT.CRYPTOGRAPHIC_LENGTH, 1024)]), 'no algorithm')
    w.one(kdrv.create_key_pair(common=[A(AT.CRYPTOGRAPHIC_ALGORITHM, ALG.RSA)]), 'no length')
    w.one(kdrv.create_key_pair(private=[], public=[]), 'no masks')
    w.one(kdrv.create_key_pair(ALG.AES, 256), 'symmetric algorithm')
    w.one(kdrv.create_key_pair(ALG.RSA, 1000), 'bad rsa length')
    w.one(kdrv.create_key_pair(common=[], private=[A(AT.CRYPTOGRAPHIC_ALGORITHM, ALG.RSA), A(AT.CRYPTOGRAPHIC_LENGTH, 1024), A(AT.CRYPTOGRAPHIC_USAGE_MASK, [MASK.SIGN])],
                               public=[A(AT.CRYPTOGRAPHIC_ALGORITHM, ALG.DSA), A(AT.CRYPTOGRAPHIC_LENGTH, 2048), A(AT.CRYPTOGRAPHIC_USAGE_MASK, [MASK.VERIFY])]), 'mismatch')


@atom()
def not_found_and_denied(w):
    ghost = str(w.rng.randint(900, 999))
    for item in (kdrv.get(ghost), kdrv.get_attributes(ghost), kdrv.get_attribute_list(ghost), kdrv.activate(ghost),
                 kdrv.revoke(ghost), kdrv.destroy(ghost), kdrv.encrypt(ghost, cparams(**CBC), b'x' * 16),
                 kdrv.mac(ghost, cparams(cryptographic_algorithm=ALG.HMAC_SHA256), b'data'),
                 kdrv.sign(ghost, cparams(), b'data'), kdrv.get('not-a-number'), kdrv.get(None)):
        w.one(item, 'ghost uid')
    uid = w.any('aes') or reg_sym(w)
    for item in (kdrv.get(uid), kdrv.destroy(uid), kdrv.get_attributes(uid), kdrv.activate(uid)):
        w.one(item, 'other user', user='mallory')
    w.one(kdrv.get(uid), 'group user', user='bob', groups=['g1', 'g2'])
    w.one(kdrv.locate(), 'locate as other', user='mallory')


@atom()
def register_failures(w):
    key = w.can.new('key-material:register-fail', 32)
    K = E.KeyFormatType
    # F18: factory type errors with key bytes inside the request
    w.one(kdrv.register(OT.SYMMETRIC_KEY, kdrv.symmetric_key_secret(key, ALG.AES, 256, fmt=K.TRANSPARENT_SYMMETRIC_KEY)), 'non-RAW symmetric key')
    w.one(kdrv.register(OT.SYMMETRIC_KEY, kdrv.symmetric_key_secret(key, ALG.AES, 128)), 'length mismatch')
    w.one(kdrv.register(OT.SYMMETRIC_KEY, kdrv.symmetric_key_secret(key, None, 256)), 'no algorithm')
    wd = {'wrapping_method': E.WrappingMethod.ENCRYPT,
          'encryption_key_information': cobjects.EncryptionKeyInformation(unique_identifier='1')}
    w.one(kdrv.register(OT.SYMMETRIC_KEY, kdrv.symmetric_key_secret(key, ALG.AES, 256, wrapping=wd)), 'wrapping data without params')
    cert = w.can.new('object-value:certificate', 32)
    w.one(kdrv.register(OT.CERTIFICATE, kdrv.core_secret(OT.CERTIFICATE, certificate_type=E.CertificateType.PGP, certificate_value=cert)), 'pgp certificate')
    w.one(kdrv.register(OT.SYMMETRIC_KEY, kdrv.secret_for(OT.SECRET_DATA, key)), 'type/secret mismatch')
    w.one((OP.REGISTER, payloads.RegisterRequestPayload(object_type=OT.TEMPLATE, template_attribute=kdrv.template([]),
                                                         managed_object=kdrv.secret_for(OT.OPAQUE_DATA, key))), 'template type')
    w.one(kdrv.register(OT.SYMMETRIC_KEY, kdrv.symmetric_key_secret(key, ALG.AES, 256),
                        attrs=[kdrv.attr(AT.CRYPTOGRAPHIC_USAGE_MASK, [MASK.ENCRYPT]), kdrv.attr(AT.CERTIFICATE_TYPE, E.CertificateType.X_509)]), 'inapplicable attribute')
    w.one(kdrv.register(OT.OPAQUE_DATA, kdrv.secret_for(OT.OPAQUE_DATA, key), attrs=[kdrv.attr(AT.CRYPTOGRAPHIC_LENGTH, 256)]), 'attribute on opaque')
    w.one(kdrv.register(OT.SYMMETRIC_KEY, kdrv.symmetric_key_secret(key, ALG.AES, 256),
                        attrs=[kdrv.attr(AT.CRYPTOGRAPHIC_USAGE_MASK, [MASK.ENCRYPT]), kdrv.attr(AT.STATE, E.State.ACTIVE)]), 'server-only attribute')


# ---------------------------------------------------------------------------------------------- get / wrapping
def wrap_spec(uid, method=E.WrappingMethod.ENCRYPT, params='nist', mac=None, attribute_names=None, encoding=E.EncodingOption.NO_ENCODING):
    if params == 'nist':
        params = cparams(block_cipher_mode=E.BlockCipherMode.NIST_KEY_WRAP)
    eki = cobjects.EncryptionKeyInformation(unique_identifier=uid, cryptographic_parameters=params) if uid is not None else None
    return cobjects.KeyWrappingSpecification(wrapping_method=method, encryption_key_information=eki,
                                             mac_signature_key_information=mac, attribute_names=attribute_names, encoding_option=encoding)


@atom()
def get_and_wrap(w):
    target = reg_sym(w, n=32, kind='aes-target')
    kek = reg_sym(w, n=w.rng.choice([16, 24, 32]), kind='kek')
    w.one(kdrv.get(target, wrap=wrap_spec(kek)), 'wrap ok')
    w.one(kdrv.get(target, fmt=E.KeyFormatType.RAW))
    w.one(kdrv.get(target, fmt=E.KeyFormatType.PKCS_8), 'format conversion')
    w.one(kdrv.get(target, compression=E.KeyCompressionType.EC_PUBLIC_KEY_TYPE_UNCOMPRESSED), 'compression')
    for ot in (OT.OPAQUE_DATA, OT.CERTIFICATE):
        val = w.can.new('object-value:' + ot.name)
        op = w.uid_of(w.one(kdrv.register(ot, kdrv.secret_for(ot, val)), 'register fresh ' + ot.name))
        if op:
            w.one(kdrv.get(op, fmt=E.KeyFormatType.RAW), 'format on ' + ot.name)
            w.one(kdrv.get(op, wrap=wrap_spec(kek)), 'wrap ' + ot.name)
    pre = reg_sym(w, n=16, activate=False, kind='kek-preactive')
    nowrap = reg_sym(w, n=16, mask=(MASK.ENCRYPT,), kind='kek-nowrapbit')
    sd = reg_secret_data(w, 13)
    odd = reg_sym(w, n=w.rng.choice([16, 32]), kind='aes-target2')
    w.one(kdrv.get(target, wrap=wrap_spec(pre)), 'kek not active')
    w.one(kdrv.get(target, wrap=wrap_spec(nowrap)), 'kek without wrap bit')
    w.one(kdrv.get(target, wrap=wrap_spec('777')), 'kek missing')
    w.one(kdrv.get(target, wrap=wrap_spec(sd)), 'kek is secret data')
    w.one(kdrv.get(sd, wrap=wrap_spec(kek)), 'wrap 13-byte secret (not a multiple of 8)')
    w.one(kdrv.get(target, wrap=wrap_spec(kek, params=None)), 'wrap without cryptographic parameters')
    w.one(kdrv.get(target, wrap=wrap_spec(kek, params=cparams(block_cipher_mode=E.BlockCipherMode.CBC))), 'unsupported wrap mode')
    w.one(kdrv.get(target, wrap=wrap_spec(kek, method=E.WrappingMethod.MAC_SIGN)), 'unsupported wrap method')
    w.one(kdrv.get(target, wrap=wrap_spec(kek, encoding=E.EncodingOption.TTLV_ENCODING)), 'ttlv encoding')
    w.one(kdrv.get(target, wrap=wrap_spec(kek, attribute_names=['Cryptographic Algorithm'])), 'attribute wrapping')
    w.one(kdrv.get(target, wrap=wrap_spec(None, mac=cobjects.MACSignatureKeyInformation(unique_identifier=kek))), 'mac key info')
    w.one(kdrv.get(target, wrap=wrap_spec(None)), 'no key info')
    hm = w.any('hmac')
    if hm:
        w.one(kdrv.get(target, wrap=wrap_spec(hm)), 'kek is an hmac key')
    w.one(kdrv.get(odd, wrap=wrap_spec(kek)), 'wrap second')


# ---------------------------------------------------------------------------------------------- encrypt / decrypt
@atom()
def encrypt_decrypt(w):
    uid = w.any('aes') or reg_sym(w)
    BM, PM = E.BlockCipherMode, E.PaddingMethod
    pt = w.can.new('plaintext', w.rng.choice([16, 32, 48]))
    iv = w.can.new('iv', 16)
    r = w.one(kdrv.encrypt(uid, cparams(**CBC), pt, iv), 'cbc ok')
    if r is not None and kdrv.ok(r):
        ct = bytes.fromhex(r['payload']['data'])
        w.one(kdrv.decrypt(uid, cparams(**CBC), ct, iv), 'cbc decrypt ok')
        # deterministic bad padding: the last plaintext byte is the pad length p (=16 here); make it 0
        bad = bytearray(ct)
        bad[-17] ^= 16
        w.one(kdrv.decrypt(uid, cparams(**CBC), bytes(bad), iv), 'cbc bad padding')
        w.one(kdrv.decrypt(uid, cparams(**CBC), ct[:-3], iv), 'cbc truncated ciphertext')
    w.one(kdrv.encrypt(uid, cparams(**CBC), pt, iv[:7]), 'cbc iv of 7 bytes')
    w.one(kdrv.encrypt(uid, cparams(block_cipher_mode=BM.CBC, cryptographic_algorithm=ALG.AES, padding_method=PM.NONE), pt[:13], iv), 'no padding, 13 bytes')
    w.one(kdrv.encrypt(uid, cparams(block_cipher_mode=BM.ECB, padding_method=PM.ANSI_X923, cryptographic_algorithm=ALG.AES), pt), 'ecb')
    w.one(kdrv.encrypt(uid, cparams(block_cipher_mode=BM.CTR, cryptographic_algorithm=ALG.AES), pt, iv), 'ctr')
    w.one(kdrv.encrypt(uid, cparams(block_cipher_mode=BM.CBC, cryptographic_algorithm=ALG.AES, padding_method=PM.PKCS5, random_iv=True), pt), 'random iv')
    aad = w.can.new('aad', 16)
    g = w.one(kdrv.encrypt(uid, cparams(block_cipher_mode=BM.GCM, cryptographic_algorithm=ALG.AES, tag_length=16), pt, iv[:12], aad), 'gcm ok')
    if g is not None and kdrv.ok(g):
        ct = bytes.fromhex(g['payload']['data'])
        tag = bytes.fromhex(g['payload']['auth_tag'])
        w.one(kdrv.decrypt(uid, cparams(block_cipher_mode=BM.GCM, cryptographic_algorithm=ALG.AES), ct, iv[:12], aad, tag), 'gcm decrypt ok')
        w.one(kdrv.decrypt(uid, cparams(block_cipher_mode=BM.GCM, cryptographic_algorithm=ALG.AES), ct, iv[:12], aad, bytes(x ^ 1 for x in tag)), 'gcm tampered tag')
        w.one(kdrv.decrypt(uid, cparams(block_cipher_mode=BM.GCM, cryptographic_algorithm=ALG.AES), ct, iv[:12], aad), 'gcm missing tag')
    w.one(kdrv.encrypt(uid, cparams(**CBC), pt, iv, aad), 'aad outside gcm')
    w.one(kdrv.encrypt(uid, cparams(block_cipher_mode=BM.CBC, cryptographic_algorithm=ALG.AES, padding_method=PM.PKCS5, tag_length=16), pt, iv), 'tag length outside gcm')
    w.one(kdrv.encrypt(uid, None, pt, iv), 'no parameters')
    w.one(kdrv.encrypt(uid, cparams(block_cipher_mode=BM.CBC, padding_method=PM.PKCS5), pt, iv), 'no algorithm')
    w.one(kdrv.encrypt(uid, cparams(cryptographic_algorithm=ALG.AES, padding_method=PM.PKCS5), pt, iv), 'no mode')
    w.one(kdrv.encrypt(uid, cparams(block_cipher_mode=BM.CBC, cryptographic_algorithm=ALG.AES), pt, iv), 'no padding method')
    w.one(kdrv.encrypt(uid, cparams(block_cipher_mode=BM.CBC, cryptographic_algorithm=ALG.AES, padding_method=PM.ISO_10126), pt, iv), 'unsupported padding')
    w.one(kdrv.encrypt(uid, cparams(block_cipher_mode=BM.X9_102_AESKW, cryptographic_algorithm=ALG.AES, padding_method=PM.PKCS5), pt, iv), 'unsupported mode')
    w.one(kdrv.encrypt(uid, cparams(block_cipher_mode=BM.CBC, cryptographic_algorithm=ALG.HMAC_SHA1, padding_method=PM.PKCS5), pt, iv), 'unsupported algorithm')
    w.one(kdrv.encrypt(uid, cparams(block_cipher_mode=BM.CBC, cryptographic_algorithm=ALG.BLOWFISH, padding_method=PM.PKCS5), pt, iv[:8]), 'key used as blowfish')
    w.one(kdrv.encrypt(uid, cparams(block_cipher_mode=BM.CBC, cryptographic_algorithm=ALG.TRIPLE_DES, padding_method=PM.PKCS5), pt, iv[:8]), 'aes key used as 3des')
    w.one(kdrv.decrypt(uid, cparams(**CBC), pt, None), 'decrypt without iv')
    w.one(kdrv.decrypt(uid, None, pt, iv), 'decrypt no parameters')
    pre = w.any('aes-preactive') or reg_sym(w, n=16, activate=False, kind='aes-preactive')
    mo = w.any('aes-maconly') or reg_sym(w, n=24, mask=(MASK.MAC_GENERATE,), kind='aes-maconly')
    sd = w.any('secret-data') or reg_secret_data(w)
    for u, lab in ((pre, 'not active'), (mo, 'no encrypt bit'), (sd, 'not a key')):
        w.one(kdrv.encrypt(u, cparams(**CBC), pt, iv), 'encrypt: ' + lab)
        w.one(kdrv.decrypt(u, cparams(**CBC), pt, iv), 'decrypt: ' + lab)
    short = reg_sym(w, n=15, kind='aes-15-bytes')
    w.one(kdrv.encrypt(short, cparams(**CBC), pt, iv), 'invalid key size')
    w.one(kdrv.decrypt(short, cparams(**CBC), pt, iv), 'invalid key size')
    w.one(kdrv.encrypt(uid, cparams(**CBC), pt, iv), 'other user', user='mallory')


@atom()
def cipher_backend_refusals(w):
    """Every path on which the text of a `cryptography` exception is embedded in a result message / logged with its
    traceback (crypto/engine.py: mode construction, cipher operation, padding, KDF construction), under canaries."""
    BM, PM, DM, HA = E.BlockCipherMode, E.PaddingMethod, E.DerivationMethod, E.HashingAlgorithm
    uid = reg_sym(w, n=w.rng.choice([16, 24, 32]), kind='aes-backend')
    des = reg_sym(w, n=24, alg=ALG.TRIPLE_DES, kind='3des')
    pt = w.can.new('plaintext', 32)
    iv = w.can.new('iv', 16)
    aad = w.can.new('aad', 24)
    P = lambda mode, pad=PM.PKCS5, alg=ALG.AES, **kw: cparams(block_cipher_mode=mode, padding_method=pad, cryptographic_algorithm=alg, **kw)
    good = w.one(kdrv.encrypt(uid, P(BM.CBC), pt, iv), 'cbc ok')
    ct = bytes.fromhex(good['payload']['data']) if good is not None and kdrv.ok(good) else pt + pt[:16]
    # mode construction refused (encrypt / decrypt)
    for n in (0, 1, 7, 15):
        w.one(kdrv.encrypt(uid, P(BM.CBC), pt, iv[:n] if n else b''), 'encrypt: cbc iv of %d bytes' % n)
        w.one(kdrv.decrypt(uid, P(BM.CBC), ct, iv[:n] if n else None), 'decrypt: cbc iv of %d bytes' % n)
    w.one(kdrv.encrypt(uid, P(BM.CBC), pt, iv + iv), 'encrypt: cbc iv of 32 bytes')
    w.one(kdrv.encrypt(uid, P(BM.CTR, None), pt, iv[:9]), 'encrypt: ctr nonce of 9 bytes')
    w.one(kdrv.encrypt(uid, P(BM.CFB, None), pt, iv[:3]), 'encrypt: cfb iv of 3 bytes')
    w.one(kdrv.encrypt(uid, P(BM.OFB, None), pt, iv[:3]), 'encrypt: ofb iv of 3 bytes')
    w.one(kdrv.encrypt(uid, P(BM.GCM, None, tag_length=16), pt, iv[:4], aad), 'encrypt: gcm nonce of 4 bytes')
    w.one(kdrv.encrypt(uid, P(BM.GCM, None, tag_length=2), pt, iv[:12], aad), 'encrypt: gcm tag length 2')
    w.one(kdrv.encrypt(uid, P(BM.GCM, None, tag_length=200), pt, iv[:12], aad), 'encrypt: gcm tag length 200')
    w.one(kdrv.encrypt(des, P(BM.CBC, alg=ALG.TRIPLE_DES), pt, iv), 'encrypt: 3des with a 16 byte iv')
    w.one(kdrv.encrypt(des, P(BM.GCM, None, alg=ALG.TRIPLE_DES, tag_length=16), pt, iv[:12], aad), 'encrypt: 3des in gcm mode')
    # cipher operation refused
    w.one(kdrv.encrypt(uid, P(BM.CBC, PM.NONE), pt[:13], iv), 'encrypt: 13 bytes without padding')
    w.one(kdrv.encrypt(uid, P(BM.ECB, PM.NONE), pt[:31]), 'encrypt: ecb 31 bytes without padding')
    w.one(kdrv.decrypt(uid, P(BM.CBC), ct[:-3], iv), 'decrypt: truncated ciphertext')
    w.one(kdrv.decrypt(uid, P(BM.CBC, PM.NONE), ct[:21], iv), 'decrypt: 21 bytes without padding')
    w.one(kdrv.decrypt(uid, P(BM.ECB), pt[:17]), 'decrypt: ecb 17 bytes')
    bad = bytearray(ct)
    bad[-17] ^= 16
    w.one(kdrv.decrypt(uid, P(BM.CBC), bytes(bad), iv), 'decrypt: bad pkcs5 padding (last byte 0)')
    w.one(kdrv.decrypt(uid, P(BM.CBC, PM.ANSI_X923), bytes(bad), iv), 'decrypt: bad ansi x9.23 padding')
    w.one(kdrv.decrypt(uid, P(BM.CBC), b'', iv), 'decrypt: empty ciphertext')
    g = w.one(kdrv.encrypt(uid, P(BM.GCM, None, tag_length=16), pt, iv[:12], aad), 'gcm ok')
    if g is not None and kdrv.ok(g):
        gct, tag = bytes.fromhex(g['payload']['data']), bytes.fromhex(g['payload']['auth_tag'])
        GP = P(BM.GCM, None)
        w.one(kdrv.decrypt(uid, GP, gct, iv[:12], aad, bytes(x ^ 0x80 for x in tag)), 'decrypt: gcm tampered tag')
        w.one(kdrv.decrypt(uid, GP, gct[:-1] + bytes([gct[-1] ^ 1]), iv[:12], aad, tag), 'decrypt: gcm tampered ciphertext')
        w.one(kdrv.decrypt(uid, GP, gct, iv[:12], aad[:-1], tag), 'decrypt: gcm other aad')
        w.one(kdrv.decrypt(uid, GP, gct, iv[:12], aad, tag[:2]), 'decrypt: gcm tag of 2 bytes')
        w.one(kdrv.decrypt(uid, GP, gct, iv[:5], aad, tag), 'decrypt: gcm nonce of 5 bytes')
        w.one(kdrv.decrypt(uid, GP, gct, iv[:12], aad, tag + tag), 'decrypt: gcm tag of 32 bytes')
    # key derivation functions refuse their parameters
    base = reg_sym(w, n=32, kind='derive-base')
    salt = w.can.new('salt', 16)
    dd = w.can.new('derivation-data', 32)
    sha = cparams(hashing_algorithm=HA.SHA_256)
    big = kdrv.sym_attrs(ALG.AES, 8 * 9000, kdrv.ENC_DEC)
    for it in (0, -1, -2147483648):
        w.one(kdrv.derive_key([base], DM.PBKDF2, dparams(cryptographic_parameters=sha, salt=salt, iteration_count=it)), 'pbkdf2 iterations %d' % it)
    w.one(kdrv.derive_key([base], DM.PBKDF2, dparams(cryptographic_parameters=sha, salt=b'', iteration_count=10)), 'pbkdf2 empty salt')
    w.one(kdrv.derive_key([base], DM.HMAC, dparams(cryptographic_parameters=sha, derivation_data=dd, salt=salt), attrs=big), 'hkdf 9000 bytes')
    w.one(kdrv.derive_key([base], DM.PBKDF2, dparams(cryptographic_parameters=sha, salt=salt, iteration_count=2), attrs=big), 'pbkdf2 9000 bytes')
    w.one(kdrv.derive_key([base], DM.NIST800_108_C, dparams(cryptographic_parameters=sha, derivation_data=dd), attrs=big), 'kbkdf 9000 bytes')
    w.one(kdrv.derive_key([base], DM.NIST800_108_C, dparams(cryptographic_parameters=sha)), 'kbkdf without fixed data')
    w.one(kdrv.derive_key([base], DM.ENCRYPT, dparams(cryptographic_parameters=cparams(**CBC), initialization_vector=iv[:5], derivation_data=dd),
                          attrs=kdrv.sym_attrs(ALG.AES, 256, kdrv.ENC_DEC)), 'encrypt method with 5 byte iv')
    w.one(kdrv.derive_key([base], DM.ENCRYPT, dparams(cryptographic_parameters=cparams(**CBC), initialization_vector=iv)), 'encrypt method without data')


@atom()
def asymmetric_crypto(w):
    priv, pub = reg_rsa(w)
    PM = E.PaddingMethod
    pt = w.can.new('plaintext', 24)
    oaep = cparams(cryptographic_algorithm=ALG.RSA, padding_method=PM.OAEP, hashing_algorithm=E.HashingAlgorithm.SHA_256)
    r = w.one(kdrv.encrypt(pub, oaep, pt), 'rsa oaep')
    w.one(kdrv.encrypt(pub, cparams(cryptographic_algorithm=ALG.RSA, padding_method=PM.PKCS1v15), pt), 'rsa pkcs1')
    w.one(kdrv.encrypt(pub, cparams(cryptographic_algorithm=ALG.RSA, padding_method=PM.OAEP), pt), 'oaep without hash')
    w.one(kdrv.encrypt(pub, cparams(cryptographic_algorithm=ALG.RSA, padding_method=PM.PSS, hashing_algorithm=E.HashingAlgorithm.SHA_256), pt), 'bad padding method')
    w.one(kdrv.encrypt(pub, cparams(cryptographic_algorithm=ALG.RSA, padding_method=PM.PKCS1v15), pt * 8), 'plaintext too long for rsa')
    w.one(kdrv.decrypt(priv, oaep, pt), 'decrypt with private key (symmetric only)')
    # the engine refuses asymmetric Decrypt, so the crypto engine's RSA decryption failure path is driven directly
    ce = w.eng.engine._cryptography_engine
    privb = w.secret.get(priv)
    for lab, ctx_ in (('garbage ciphertext', w.can.new('ciphertext', 128)), ('short ciphertext', w.can.new('ciphertext', 24))):
        try:
            ce.decrypt(ALG.RSA, privb, ctx_, padding_method=PM.OAEP, hashing_algorithm=E.HashingAlgorithm.SHA_256)
        except Exception as e:
            w.messages.append((len(w.trace), 'message' if type(e).__name__ == 'CryptographicFailure' else 'client-error', str(e)))
        w.trace.append({'step': len(w.trace), 'direct': 'crypto engine rsa decrypt: ' + lab})
    # signing
    data = w.can.new('signed-data', 32)
    pss = cparams(cryptographic_algorithm=ALG.RSA, padding_method=PM.PSS, hashing_algorithm=E.HashingAlgorithm.SHA_256)
    s = w.one(kdrv.sign(priv, pss, data), 'sign pss')
    sig = bytes.fromhex(s['payload']['signature_data']) if s is not None and kdrv.ok(s) else b'\x01' * 128
    w.one(kdrv.signature_verify(pub, pss, data, sig), 'verify ok')
    fake = w.can.new('signature', 128)
    w.one(kdrv.signature_verify(pub, pss, data, fake), 'verify canary signature')
    w.one(kdrv.sign(priv, cparams(cryptographic_algorithm=ALG.RSA, padding_method=PM.PKCS1v15, hashing_algorithm=E.HashingAlgorithm.SHA_1), data), 'sign pkcs1')
    w.one(kdrv.sign(priv, cparams(digital_signature_algorithm=E.DigitalSignatureAlgorithm.SHA256_WITH_RSA_ENCRYPTION, padding_method=PM.PKCS1v15), data), 'sign dsa enum')
    w.one(kdrv.sign(priv, cparams(cryptographic_algorithm=ALG.RSA, hashing_algorithm=E.HashingAlgorithm.SHA_256), data), 'sign without padding')
    w.one(kdrv.sign(priv, cparams(cryptographic_algorithm=ALG.RSA, padding_method=PM.OAEP, hashing_algorithm=E.HashingAlgorithm.SHA_256), data), 'sign bad padding')
    w.one(kdrv.sign(priv, cparams(padding_method=PM.PSS), data), 'sign without algorithms')
    w.one(kdrv.sign(priv, None, data), 'sign without parameters')
    w.one(kdrv.sign(pub, pss, data), 'sign with public key')
    w.one(kdrv.signature_verify(priv, pss, data, sig), 'verify with private key')
    w.one(kdrv.signature_verify(pub, None, data, sig), 'verify without parameters')
    w.one(kdrv.signature_verify(pub, cparams(cryptographic_algorithm=ALG.RSA, padding_method=PM.PSS), data, sig), 'verify pss without hash')
    w.one(kdrv.signature_verify(pub, cparams(cryptographic_algorithm=ALG.DSA, padding_method=PM.PSS, hashing_algorithm=E.HashingAlgorithm.SHA_256), data, sig), 'verify dsa')
    w.one(kdrv.signature_verify(pub, cparams(digital_signature_algorithm=E.DigitalSignatureAlgorithm.SHA256_WITH_RSA_ENCRYPTION, padding_method=PM.PKCS1v15,
                                             hashing_algorithm=E.HashingAlgorithm.SHA_1), data, sig), 'hash/dsa mismatch')
    # keys whose bytes are not keys
    junk = w.can.new('key-material:not-a-der-key', 48)
    K = E.KeyFormatType
    jp = w.uid_of(w.one(kdrv.register(OT.PRIVATE_KEY, kdrv.core_secret(OT.PRIVATE_KEY, cryptographic_algorithm=ALG.RSA, cryptographic_length=1024,
                                      key_format_type=K.PKCS_8, key_value=junk, key_wrapping_data=None), mask=(MASK.SIGN,)), 'register junk private'))
    ju = w.uid_of(w.one(kdrv.register(OT.PUBLIC_KEY, kdrv.core_secret(OT.PUBLIC_KEY, cryptographic_algorithm=ALG.RSA, cryptographic_length=1024,
                                      key_format_type=K.PKCS_1, key_value=junk, key_wrapping_data=None), mask=(MASK.VERIFY, MASK.ENCRYPT)), 'register junk public'))
    for u in (jp, ju):
        if u:
            w.one(kdrv.activate(u))
    if jp:
        w.one(kdrv.sign(jp, pss, data), 'sign with junk key bytes')
    if ju:
        w.one(kdrv.signature_verify(ju, pss, data, sig), 'verify with junk key bytes')
        w.one(kdrv.encrypt(ju, oaep, pt), 'rsa encrypt with junk key bytes')


# ---------------------------------------------------------------------------------------------- mac
@atom()
def mac_paths(w):
    hm = w.any('hmac') or reg_sym(w, n=32, alg=ALG.HMAC_SHA256, kind='hmac')
    aes = w.any('aes') or reg_sym(w)
    data = w.can.new('mac-data', 32)
    w.one(kdrv.mac(hm, cparams(cryptographic_algorithm=ALG.HMAC_SHA256), data), 'hmac ok')
    w.one(kdrv.mac(hm, cparams(cryptographic_algorithm=ALG.HMAC_SHA512), data), 'hmac sha512')
    w.one(kdrv.mac(aes, cparams(cryptographic_algorithm=ALG.AES), data), 'cmac aes')
    w.one(kdrv.mac(hm, cparams(cryptographic_algorithm=ALG.TRIPLE_DES), data), 'cmac 3des with 32 byte key')
    w.one(kdrv.mac(hm, cparams(cryptographic_algorithm=ALG.RSA), data), 'unsupported algorithm')
    w.one(kdrv.mac(hm, None, data), 'no parameters (key algorithm used)')
    w.one(kdrv.mac(hm, cparams(cryptographic_algorithm=ALG.HMAC_SHA256), b''), 'no data')
    w.one(kdrv.mac(hm, cparams(cryptographic_algorithm=ALG.HMAC_SHA256), None), 'data absent')
    pre = w.any('aes-preactive') or reg_sym(w, n=16, activate=False, kind='aes-preactive')
    w.one(kdrv.mac(pre, cparams(cryptographic_algorithm=ALG.AES), data), 'not active')
    nomac = reg_sym(w, n=16, mask=(MASK.ENCRYPT,), kind='aes-nomacbit')
    w.one(kdrv.mac(nomac, cparams(cryptographic_algorithm=ALG.AES), data), 'no mac bit')
    op = w.any('OPAQUE_DATA')
    if not op:
        val = w.can.new('object-value:OPAQUE_DATA')
        op = w.put('OPAQUE_DATA', w.uid_of(w.one(kdrv.register(OT.OPAQUE_DATA, kdrv.secret_for(OT.OPAQUE_DATA, val)))), val)
    w.one(kdrv.mac(op, cparams(cryptographic_algorithm=ALG.HMAC_SHA256), data), 'mac on opaque object (F3)')
    short = reg_sym(w, n=15, mask=(MASK.MAC_GENERATE,), kind='aes-15-bytes-mac')
    w.one(kdrv.mac(short, cparams(cryptographic_algorithm=ALG.AES), data), 'cmac invalid key size')


# ---------------------------------------------------------------------------------------------- derive key
def dparams(**kw):
    return cattrs.DerivationParameters(**kw)


@atom()
def derive_paths(w):
    base = reg_sym(w, n=32, kind='derive-base')
    sd = w.any('secret-data') or reg_secret_data(w)
    DM, HA = E.DerivationMethod, E.HashingAlgorithm
    salt = w.can.new('salt', 16)
    ddata = w.can.new('derivation-data', 32)
    iv = w.can.new('iv', 16)
    sha = cparams(hashing_algorithm=HA.SHA_256)
    w.one(kdrv.derive_key([base], DM.PBKDF2, dparams(cryptographic_parameters=sha, salt=salt, iteration_count=10)), 'pbkdf2 ok')
    w.one(kdrv.derive_key([sd], DM.PBKDF2, dparams(cryptographic_parameters=sha, salt=salt, iteration_count=10)), 'pbkdf2 from secret data')
    w.one(kdrv.derive_key([base], DM.HASH, dparams(cryptographic_parameters=sha, derivation_data=ddata)), 'hash: data and key')
    w.one(kdrv.derive_key([base], DM.HASH, dparams(cryptographic_parameters=sha)), 'hash from key')
    w.one(kdrv.derive_key([base], DM.HMAC, dparams(cryptographic_parameters=sha, derivation_data=ddata, salt=salt)), 'hmac (hkdf)')
    w.one(kdrv.derive_key([base], DM.NIST800_108_C, dparams(cryptographic_parameters=sha, derivation_data=ddata)), 'nist 800-108')
    w.one(kdrv.derive_key([base], DM.ENCRYPT, dparams(cryptographic_parameters=cparams(**CBC), initialization_vector=iv, derivation_data=ddata),
                          attrs=kdrv.sym_attrs(ALG.AES, 256, kdrv.ENC_DEC)), 'encrypt method')
    w.one(kdrv.derive_key([base, sd], DM.HASH, dparams(cryptographic_parameters=sha)), 'two objects: second is the derivation data')
    w.one(kdrv.derive_key([base], DM.PBKDF2, dparams(cryptographic_parameters=sha, iteration_count=10)), 'pbkdf2 no salt')
    w.one(kdrv.derive_key([base], DM.PBKDF2, dparams(cryptographic_parameters=sha, salt=salt)), 'pbkdf2 no iterations')
    w.one(kdrv.derive_key([base], DM.HASH, dparams(cryptographic_parameters=cparams(), derivation_data=ddata)), 'no hash algorithm')
    w.one(kdrv.derive_key([base], DM.HASH, dparams(cryptographic_parameters=cparams(hashing_algorithm=HA.RIPEMD_160))), 'unsupported hash')
    w.one(kdrv.derive_key([base], DM.ASYMMETRIC_KEY, dparams(cryptographic_parameters=sha)), 'unsupported method')
    w.one(kdrv.derive_key([base], DM.HASH, dparams(cryptographic_parameters=sha), attrs=kdrv.sym_attrs(ALG.AES, 1024, kdrv.ENC_DEC)), 'length exceeds output')
    w.one(kdrv.derive_key([base], DM.HASH, dparams(cryptographic_parameters=sha), attrs=kdrv.sym_attrs(ALG.AES, 100, kdrv.ENC_DEC)), 'length not multiple of 8')
    w.one(kdrv.derive_key([base], DM.HASH, dparams(cryptographic_parameters=sha), attrs=kdrv.sym_attrs(ALG.AES, None, kdrv.ENC_DEC)), 'no length')
    w.one(kdrv.derive_key([base], DM.HASH, dparams(cryptographic_parameters=sha), attrs=kdrv.sym_attrs(None, 128, kdrv.ENC_DEC)), 'no algorithm')
    w.one(kdrv.derive_key([base], DM.HASH, dparams(cryptographic_parameters=sha), otype=OT.PUBLIC_KEY), 'bad target type')
    w.one(kdrv.derive_key([base], DM.HASH, dparams(cryptographic_parameters=sha), otype=OT.SECRET_DATA, attrs=[kdrv.attr(AT.CRYPTOGRAPHIC_LENGTH, 128)]), 'derive secret data')
    noderive = reg_sym(w, n=16, mask=(MASK.ENCRYPT,), kind='aes-noderivebit')
    w.one(kdrv.derive_key([noderive], DM.HASH, dparams(cryptographic_parameters=sha)), 'no derive bit')
    op = w.any('OPAQUE_DATA') or w.any('CERTIFICATE')
    if op:
        w.one(kdrv.derive_key([op], DM.HASH, dparams(cryptographic_parameters=sha)), 'unsuitable object')
    w.one(kdrv.derive_key(['888'], DM.HASH, dparams(cryptographic_parameters=sha)), 'ghost base')
    w.one(kdrv.derive_key([base], DM.HASH, dparams(cryptographic_parameters=sha)), 'other user', user='mallory')


# ---------------------------------------------------------------------------------------------- attributes
@atom()
def attribute_paths(w):
    uid = w.any('aes') or reg_sym(w)
    TS = primitives.TextString
    N = lambda s: kdrv.attr(AT.NAME, kdrv.name_value(s), 0)
    w.one(kdrv.modify_attribute_v1(uid, kdrv.attr(AT.NAME, kdrv.name_value('n0'), 0)), 'modify name (not set)')
    w.one(kdrv.modify_attribute_v1(uid, kdrv.raw_attr('No Such Attribute', TS('v'))), 'modify unknown attribute (F3)')
    w.one(kdrv.modify_attribute_v1(uid, kdrv.attr(AT.CRYPTOGRAPHIC_LENGTH, 128)), 'modify read-only')
    w.one(kdrv.modify_attribute_v1(uid, kdrv.attr(AT.NAME, kdrv.name_value('n9'), 9)), 'modify bad index')
    w.one(kdrv.delete_attribute_v1(uid, 'No Such Attribute'), 'delete unknown attribute (F3)')
    w.one(kdrv.delete_attribute_v1(uid, 'Cryptographic Algorithm'), 'delete required')
    w.one(kdrv.delete_attribute_v1(uid, 'Name', 5), 'delete missing index')
    w.one(kdrv.delete_attribute_v1(uid, 'Certificate Type'), 'delete inapplicable')
    w.one(kdrv.delete_attribute_v1(uid, None), 'delete without name')
    V2 = (2, 0)
    w.one(kdrv.set_attribute(uid, kdrv.attr_value('SENSITIVE', True)), 'set sensitive', version=V2)
    w.one(kdrv.set_attribute(uid, kdrv.attr_value('NAME', kdrv.name_value('x'))), 'set multivalued', version=V2)
    w.one(kdrv.set_attribute(uid, kdrv.attr_value('CRYPTOGRAPHIC_LENGTH', 128)), 'set read-only', version=V2)
    w.one(kdrv.set_attribute(uid, kdrv.attr_value('SENSITIVE', True)), 'set under 1.2 (version gate)')
    w.one(kdrv.modify_attribute_v2(uid, kdrv.attr_value('NAME', kdrv.name_value('new'))), 'modify multivalued w/o current', version=V2)
    w.one(kdrv.modify_attribute_v2(uid, kdrv.attr_value('NAME', kdrv.name_value('new')), kdrv.attr_value('NAME', kdrv.name_value('absent'))), 'modify: current not found', version=V2)
    w.one(kdrv.modify_attribute_v2(uid, kdrv.attr_value('CRYPTOGRAPHIC_LENGTH', 128)), 'modify read-only v2', version=V2)
    w.one(kdrv.modify_attribute_v2(uid, kdrv.attr_value('SENSITIVE', False)), 'modify sensitive', version=V2)
    w.one(kdrv.delete_attribute_v2(uid), 'delete v2 without anything', version=V2)
    w.one(kdrv.delete_attribute_v2(uid, kdrv.attr_value('NAME', kdrv.name_value('absent'))), 'delete v2 value not found', version=V2)
    w.one(kdrv.delete_attribute_v2(uid, reference=kdrv.attr_ref2('Name')), 'delete v2 by reference', version=V2)
    w.one(kdrv.delete_attribute_v2(uid, reference=kdrv.attr_ref2('Cryptographic Algorithm')), 'delete v2 required', version=V2)
    w.one(kdrv.get_attributes(uid, ['Name', 'x-Nope', 'Cryptographic Length']), 'get some attributes')
    w.one(kdrv.get_attributes(uid), 'all attributes v2', version=V2)


@atom()
def locate_query(w):
    A = kdrv.attr
    w.one(kdrv.locate())
    w.one(kdrv.locate([A(AT.CRYPTOGRAPHIC_ALGORITHM, ALG.AES), A(AT.CRYPTOGRAPHIC_LENGTH, 256)]), 'locate by alg/length (F3 when a certificate is visible)')
    w.one(kdrv.locate([A(AT.NAME, kdrv.name_value('n-secret_data'))]), 'by name')
    w.one(kdrv.locate([A(AT.STATE, E.State.ACTIVE), A(AT.OBJECT_TYPE, OT.SYMMETRIC_KEY)]))
    w.one(kdrv.locate([A(AT.INITIAL_DATE, 1600000000), A(AT.INITIAL_DATE, 1600000001), A(AT.INITIAL_DATE, 1600000002)]), 'three dates')
    w.one(kdrv.locate([kdrv.raw_attr('No Such Attribute', primitives.TextString('v'))]), 'unknown filter attribute (F3)')
    w.one(kdrv.locate([A(AT.CRYPTOGRAPHIC_USAGE_MASK, [MASK.ENCRYPT])], offset=1, maximum=2))
    w.one(kdrv.locate(), version=(2, 0))
    w.one(kdrv.query())
    w.one(kdrv.query([E.QueryFunction.QUERY_SERVER_INFORMATION, E.QueryFunction.QUERY_PROFILES]), version=(1, 3))
    w.one(kdrv.discover_versions())
    w.one(kdrv.discover_versions([(9, 9)]))


@atom()
def request_level(w):
    uid = w.any('aes') or reg_sym(w)
    g = kdrv.get(uid)
    w.req([g], 'unsupported version', version=(3, 1))
    w.req([g], 'future timestamp', time_stamp=w.eng.clock.t + 10000)
    w.req([g], 'stale timestamp', time_stamp=w.eng.clock.t - 10000)
    w.req([g], 'good timestamp', time_stamp=w.eng.clock.t)
    w.req([g], 'asynchronous', asynchronous=True)
    w.req([g, g], 'undo', batch_option=E.BatchErrorContinuationOption.UNDO)
    w.req([g, kdrv.get('999'), g], 'stop', batch_option=E.BatchErrorContinuationOption.STOP)
    w.req([g, kdrv.get('999'), g], 'continue', batch_option=E.BatchErrorContinuationOption.CONTINUE)
    w.req([g, g], 'no batch ids', ids=False)
    w.req([g], 'max size', max_size=50)
    w.one((OP.REKEY, payloads.RekeyRequestPayload(unique_identifier=uid)), 'unsupported operation')
    w.one((OP.POLL, None), 'operation without payload')
    w.one(kdrv.get(uid), 'kmip 1.0', version=(1, 0))
    w.one(kdrv.discover_versions(), 'discover under 1.0', version=(1, 0))
    w.one(kdrv.encrypt(uid, cparams(**CBC), b'0' * 16, b'1' * 16), 'encrypt under 1.1', version=(1, 1))


@atom()
def monitor_and_config(w):
    """Policy directory monitor and server configuration: operator-supplied names and paths reach INFO logs."""
    import json
    import os
    import signal
    import tempfile
    from kmip.services.server import monitor as mon, config as cfg
    d = tempfile.mkdtemp(dir=str(w.ctx.work))
    w.scratch.append(d)
    saved = signal.getsignal(signal.SIGINT), signal.getsignal(signal.SIGTERM)
    sec = {'preset': {'SYMMETRIC_KEY': {'GET': 'ALLOW_ALL', 'DESTROY': 'ALLOW_OWNER'}}}

    def put(name, text, t):
        fn = os.path.join(d, name)
        with open(fn, 'w') as f:
            f.write(text)
        os.utime(fn, (t, t))
    try:
        store = {}
        m = mon.PolicyDirectoryMonitor(d, store, live_monitoring=False)
        put('a.json', json.dumps({'pol-a': sec, 'pol-b': sec}), 1000)
        put('bad.json', '{"pol-x": {"preset": ', 1000)
        put('reserved.json', json.dumps({'default': sec, 'public': sec}), 1000)
        put('shape.json', json.dumps({'pol-y': {'preset': {'SYMMETRIC_KEY': {'GET': 'NOPE'}}}}), 1000)
        m.scan_policies()
        put('b.json', json.dumps({'pol-a': sec}), 2000)
        m.scan_policies()
        os.unlink(os.path.join(d, 'b.json'))
        m.scan_policies()
        os.unlink(os.path.join(d, 'a.json'))
        m.scan_policies()
        w.trace.append({'step': len(w.trace), 'monitor': sorted(store)})
    finally:
        signal.signal(signal.SIGINT, saved[0])
        signal.signal(signal.SIGTERM, saved[1])
    c = cfg.KmipServerConfig()
    conf = os.path.join(d, 'server.conf')
    for text in (None, '[client]\nhost=x\n', '[server]\nhostname=127.0.0.1\nbogus_setting=1\n', '[server]\nhostname=127.0.0.1\nport=70000\n'):
        if text is not None:
            with open(conf, 'w') as f:
                f.write(text)
        try:
            c.load_settings(conf if text is not None else os.path.join(d, 'missing.conf'))
        except Exception as e:
            w.messages.append((len(w.trace), 'client-error', '%s: %s' % (type(e).__name__, e)))
    for k, v in (('port', 'x'), ('logging_level', 'LOUD'), ('nonsense', 1), ('tls_cipher_suites', 5)):
        try:
            c.set_setting(k, v)
        except Exception as e:
            w.messages.append((len(w.trace), 'client-error', '%s: %s' % (type(e).__name__, e)))


def _learn_value(w, uid, kind):
    """Get the object and register its (server-made) value as a canary."""
    if uid is None:
        return
    g = w.one(kdrv.get(uid), 'learn value of %s' % uid)
    try:
        w.can.add(kind, bytes.fromhex(g['payload']['secret']['key_block']['key_value']['key_material']))
    except Exception:
        pass


@atom()
def batch_placeholder(w):
    """Batches in which an item that creates an object is followed by items WITHOUT a unique identifier: the ID
    placeholder set by the first item is what the later items address - and quote in their messages and log lines."""
    DM, HA = E.DerivationMethod, E.HashingAlgorithm
    base = reg_sym(w, n=32, kind='derive-base')
    salt = w.can.new('salt', 16)
    sha = cparams(hashing_algorithm=HA.SHA_256)
    hm = reg_sym(w, n=32, alg=ALG.HMAC_SHA256, kind='hmac')

    def creators():
        key = w.can.new('key-material:batch', 32)
        sd = w.can.new('secret-data', 24)
        op = w.can.new('object-value:OPAQUE_DATA', 24)
        return [('create', kdrv.create(ALG.AES, 256, mask=ALLMASK)),
                ('create_key_pair', kdrv.create_key_pair(ALG.RSA, 1024)),
                ('register-key', kdrv.register(OT.SYMMETRIC_KEY, kdrv.symmetric_key_secret(key, ALG.AES, 256), mask=ALLMASK)),
                ('register-secret', kdrv.register(OT.SECRET_DATA, kdrv.secret_for(OT.SECRET_DATA, sd))),
                ('register-opaque', kdrv.register(OT.OPAQUE_DATA, kdrv.secret_for(OT.OPAQUE_DATA, op))),
                ('derive-pbkdf2', kdrv.derive_key([base], DM.PBKDF2, dparams(cryptographic_parameters=sha, salt=salt, iteration_count=5))),
                ('derive-hash', kdrv.derive_key([base], DM.HASH, dparams(cryptographic_parameters=sha))),
                ('derive-secret-data', kdrv.derive_key([base], DM.HMAC, dparams(cryptographic_parameters=sha, derivation_data=salt), otype=OT.SECRET_DATA,
                                                       attrs=[kdrv.attr(AT.CRYPTOGRAPHIC_LENGTH, 256)])),
                ('locate', kdrv.locate([kdrv.attr(AT.OBJECT_TYPE, OT.SYMMETRIC_KEY)], maximum=1))]
    pt, iv = w.can.new('plaintext', 32), w.can.new('iv', 16)
    followers = [('get', lambda: kdrv.get(None)), ('get_attributes', lambda: kdrv.get_attributes(None)),
                 ('get_attribute_list', lambda: kdrv.get_attribute_list(None)), ('activate', lambda: kdrv.activate(None)),
                 ('revoke', lambda: kdrv.revoke(None)), ('destroy', lambda: kdrv.destroy(None)),
                 ('encrypt', lambda: kdrv.encrypt(None, cparams(**CBC), pt, iv)),
                 ('mac', lambda: kdrv.mac(None, cparams(cryptographic_algorithm=ALG.HMAC_SHA256), pt)),
                 ('sign', lambda: kdrv.sign(None, cparams(cryptographic_algorithm=ALG.RSA, padding_method=E.PaddingMethod.PSS, hashing_algorithm=HA.SHA_256), pt)),
                 ('modify', lambda: kdrv.modify_attribute_v1(None, kdrv.attr(AT.NAME, kdrv.name_value('renamed'), 0))),
                 ('delete_attribute', lambda: kdrv.delete_attribute_v1(None, 'Name', 0))]
    n = len(creators())
    for ci in range(n):
        # every follower after this creator, a few per batch (fresh creator items each time: payload objects are single use)
        for k in range(0, len(followers), 4):
            cname, citem = creators()[ci]
            fs = followers[k:k + 4]
            r = w.req([citem] + [f() for _, f in fs], 'batch %s + [%s] without identifiers' % (cname, ', '.join(x for x, _ in fs)),
                      batch_option=E.BatchErrorContinuationOption.CONTINUE)
            first = r['items'][0] if r['items'] else None
            if first is not None and kdrv.ok(first):
                p = first['payload'] or {}
                for key in ('unique_identifier', 'private_key_unique_identifier', 'public_key_unique_identifier'):
                    if p.get(key) is not None and cname != 'locate':
                        _learn_value(w, str(p[key]), 'key-material:server-made-' + cname)
    # and the same with the identifier-less item in a LATER request (the placeholder does not survive the request)
    cname, citem = creators()[5]
    w.req([citem], 'derive alone')
    w.one(kdrv.get(None), 'get without identifier in the next request')


@atom()
def oversized_values(w):
    """Values larger than 1 KiB, 8 KiB and 64 KiB for every stored object type (a storage or encoding layer that
    refuses them may quote them)."""
    sizes = [1536, 9000, 70000]
    K = E.KeyFormatType
    for ot in kdrv.STORED_TYPES:
        for n in sizes:
            val = w.can.new('object-value:oversized-' + ot.name, n)
            if ot == OT.SYMMETRIC_KEY:
                sec = kdrv.symmetric_key_secret(val, ALG.AES, n * 8)
            elif ot == OT.SPLIT_KEY:
                sec = kdrv.core_secret(ot, cryptographic_algorithm=ALG.AES, cryptographic_length=n * 8, key_format_type=K.RAW, key_value=val,
                                       key_wrapping_data=None, split_key_parts=3, key_part_identifier=1, split_key_threshold=2,
                                       split_key_method=E.SplitKeyMethod.XOR, prime_field_size=None)
            elif ot in (OT.PUBLIC_KEY, OT.PRIVATE_KEY):
                sec = kdrv.core_secret(ot, cryptographic_algorithm=ALG.RSA, cryptographic_length=1024,
                                       key_format_type=K.PKCS_1 if ot == OT.PUBLIC_KEY else K.PKCS_8, key_value=val, key_wrapping_data=None)
            else:
                sec = kdrv.secret_for(ot, val)
            uid = w.uid_of(w.one(kdrv.register(ot, sec), 'register %s of %d bytes' % (ot.name, n)))
            if uid:
                w.one(kdrv.get(uid), 'get oversized')
                w.one(kdrv.get_attributes(uid))
                w.one(kdrv.destroy(uid))
    # an oversized value in operations that do not store it
    uid = w.any('aes') or reg_sym(w)
    big = w.can.new('plaintext', 70000)
    w.one(kdrv.encrypt(uid, cparams(**CBC), big, w.can.new('iv', 16)), 'encrypt 70000 bytes')
    w.one(kdrv.mac(w.any('hmac') or reg_sym(w, n=32, alg=ALG.HMAC_SHA256, kind='hmac'), cparams(cryptographic_algorithm=ALG.HMAC_SHA256), big), 'mac 70000 bytes')


@atom()
def restart_and_reuse(w):
    w.eng.restart()
    w.eng.engine._logger.setLevel(logging.NOTSET)
    uid = w.any('aes')
    if uid:
        w.one(kdrv.get(uid), 'get after restart')


# ---------------------------------------------------------------------------------------------- session layer
import c20_hist as HH


def _register_item(w, key):
    return kdrv.register(OT.SYMMETRIC_KEY, kdrv.symmetric_key_secret(key, ALG.AES, len(key) * 8), mask=ALLMASK)


@atom(layer='session')
def sess_auth_password(w):
    """Requests that carry a username/password credential (the password is a canary) under every certificate shape."""
    pw = w.can.new('password', 20, text=True).decode()
    auth = HH.password_auth('alice', pw)
    key = w.can.new('key-material:session', 32)
    frames = [HH.encode_request(w, [_register_item(w, key)], auth=auth),
              HH.encode_request(w, [kdrv.get('1')], auth=auth),
              HH.encode_request(w, [kdrv.get('404')], auth=auth),
              HH.encode_request(w, [kdrv.get('1')], auth=auth, version=(9, 9)) if False else HH.encode_request(w, [kdrv.get('1')], auth=auth, asynchronous=True),
              HH.encode_request(w, [kdrv.get('1')], auth=auth, max_size=40),
              HH.encode_request(w, [kdrv.destroy('1'), kdrv.get('1')], auth=auth, version=(1, 4))]
    HH.run_session(w, b''.join(frames), label='good certificate')
    one = HH.encode_request(w, [kdrv.get('1')], auth=auth)
    for cns, eku, lab in ((['alice'], 'absent', 'no eku'), (['alice'], 'server', 'server-only eku'),
                          (['alice', 'bob'], 'client', 'two common names'), ([], 'client', 'no common name')):
        HH.run_session(w, one, cert=HH.make_cert(cns, eku), label=lab)
    HH.run_session(w, one, cert=None, label='no certificate')
    HH.run_session(w, one, cert=HH.make_cert(['alice'], 'absent'), tls_auth=False, label='eku check disabled')
    HH.run_session(w, one, cert=HH.make_cert(['mallory'], 'client'), label='other user')
    import ssl
    HH.run_session(w, one, handshake_error=ssl.SSLError(1, 'handshake failure (scripted)'), label='handshake failure')


class _Resp:
    def __init__(self, code, body=None):
        self.status_code = code
        self._body = body or {}

    def json(self):
        return self._body


@atom(layer='session')
def sess_slugs(w):
    from kmip.services.server.auth import slugs as slugs_mod
    pw = w.can.new('password', 24, text=True).decode()
    auth = HH.password_auth('alice', pw)
    one = HH.encode_request(w, [kdrv.get('1')], auth=auth)
    real = slugs_mod.requests.get
    script = {}

    def fake_get(url, timeout=None):
        kind = 'groups' if url.endswith('/groups') else 'user'
        o = script[kind]
        if o == 'unreachable':
            raise ConnectionError('scripted: unreachable ' + url)
        return _Resp(*o)
    slugs_mod.requests.get = fake_get
    try:
        on = [('auth:slugs', {'enabled': 'True', 'url': 'http://slugs.invalid/slugs/'})]
        for user, groups, lab in (('unreachable', None, 'slugs unreachable'), ((404,), None, 'unknown user'),
                                  ((200,), (404,), 'no group info'), ((200,), (200, {'groups': ['g1']}), 'slugs ok'),
                                  ((200,), 'unreachable', 'groups unreachable')):
            script['user'], script['groups'] = user, groups
            HH.run_session(w, one, auth_settings=on, label=lab)
        HH.run_session(w, one, auth_settings=[('auth:slugs', {'enabled': 'True', 'url': None})], label='slugs url missing')
        HH.run_session(w, one, auth_settings=[('auth:ldap', {'enabled': 'True'})], label='unsupported plugin')
        HH.run_session(w, one, auth_settings=[('auth:slugs', {'enabled': 'False', 'url': 'http://slugs.invalid/'})], label='plugin disabled')
    finally:
        slugs_mod.requests.get = real


@atom(layer='session')
def sess_malformed(w):
    """Undecodable requests that carry key bytes and a password."""
    import struct as st
    pw = w.can.new('password', 20, text=True).decode()
    key = w.can.new('key-material:malformed-request', 32)
    pt = w.can.new('plaintext', 32)
    good = HH.encode_request(w, [_register_item(w, key)], auth=HH.password_auth('alice', pw))
    enc = HH.encode_request(w, [kdrv.encrypt('1', cparams(**CBC), pt, w.can.new('iv', 16))], auth=HH.password_auth('alice', pw))

    def relen(body):
        return good[:4] + st.pack('!I', len(body)) + body
    variants = []
    body = good[8:]
    variants.append(('truncated body', relen(body[:len(body) - 9])))
    variants.append(('truncated inside key', relen(body[:body.find(key) + 11])))
    variants.append(('trailing garbage', relen(body + key)))
    variants.append(('garbage with key', b'\x42\x00\x78\x01' + st.pack('!I', 48) + key + b'\x00' * 16))
    variants.append(('wrong root tag', b'\x42\x00\x7b' + good[3:]))
    k = good.find(key)
    for off, lab in ((k - 5, 'key item type byte'), (k - 1, 'key item length'), (k - 8, 'key item tag'), (k - 16, 'enclosing struct')):
        b = bytearray(good)
        b[off] ^= 0x0f
        variants.append(('flip ' + lab, bytes(b)))
    for j in range(24):
        b = bytearray(w.rng.choice([good, enc]))
        off = w.rng.randrange(8, len(b))
        b[off] ^= 1 << w.rng.randrange(8)
        variants.append(('flip byte %d' % off, bytes(b)))
    for lab, data in variants:
        HH.run_session(w, data, label='malformed: ' + lab)
    HH.run_session(w, good[:4] + st.pack('!I', len(body) + 50) + body, label='advertised length too long (peer closes)')
    HH.run_session(w, b''.join(v for _, v in variants[:6]) + good, label='several malformed frames then a good one')
    HH.run_session(w, HH.encode_request(w, [kdrv.get('1')], version=(1, 2))[:8] + b'', label='header only')


@atom(layer='session')
def sess_structured_failures(w):
    """Canary-carrying requests that fail to decode or to validate at every nesting level: the TTLV tree of a good
    request is edited (type of an item changed - including Structure-typed key material under each key format -,
    items after the secret dropped, duplicated or ill-typed) and re-encoded with consistent lengths."""
    import copy
    pw = w.can.new('password', 20, text=True).decode()
    auth = HH.password_auth('alice', pw)
    K = E.KeyFormatType
    key = w.can.new('key-material:structured-request', 32)
    sd = w.can.new('secret-data', 24)
    pt, iv, salt = w.can.new('plaintext', 32), w.can.new('iv', 16), w.can.new('salt', 16)
    reqs = [('register-key', [_register_item(w, key)], key),
            ('register-secret-data', [kdrv.register(OT.SECRET_DATA, kdrv.secret_for(OT.SECRET_DATA, sd))], sd),
            ('encrypt', [kdrv.encrypt('1', cparams(**CBC), pt, iv)], pt),
            ('derive', [kdrv.derive_key(['1'], E.DerivationMethod.PBKDF2, dparams(cryptographic_parameters=cparams(hashing_algorithm=E.HashingAlgorithm.SHA_256),
                                                                                 salt=salt, iteration_count=10))], salt)]
    priv, _ = rsa_pair(w)
    w.can.add('key-material:rsa-private', priv)
    reqs.append(('register-private-key', [kdrv.register(OT.PRIVATE_KEY, kdrv.core_secret(
        OT.PRIVATE_KEY, cryptographic_algorithm=ALG.RSA, cryptographic_length=1024, key_format_type=K.PKCS_8, key_value=priv,
        key_wrapping_data=None), mask=(MASK.SIGN,))], priv))
    frames = []
    for name, items, secret in reqs:
        good = HH.encode_request(w, items, auth=auth)
        tree = HH.ttlv_parse(good)
        paths = list(HH.ttlv_paths(tree))
        # the node that holds the secret, and everything at or after it in document order
        spos = next((k for k, p in enumerate(paths) if not isinstance(HH.ttlv_get(tree, p)[2], list) and secret[:16] in HH.ttlv_get(tree, p)[2]), 0)
        anc = [paths[spos][:k] for k in range(1, len(paths[spos]))]
        targets = anc + paths[spos:]
        for p in targets:
            node = HH.ttlv_get(tree, p)
            for typ in (1, 2, 5, 6, 7, 8, 9, 0x0b):
                if typ == node[1]:
                    continue
                t = copy.deepcopy(tree)
                n = HH.ttlv_get(t, p)
                n[1] = typ
                if isinstance(n[2], list):
                    n[2] = HH.ttlv_build(n[2])
                frames.append(('%s: item %06x at %s typed %d' % (name, node[0], p, typ), HH.ttlv_build(t)))
            t = copy.deepcopy(tree)
            sib = HH.ttlv_siblings(t, p)
            del sib[p[-1] + 1:]
            frames.append(('%s: everything after item %06x at %s dropped' % (name, node[0], p), HH.ttlv_build(t)))
            t = copy.deepcopy(tree)
            sib = HH.ttlv_siblings(t, p)
            sib.insert(p[-1], copy.deepcopy(sib[p[-1]]))
            frames.append(('%s: item %06x at %s duplicated' % (name, node[0], p), HH.ttlv_build(t)))
            t = copy.deepcopy(tree)
            sib = HH.ttlv_siblings(t, p)
            del sib[p[-1]]
            frames.append(('%s: item %06x at %s removed' % (name, node[0], p), HH.ttlv_build(t)))
        if name.startswith('register-key') or name == 'register-private-key':
            # Structure-typed key material (a transparent key) under each key format type
            kv = paths[spos]
            fmt_path = next((p for p in paths if HH.ttlv_get(tree, p)[0] == 0x420042), None)
            for fmt in (K.RAW, K.OPAQUE, K.PKCS_1, K.PKCS_8, K.X_509, K.TRANSPARENT_SYMMETRIC_KEY, K.TRANSPARENT_RSA_PRIVATE_KEY, K.TRANSPARENT_EC_PRIVATE_KEY):
                for inner_tag in (0x42003f, 0x420043, 0x420051):      # Key, Key Material, Modulus
                    t = copy.deepcopy(tree)
                    n = HH.ttlv_get(t, kv)
                    n[1] = 1
                    n[2] = [[inner_tag, 8 if inner_tag != 0x420051 else 4, secret]]
                    if fmt_path is not None:
                        HH.ttlv_get(t, fmt_path)[2] = fmt.value.to_bytes(4, 'big')
                    frames.append(('%s: structure-typed key material {%06x} under %s' % (name, inner_tag, fmt.name), HH.ttlv_build(t)))
    # VALUE-level corruption that keeps the structure intact: every text field (password, user name, device fields,
    # identifiers, attribute names, name values) is made invalid UTF-8 by one byte appended / replaced / inserted.
    dpw = w.can.new('password', 24, text=True).decode()
    dev = contents.Authentication(credentials=[cobjects.Credential(
        credential_type=E.CredentialType.DEVICE,
        credential_value=cobjects.DeviceCredential(device_serial_number='serial-0001', password=dpw, device_identifier='device-7',
                                                   network_identifier='net-3', machine_identifier='machine-9', media_identifier='media-2'))])
    text_reqs = [(n, HH.encode_request(w, items, auth=auth)) for n, items, _ in reqs[:2]]
    text_reqs.append(('get-with-device-credential', HH.encode_request(w, [kdrv.get('1')], auth=dev)))
    text_reqs.append(('register-named-with-device-credential', HH.encode_request(
        w, [kdrv.register(OT.SYMMETRIC_KEY, kdrv.symmetric_key_secret(key, ALG.AES, 256), names=['name-of-the-key'])], auth=dev)))
    for name, good in text_reqs:
        tree = HH.ttlv_parse(good)
        for p in HH.ttlv_paths(tree):
            node = HH.ttlv_get(tree, p)
            if node[1] != 7 or not node[2]:
                continue
            v = bytes(node[2])
            h = len(v) // 2
            for lab, nv in (('append e9', v + b'\xe9'), ('last byte e9', v[:-1] + b'\xe9'), ('insert ff in the middle', v[:h] + b'\xff' + v[h:]),
                            ('append truncated c3', v + b'\xc3'), ('first byte 80', b'\x80' + v[1:])):
                t = copy.deepcopy(tree)
                HH.ttlv_get(t, p)[2] = nv
                frames.append(('%s: text item %06x at %s: %s' % (name, node[0], p, lab), HH.ttlv_build(t)))
    w.opcount['structured_frames'] += len(frames)
    # one connection per 25 frames (a failed frame does not end the connection)
    for k in range(0, len(frames), 25):
        chunk = frames[k:k + 25]
        HH.run_session(w, b''.join(f for _, f in chunk), label='structured failures %d-%d: %s ...' % (k, k + len(chunk) - 1, chunk[0][0]))
    w.trace.append({'step': len(w.trace), 'structured_frames': [n for n, _ in frames][:400]})


@atom(layer='session')
def sess_credential_types(w):
    """One request of every operation kind (succeeding and failing) through the real session, with each credential
    TYPE in the request header: Username/Password, Device (every field, incl. its password), Attestation (nonce,
    measurement, assertion) - every secret-ish field a canary."""
    DM, HA = E.DerivationMethod, E.HashingAlgorithm
    for kind in ('password', 'device', 'attestation'):
        auth = w.header_auth(kind)
        key = w.can.new('key-material:session-' + kind, 32)
        pt, iv = w.can.new('plaintext', 32), w.can.new('iv', 16)
        uid = w.uid_of(w.one(_register_item(w, key), 'register for ' + kind, auth=auth))
        w.one(kdrv.activate(uid), auth=auth)
        reqs = [[_register_item(w, w.can.new('key-material:session-' + kind, 16))], [kdrv.create(ALG.AES, 128)], [kdrv.create_key_pair(ALG.RSA, 1024)],
                [kdrv.get(uid)], [kdrv.get('4040')], [kdrv.get_attributes(uid)], [kdrv.get_attribute_list(uid)], [kdrv.locate()], [kdrv.query()],
                [kdrv.discover_versions()], [kdrv.encrypt(uid, cparams(**CBC), pt, iv)], [kdrv.encrypt(uid, cparams(**CBC), pt, iv[:5])],
                [kdrv.decrypt(uid, cparams(**CBC), pt, iv)], [kdrv.mac(uid, cparams(cryptographic_algorithm=ALG.HMAC_SHA256), pt)],
                [kdrv.sign(uid, cparams(cryptographic_algorithm=ALG.RSA, padding_method=E.PaddingMethod.PSS, hashing_algorithm=HA.SHA_256), pt)],
                [kdrv.derive_key([uid], DM.PBKDF2, dparams(cryptographic_parameters=cparams(hashing_algorithm=HA.SHA_256), salt=w.can.new('salt', 16), iteration_count=3))],
                [kdrv.modify_attribute_v1(uid, kdrv.attr(AT.NAME, kdrv.name_value('n'), 0))], [kdrv.delete_attribute_v1(uid, 'Name', 0)],
                [kdrv.destroy(uid)], [kdrv.revoke(uid)], [kdrv.destroy(uid)], [kdrv.get(uid), kdrv.get(None)]]
        frames = b''.join(HH.encode_request(w, items, auth=auth, version=(1, 4)) for items in reqs)
        HH.run_session(w, frames, label='every operation with a %s credential' % kind)
        HH.run_session(w, HH.encode_request(w, [kdrv.get('1')], auth=auth, version=(1, 4)), cert=HH.make_cert(['mallory'], 'client'),
                       label='%s credential, other certificate identity' % kind)
        HH.run_session(w, HH.encode_request(w, [kdrv.get('1')], auth=auth, version=(1, 4)), cert=HH.make_cert(['alice', 'bob'], 'client'),
                       label='%s credential, authentication fails' % kind)
        w.one(kdrv.get(uid), 'engine: other user, %s credential' % kind, auth=auth, user='mallory')
        w.one(kdrv.get(uid), 'engine: group user, %s credential' % kind, auth=auth, user='bob', groups=['g1'])


@atom(layer='session')
def sess_split_keys(w):
    """Split Key objects with every split-key method and several prime field sizes (below / above the key part as a
    number), Register + Get through the real session (decode of the request, encode of the response) and the engine."""
    pw = w.can.new('password', 20, text=True).decode()
    auth = HH.password_auth('alice', pw)
    K = E.KeyFormatType
    primes = [None, 257, 2 ** 61 - 1, 2 ** 127 - 1, 2 ** 255 - 19, 2 ** 521 - 1]
    for method in E.SplitKeyMethod:
        for prime in primes:
            for n in (16, 32):
                part = w.can.new('key-material:split-key-part', n)
                def secret():
                    return kdrv.core_secret(OT.SPLIT_KEY, cryptographic_algorithm=ALG.AES, cryptographic_length=n * 8, key_format_type=K.RAW,
                                            key_value=part, key_wrapping_data=None, split_key_parts=3, key_part_identifier=1,
                                            split_key_threshold=2, split_key_method=method, prime_field_size=prime)
                lab = 'split key %s prime=%s part of %d bytes' % (method.name, prime if prime is None else '2^%d..' % prime.bit_length(), n)
                try:
                    frame = HH.encode_request(w, [kdrv.register(OT.SPLIT_KEY, secret()), kdrv.get(None)], auth=auth, version=(1, 4))
                except Exception as e:      # the client side encoder refuses it: that text is the caller's own
                    w.messages.append((len(w.trace), 'client-error', '%s: %s' % (type(e).__name__, e)))
                    frame = None
                if frame is not None:
                    HH.run_session(w, frame, label=lab + ': Register + Get through the session')
                # stored through the engine (no encoding involved), then fetched through the session (response encoding)
                uid = w.uid_of(w.one(kdrv.register(OT.SPLIT_KEY, secret()), lab + ': Register through the engine'))
                if uid:
                    try:
                        HH.run_session(w, HH.encode_request(w, [kdrv.get(uid)], auth=auth, version=(1, 4)), label=lab + ': Get through the session')
                    except Exception as e:
                        w.messages.append((len(w.trace), 'client-error', '%s: %s' % (type(e).__name__, e)))


# ---------------------------------------------------------------------------------------------- server start-up
@atom(layer='server')
def server_startup(w):
    """KmipServer built the way bin/run_server.py builds it, from configuration files with and without a
    logging_level line (every accepted spelling) and with the constructor argument; the EFFECTIVE levels of the
    loggers the sessions and the engine use are read back, one canary request goes through
    _setup_connection_handler on a fake connection with the handlers the server attached, and what was actually
    WRITTEN to the server's log file is what gets scanned."""
    import os
    import tempfile
    import threading
    from kmip.services.server import server as server_mod
    d = tempfile.mkdtemp(dir=str(w.ctx.work))
    w.scratch.append(d)
    for fn in ('server.crt', 'server.key', 'ca.crt'):
        open(os.path.join(d, fn), 'w').close()
    os.mkdir(os.path.join(d, 'policies'))
    base = ('[server]\nhostname=127.0.0.1\nport=5696\ncertificate_path={d}/server.crt\nkey_path={d}/server.key\n'
            'ca_path={d}/ca.crt\nauth_suite=TLS1.2\npolicy_path={d}/policies\ndatabase_path={d}/unused.db\n').format(d=d)
    variants = [('no logging_level line', base, None), ('no level, other optional settings', base + 'enable_tls_client_auth=False\ntls_cipher_suites=\n', None)]
    for spelling in ('INFO', 'info', 'Info', 'WARNING', 'warning', 'ERROR', 'CRITICAL', 'DEBUG', 'debug'):
        variants.append(('logging_level=%s' % spelling, base + 'logging_level=%s\n' % spelling, None))
    for arg in ('INFO', 'WARNING', 'DEBUG'):
        variants.append(('constructor logging_level=%s' % arg, base, arg))
    variants.append(('file says DEBUG, constructor says INFO', base + 'logging_level=DEBUG\n', 'INFO'))
    pw = w.can.new('password', 20, text=True).decode()
    auth = HH.password_auth('alice', pw)
    srv_logger = logging.getLogger('kmip.server')
    for k, (lab, conf, arg) in enumerate(variants):
        key = w.can.new('key-material:server-startup', 32)
        cpath = os.path.join(d, 'server-%02d.conf' % k)
        lpath = os.path.join(d, 'log-%02d' % k, 'server.log')
        with open(cpath, 'w') as f:
            f.write(conf)
        before = list(srv_logger.handlers)
        saved_level = srv_logger.level
        ent = {'step': len(w.trace), 'server': lab}
        try:
            srv = server_mod.KmipServer(config_path=cpath, log_path=lpath, logging_level=arg)
            srv._engine = w.eng.engine
            w.eng.engine._logger.setLevel(logging.NOTSET)           # as in a deployment: the engine logger inherits
            frames = (HH.encode_request(w, [_register_item(w, key)], auth=auth) + HH.encode_request(w, [kdrv.get('404')], auth=auth))
            conn = HH.FakeConn(frames, HH.make_cert(['alice'], 'client'))
            name = '{0:08}'.format(srv._session_id)
            srv._setup_connection_handler(conn, ('192.0.2.7', 5696))
            for t in threading.enumerate():
                if t.name == name:
                    t.join(30)
            eff = {n: logging.getLogger(n).getEffectiveLevel() for n in
                   ('kmip.server', 'kmip.server.session.' + name, 'kmip.server.engine', 'kmip.server.engine.cryptography', 'kmip.server.config')}
            mine = [h for h in srv_logger.handlers if h not in before]
            ent['effective'] = eff
            ent['handler_levels'] = [h.level for h in mine]
            requested = (arg or ([l.split('=')[1] for l in conf.splitlines() if l.startswith('logging_level=')] or [None])[0])
            w.level_checks.append({'variant': lab, 'requested': requested.upper() if requested else None, 'effective': eff,
                                   'handler_levels': ent['handler_levels'], 'config': conf.replace(d, '<tmp>'), 'constructor_logging_level': arg})
            for h in mine:
                h.flush()
            text = open(lpath, errors='replace').read() if os.path.exists(lpath) else ''
            ent['log_bytes'] = len(text)
            w.written.append((len(w.trace), lab, requested.upper() if requested else None, text))
            for st_, reason, msg in [m for fr in HH.split_frames(conn.sent) for m in (HH.response_messages(fr) or [])]:
                if msg is not None:
                    w.messages.append((len(w.trace), 'message', msg))
        except Exception as e:
            ent['exception'] = repr(e)
            w.messages.append((len(w.trace), 'client-error', 'server start-up: %r' % e))
        finally:
            for h in [h for h in srv_logger.handlers if h not in before]:
                srv_logger.removeHandler(h)
                h.close()
            srv_logger.setLevel(saved_level)
        w.trace.append(ent)


# ---------------------------------------------------------------------------------------------- pie client
@atom(layer='client')
def client_io_failures(w):
    """Client-side I/O failures at every stage (send, partial send, receive, partial receive, peer closes, close; the
    connect stage is in client_ops) for every client operation that carries secrets - key material, secret data,
    plaintext, ciphertext, salts - with a password credential in every request header."""
    import socket
    import ssl
    from kmip.pie import objects as pobj
    from kmip.services.kmip_protocol import KMIPProtocol
    pw = w.can.new('password', 20, text=True).decode()
    cl = HH.make_client(w, username='alice', password=pw)
    C = HH.client_call
    key = w.can.new('key-material:client-io', 32)
    uid = C(w, 'register', cl.register, pobj.SymmetricKey(ALG.AES, 256, key, masks=list(ALLMASK)))
    C(w, 'activate', cl.activate, uid)
    sd = w.can.new('secret-data', 24)
    sid = C(w, 'register secret', cl.register, pobj.SecretData(sd, E.SecretDataType.PASSWORD, masks=[MASK.DERIVE_KEY]))
    pt, iv, salt = w.can.new('plaintext', 48), w.can.new('iv', 16), w.can.new('salt', 16)
    cp_ = {'cryptographic_algorithm': ALG.AES, 'block_cipher_mode': E.BlockCipherMode.CBC, 'padding_method': E.PaddingMethod.PKCS5}
    r = C(w, 'encrypt', cl.encrypt, pt, uid=uid, cryptographic_parameters=cp_, iv_counter_nonce=iv)
    ct = r[0] if r else pt
    ops = [('register-key', lambda: cl.register(pobj.SymmetricKey(ALG.AES, 256, w.can.new('key-material:client-io', 32), masks=[MASK.ENCRYPT]))),
           ('register-secret-data', lambda: cl.register(pobj.SecretData(w.can.new('secret-data', 24), E.SecretDataType.PASSWORD))),
           ('register-opaque', lambda: cl.register(pobj.OpaqueObject(w.can.new('object-value:OPAQUE_DATA', 24), E.OpaqueDataType.NONE))),
           ('get-key', lambda: cl.get(uid)), ('get-secret-data', lambda: cl.get(sid)),
           ('encrypt', lambda: cl.encrypt(pt, uid=uid, cryptographic_parameters=cp_, iv_counter_nonce=iv)),
           ('decrypt', lambda: cl.decrypt(ct, uid=uid, cryptographic_parameters=cp_, iv_counter_nonce=iv)),
           ('mac', lambda: cl.mac(pt, uid, ALG.HMAC_SHA256)),
           ('sign', lambda: cl.sign(pt, uid=uid, cryptographic_parameters={'cryptographic_algorithm': ALG.RSA, 'padding_method': E.PaddingMethod.PSS,
                                                                          'hashing_algorithm': E.HashingAlgorithm.SHA_256})),
           ('derive_key', lambda: cl.derive_key(OT.SYMMETRIC_KEY, [uid], E.DerivationMethod.PBKDF2,
                                                {'cryptographic_parameters': {'hashing_algorithm': E.HashingAlgorithm.SHA_256}, 'salt': salt, 'iteration_count': 3},
                                                cryptographic_length=128, cryptographic_algorithm=ALG.AES)),
           ('create', lambda: cl.create(ALG.AES, 128)), ('get_attributes', lambda: cl.get_attributes(uid)), ('locate', lambda: cl.locate()),
           ('proxy-get', lambda: cl.proxy.get(uid))]
    faults = [('send', BrokenPipeError(32, 'Broken pipe'), 0), ('send', ConnectionResetError(104, 'Connection reset by peer'), 0),
              ('send', socket.timeout('timed out'), 0), ('send', ssl.SSLError(1, 'bad record mac (scripted)'), 0),
              ('send-partial', BrokenPipeError(32, 'Broken pipe'), 8), ('send-partial', ConnectionResetError(104, 'Connection reset by peer'), 120),
              ('recv', ConnectionResetError(104, 'Connection reset by peer'), 0), ('recv', socket.timeout('timed out'), 0),
              ('recv-partial', ConnectionResetError(104, 'Connection reset by peer'), 8), ('recv-partial', socket.timeout('timed out'), 100),
              ('recv-eof', None, 0), ('recv-eof', None, 60)]
    for oname, fn in ops:
        for stage, exc, at in faults:
            sock = HH.FaultySocket(w, stage, exc, at)
            cl.proxy.protocol = KMIPProtocol(sock)
            cl.proxy.socket = sock
            C(w, '%s io:%s:%s@%d' % (oname, stage, type(exc).__name__ if exc else 'eof', at), fn)
    for exc in (OSError(107, 'Transport endpoint is not connected'), ssl.SSLError(1, 'shutdown while in init (scripted)')):
        cl2 = HH.make_client(w, username='alice', password=pw)
        cl2.proxy.socket = HH.FaultySocket(w, 'close', exc)
        C(w, 'close io:close:%s' % type(exc).__name__, cl2.close)
    cl.proxy.socket = None


@atom(layer='client')
def client_config_files(w):
    """KMIPProxy and ProxyKmipClient built from temporary pykmip.conf files whose password carries a canary together
    with ConfigParser metacharacters (no request is sent: reading the configuration is the whole history)."""
    import os
    import tempfile
    from kmip.pie import client as pie_client
    from kmip.services import kmip_client
    d = tempfile.mkdtemp(dir=str(w.ctx.work))
    w.scratch.append(d)

    def variants():
        a = w.can.new('password-part', 12, text=True).decode()
        b = w.can.new('password-part', 12, text=True).decode()
        return a, b
    shapes = [('plain', '{a}{b}'), ('percent', '{a}%{b}'), ('trailing percent', '{a}{b}%'), ('leading percent', '%{a}{b}'),
              ('unknown key', '{a}%(x)s{b}'), ('self reference', '{a}%(password)s{b}'), ('known key', '{a}%(host)s{b}'),
              ('doubled percent', '{a}%%{b}'), ('unterminated key', '{a}%({b}'), ('bad conversion', '{a}%(host)d{b}'),
              ('spaces', '  {a} {b}  '), ('continuation line', '{a}\n    {b}'), ('dollar brace', '{a}${{x}}{b}'),
              ('equals and colon', '{a}=:{b}'), ('hash and semicolon', '{a} #;{b}'), ('quotes', '"{a}\'{b}"'), ('brackets', '[{a}]{b}')]
    for k, (lab, shape) in enumerate(shapes):
        a, b = variants()
        value = shape.format(a=a, b=b)
        w.can.add('password', value.replace('\n    ', '').encode())
        path = os.path.join(d, 'pykmip-%02d.conf' % k)
        with open(path, 'w') as f:
            f.write('[client]\nhost=127.0.0.1\nport=5696\nusername=user%name\nkeyfile=/etc/pykmip/%(nokey)s/client.key\n'
                    'certfile=/etc/pykmip/cert %% .pem\nca_certs=\ncert_reqs=CERT_REQUIRED\nssl_version=PROTOCOL_SSLv23\n'
                    'do_handshake_on_connect=True\nsuppress_ragged_eofs=True\ntimeout=%(port)s\npassword=' + value + '\n'
                    '[other]\npassword=' + value + '\n')
        for label, build in (('KMIPProxy', lambda: kmip_client.KMIPProxy(config='client', config_file=path)),
                             ('KMIPProxy-other-section', lambda: kmip_client.KMIPProxy(config='other', config_file=path)),
                             ('KMIPProxy-missing-section', lambda: kmip_client.KMIPProxy(config='nosuch', config_file=path)),
                             ('ProxyKmipClient', lambda: pie_client.ProxyKmipClient(config='client', config_file=path))):
            HH.client_call(w, '%s config:%s' % (label, lab), build)
    HH.client_call(w, 'KMIPProxy config:missing file', lambda: kmip_client.KMIPProxy(config_file=os.path.join(d, 'absent.conf')))
    with open(os.path.join(d, 'garbage.conf'), 'w') as f:
        f.write('password=' + w.can.new('password', 20, text=True).decode() + '\nno section header\n')
    HH.client_call(w, 'KMIPProxy config:no section header', lambda: kmip_client.KMIPProxy(config_file=os.path.join(d, 'garbage.conf')))


@atom(layer='client')
def client_cut_responses(w):
    """The connection drops inside a canary-carrying response: every cut offset (before / inside / after the 8-byte
    header, mid-body) for Get of a key, a coarser grid for Get of secret data and for Decrypt."""
    from kmip.pie import objects as pobj
    from kmip.services.kmip_protocol import KMIPProtocol
    pw = w.can.new('password', 20, text=True).decode()
    cl = HH.make_client(w, username='alice', password=pw)
    C = HH.client_call
    key = w.can.new('key-material:client-cut', 32)
    uid = C(w, 'register', cl.register, pobj.SymmetricKey(ALG.AES, 256, key, masks=list(ALLMASK)))
    sd = w.can.new('secret-data', 24)
    sid = C(w, 'register secret', cl.register, pobj.SecretData(sd, E.SecretDataType.PASSWORD))
    C(w, 'activate', cl.activate, uid)
    pt, iv = w.can.new('plaintext', 48), w.can.new('iv', 16)
    cp_ = {'cryptographic_algorithm': ALG.AES, 'block_cipher_mode': E.BlockCipherMode.CBC, 'padding_method': E.PaddingMethod.PKCS5}
    r = C(w, 'encrypt', cl.encrypt, pt, uid=uid, cryptographic_parameters=cp_, iv_counter_nonce=iv)
    ct = r[0] if r else pt

    def cut_calls(label, step, fn, *a, **kw):
        probe = HH.CutLoopback(w, 10 ** 9)
        cl.proxy.protocol = KMIPProtocol(probe)
        C(w, label + ' uncut', fn, *a, **kw)
        total = probe.full
        for cut in sorted(set(list(range(0, 17)) + list(range(17, total + 1, step)) + [total - 1, total - 8])):
            if cut < 0:
                continue
            cl.proxy.protocol = KMIPProtocol(HH.CutLoopback(w, cut))
            C(w, '%s cut-at-%d-of-%d' % (label, cut, total), fn, *a, **kw)
    cut_calls('get-key', 1, cl.get, uid)
    cut_calls('get-secret', 5, cl.get, sid)
    cut_calls('decrypt', 5, cl.decrypt, ct, uid=uid, cryptographic_parameters=cp_, iv_counter_nonce=iv)
    # the same through the lower-level KMIPProxy API
    from kmip.core.factories import credentials as credf
    cut_calls('proxy-get', 9, cl.proxy.get, uid)



@atom(layer='client')
def client_ops(w):
    from kmip.pie import objects as pobj
    pw = w.can.new('password', 20, text=True).decode()
    cl = HH.make_client(w, username='alice', password=pw)
    C = HH.client_call
    key = w.can.new('key-material:client', 32)
    uid = C(w, 'register', cl.register, pobj.SymmetricKey(ALG.AES, 256, key, masks=list(ALLMASK), name='client key'))
    sd = w.can.new('secret-data', 16)
    sid = C(w, 'register secret', cl.register, pobj.SecretData(sd, E.SecretDataType.PASSWORD, masks=[MASK.DERIVE_KEY]))
    C(w, 'get', cl.get, uid)
    C(w, 'get ghost', cl.get, '4040')
    C(w, 'get_attributes', cl.get_attributes, uid)
    C(w, 'get_attribute_list ghost', cl.get_attribute_list, '4040')
    C(w, 'destroy ghost', cl.destroy, '4040')
    pt, iv = w.can.new('plaintext', 32), w.can.new('iv', 16)
    cp_ = {'cryptographic_algorithm': ALG.AES, 'block_cipher_mode': E.BlockCipherMode.CBC, 'padding_method': E.PaddingMethod.PKCS5}
    C(w, 'encrypt preactive', cl.encrypt, pt, uid=uid, cryptographic_parameters=cp_, iv_counter_nonce=iv)
    C(w, 'activate', cl.activate, uid)
    C(w, 'activate twice', cl.activate, uid)
    r = C(w, 'encrypt', cl.encrypt, pt, uid=uid, cryptographic_parameters=cp_, iv_counter_nonce=iv)
    if r:
        C(w, 'decrypt', cl.decrypt, r[0], uid=uid, cryptographic_parameters=cp_, iv_counter_nonce=iv)
        C(w, 'decrypt truncated', cl.decrypt, r[0][:-5], uid=uid, cryptographic_parameters=cp_, iv_counter_nonce=iv)
    C(w, 'encrypt bad iv', cl.encrypt, pt, uid=uid, cryptographic_parameters=cp_, iv_counter_nonce=iv[:5])
    C(w, 'encrypt no params', cl.encrypt, pt, uid=uid)
    C(w, 'encrypt bad data type', cl.encrypt, 'not bytes', uid=uid)
    C(w, 'mac', cl.mac, pt, uid, ALG.HMAC_SHA256)
    C(w, 'mac bad algorithm', cl.mac, pt, uid, ALG.RSA)
    C(w, 'sign with aes key', cl.sign, pt, uid=uid, cryptographic_parameters={'cryptographic_algorithm': ALG.RSA, 'padding_method': E.PaddingMethod.PSS,
                                                                              'hashing_algorithm': E.HashingAlgorithm.SHA_256})
    salt = w.can.new('salt', 16)
    C(w, 'derive_key', cl.derive_key, OT.SYMMETRIC_KEY, [uid], E.DerivationMethod.PBKDF2,
      {'cryptographic_parameters': {'hashing_algorithm': E.HashingAlgorithm.SHA_256}, 'salt': salt, 'iteration_count': 10},
      cryptographic_length=128, cryptographic_algorithm=ALG.AES)
    C(w, 'derive_key no salt', cl.derive_key, OT.SYMMETRIC_KEY, [uid], E.DerivationMethod.PBKDF2,
      {'cryptographic_parameters': {'hashing_algorithm': E.HashingAlgorithm.SHA_256}, 'iteration_count': 10},
      cryptographic_length=128, cryptographic_algorithm=ALG.AES)
    C(w, 'derive_key from secret without bit', cl.derive_key, OT.SYMMETRIC_KEY, [sid], E.DerivationMethod.HASH,
      {'cryptographic_parameters': {'hashing_algorithm': E.HashingAlgorithm.SHA_256}}, cryptographic_length=128, cryptographic_algorithm=ALG.AES)
    C(w, 'get wrapped', cl.get, sid, {'wrapping_method': E.WrappingMethod.ENCRYPT,
                                       'encryption_key_information': {'unique_identifier': uid, 'cryptographic_parameters': {'block_cipher_mode': E.BlockCipherMode.NIST_KEY_WRAP}}})
    C(w, 'create', cl.create, ALG.AES, 256)
    C(w, 'create bad length', cl.create, ALG.AES, 257)
    C(w, 'create_key_pair', cl.create_key_pair, ALG.RSA, 1024)
    C(w, 'locate', cl.locate)
    C(w, 'destroy active', cl.destroy, uid)
    C(w, 'revoke', cl.revoke, E.RevocationReasonCode.KEY_COMPROMISE, uid)
    C(w, 'destroy', cl.destroy, uid)
    C(w, 'register bad object', cl.register, 'not an object')
    # a second client speaking 2.0 and one with a foreign certificate identity
    cl2 = HH.make_client(w, version=E.KMIPVersion.KMIP_2_0, username='alice', password=pw)
    k2 = w.can.new('key-material:client', 16)
    u2 = C(w, 'register 2.0', cl2.register, pobj.SymmetricKey(ALG.AES, 128, k2, masks=[MASK.ENCRYPT]))
    C(w, 'get 2.0', cl2.get, u2)
    C(w, 'get ghost 2.0', cl2.get, '4041')
    # opening a real connection fails (nothing listens): the client logs the connection error
    from kmip.pie import client as pie_client
    cl3 = pie_client.ProxyKmipClient(hostname='127.0.0.1', port=1, username='alice', password=pw)
    C(w, 'open unreachable', cl3.open)
    C(w, 'call on closed client', cl3.get, '1')
    C(w, 'close', cl.close)


ENGINE_ALL = ['setup_keys', 'lifecycle_all_types', 'create_paths', 'create_key_pair_paths', 'not_found_and_denied', 'register_failures',
              'get_and_wrap', 'encrypt_decrypt', 'asymmetric_crypto', 'mac_paths', 'derive_paths', 'attribute_paths', 'locate_query',
              'request_level', 'restart_and_reuse']

CURATED = [
    ('engine-lifecycle', 'engine', ['setup_keys', 'lifecycle_all_types', 'create_paths', 'create_key_pair_paths', 'not_found_and_denied', 'locate_query']),
    ('engine-crypto', 'engine', ['setup_keys', 'encrypt_decrypt', 'mac_paths', 'derive_paths']),
    ('engine-backend-refusals', 'engine', ['setup_keys', 'cipher_backend_refusals']),
    ('engine-batch-placeholder', 'engine', ['setup_keys', 'batch_placeholder']),
    ('engine-oversized-values', 'engine', ['setup_keys', 'oversized_values']),
    ('engine-asymmetric', 'engine', ['setup_keys', 'asymmetric_crypto']),
    ('engine-wrap-register', 'engine', ['setup_keys', 'lifecycle_all_types', 'get_and_wrap', 'register_failures']),
    ('session-auth', 'session', ['setup_keys', 'sess_auth_password', 'sess_slugs']),
    ('session-malformed', 'session', ['setup_keys', 'sess_malformed']),
    ('session-structured-failures', 'session', ['setup_keys', 'sess_structured_failures']),
    ('session-credential-types', 'session', ['setup_keys', 'sess_credential_types']),
    ('session-split-keys', 'session', ['sess_split_keys']),
    ('client-loopback', 'client', ['client_ops']),
    ('client-cut-responses', 'client', ['client_cut_responses']),
    ('client-config-files', 'client', ['client_config_files']),
    ('client-io-failures', 'client', ['client_io_failures']),
    ('server-startup', 'server', ['server_startup']),
    ('engine-attributes-requests', 'engine', ['setup_keys', 'lifecycle_all_types', 'attribute_paths', 'request_level', 'restart_and_reuse', 'locate_query', 'monitor_and_config']),
]
