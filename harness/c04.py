"""C04 - object lifecycle is monotone and gates every cryptographic use.

Tie K: histories over Create / CreateKeyPair / Register / Activate / Revoke / Destroy / Encrypt / Decrypt / Sign /
SignatureVerify / MAC / DeriveKey / Get-with-wrapping are run on the real KmipEngine (in-process, SQLite, kdrv) and
on the Gallina model coq/theories/Lifecycle/Model.v; Coq (Lifecycle/Cases.v, check_hcase) compares, after every step,
the classified outcome, whether a gated CryptographyEngine method was entered, and Object Type / State / Cryptographic
Usage Mask of every object of the history (read with GetAttributes).

Direct oracle (no model): the property text evaluated on the observed attribute values and result statuses.

An abstract operation is a tuple; object references are offsets into the history's own uid window
(offset k = the k-th object the history creates; -1 = an identifier that never exists):
  ('Create', mask) ('CreateKeyPair', mpub, mpriv) ('Register', TYPE, mask) ('Activate', k) ('Revoke', k, CODE)
  ('Destroy', k) ('Encrypt', k, params?, flavour) ('Decrypt', ...) ('Sign', ...) ('SignatureVerify', ...)
  ('MAC', k, alg?, data?) ('DeriveKey', [k...], mask) ('GetWrap', k, kwrap)
"""
import itertools
import json
import multiprocessing
import os
import sqlite3
import sys
from pathlib import Path

import kdrv
from kdrv import enums, payloads, cattrs, cobjects, OP, OT
from vlib import coqprint as cp

M = enums.CryptographicUsageMask
ALG = enums.CryptographicAlgorithm
RC = enums.RevocationReasonCode

HEADER = ('From PK Require Import Lifecycle.Cases.\nFrom Coq Require Import List ZArith Bool.\n'
          'Import ListNotations.\nOpen Scope Z_scope.\n')

TYPES = {'SymmetricKey': OT.SYMMETRIC_KEY, 'PublicKey': OT.PUBLIC_KEY, 'PrivateKey': OT.PRIVATE_KEY,
         'SplitKey': OT.SPLIT_KEY, 'Certificate': OT.CERTIFICATE, 'SecretData': OT.SECRET_DATA,
         'OpaqueData': OT.OPAQUE_DATA}
TYPE_OF_ENUM = {v.name: k for k, v in TYPES.items()}
STATES = {'PRE_ACTIVE': 'PreActive', 'ACTIVE': 'Active', 'DEACTIVATED': 'Deactivated', 'COMPROMISED': 'Compromised',
          'DESTROYED': 'Destroyed', 'DESTROYED_COMPROMISED': 'DestroyedCompromised'}
RANK = {'PRE_ACTIVE': 0, 'ACTIVE': 1, 'DEACTIVATED': 2, 'COMPROMISED': 3, 'DESTROYED': 4, 'DESTROYED_COMPROMISED': 5}
CODES = {'Unspecified': RC.UNSPECIFIED, 'KeyCompromise': RC.KEY_COMPROMISE, 'CACompromise': RC.CA_COMPROMISE,
         'AffiliationChanged': RC.AFFILIATION_CHANGED, 'Superseded': RC.SUPERSEDED,
         'CessationOfOperation': RC.CESSATION_OF_OPERATION, 'PrivilegeWithdrawn': RC.PRIVILEGE_WITHDRAWN}
COMPROMISE_CODES = ('KeyCompromise', 'CACompromise')       # the property text: key- or CA-compromise
REASONS = {'ITEM_NOT_FOUND': 'ItemNotFound', 'PERMISSION_DENIED': 'PermissionDenied',
           'ILLEGAL_OPERATION': 'IllegalOperation', 'INVALID_FIELD': 'InvalidField'}
BIT = {n: M[n].value for n in ('SIGN', 'VERIFY', 'ENCRYPT', 'DECRYPT', 'WRAP_KEY', 'MAC_GENERATE', 'DERIVE_KEY')}
FULL = sum(BIT.values())
# which guard refused, recognised by the text of the result message (engine.py); anything else is unclassified
MESSAGES = [
    ('Could not locate object', 'RNotFound'),
    ('has no state and cannot be', 'RNoState'),
    ('not pre-active and cannot be activated', 'RState'),
    ('is not active and cannot be revoked', 'RState'),
    ('Object is active and cannot be destroyed', 'RState'),
    ('must be in the Active state', 'RState'),
    ('not in a state that can be used for MACing', 'RState'),
    ('must be activated to be used for key wrapping', 'RState'),
    ('is not a symmetric key', 'RType'), ('is not a private key', 'RType'), ('is not a public key', 'RType'),
    ('encryption key information is not a key', 'RType'), ('is not a suitable type for key derivation', 'RType'),
    ('Only keys and secret data can be wrapped', 'RType'),
    ('bit must be set', 'RMask'), ('MAC Generate must be set', 'RMask'),
    ('Wrapping key does not exist', 'RWrapKeyMissing'),
    ('The cryptographic parameters must be specified', 'RParams'),
    ('The cryptographic algorithm must be specified for the MAC', 'RParams'),
    ('No data to be MACed', 'RParams'), ('A secret key value must be specified', 'RParams'),
    ('The cryptographic length must not be negative', 'RParams'), ('it must be a multiple of 8', 'RParams'),
]
GATED = ('encrypt', 'decrypt', 'sign', 'verify_signature', 'mac', 'derive_key', 'wrap_key')
# the property's "right kind" per operation, as stored Object Type names (see notes/C04.md for MAC)
RIGHT_KIND = {'Encrypt': ('SYMMETRIC_KEY',), 'Decrypt': ('SYMMETRIC_KEY',), 'Sign': ('PRIVATE_KEY',),
              'SignatureVerify': ('PUBLIC_KEY',), 'MAC': ('SYMMETRIC_KEY', 'SECRET_DATA'), 'GetWrap': ('SYMMETRIC_KEY',)}
NEEDED_BIT = {'Encrypt': 'ENCRYPT', 'Decrypt': 'DECRYPT', 'Sign': 'SIGN', 'SignatureVerify': 'VERIFY',
              'MAC': 'MAC_GENERATE', 'GetWrap': 'WRAP_KEY', 'DeriveKey': 'DERIVE_KEY'}
ATTRS = ['Object Type', 'State', 'Cryptographic Usage Mask']
PSEUDO = ('Version', 'Restart', 'Batch', 'Clock')
VERSIONS = [(1, 2), (1, 3), (1, 4), (2, 0)]       # the versions under which every operation of the alphabet exists
ALLBITS = sum(e.value for e in M)
# attributes through which a State could be written besides Activate / Revoke; the code refuses every write of them
LIFECYCLE_ATTRS = ['State', 'Activation Date', 'Deactivation Date', 'Compromise Date', 'Compromise Occurrence Date',
                   'Destroy Date', 'Process Start Date', 'Protect Stop Date']
ATTR_HOW = ['modify1', 'set2', 'modify2', 'delete1']
ATTR_REASONS = ('INVALID_FIELD', 'ATTRIBUTE_NOT_FOUND', 'PERMISSION_DENIED', 'READ_ONLY_ATTRIBUTE', 'ITEM_NOT_FOUND')  # ITEM_NOT_FOUND: 'not applicable to ... objects'
OPTIONAL_FLAVOURS = {'Encrypt': ['aead', 'noiv'], 'Decrypt': ['aead', 'noiv'], 'Sign': [], 'SignatureVerify': ['digested', 'allopt']}
ALGS = [a.name for a in ALG]                 # every member: a stored key may carry any of them as its own algorithm
CREATABLE = {'AES': (ALG.AES, 128), 'AES256': (ALG.AES, 256), 'TRIPLE_DES': (ALG.TRIPLE_DES, 192), 'BLOWFISH': (ALG.BLOWFISH, 128),
             'CAMELLIA': (ALG.CAMELLIA, 256), 'CAST5': (ALG.CAST5, 128)}


def mask_list(m):
    return [e for e in M if e.value & m]


# ---------------------------------------------------------------------------------------- key material
def make_material():
    """Real key material generated once per run (RSA generation is slow; results are not modelled)."""
    from kmip.services.server.crypto import engine as ce
    pub, priv = ce.CryptographyEngine().create_asymmetric_key_pair(ALG.RSA, 1024)
    return {'pub': (bytes(pub['value']), pub['format'].name), 'priv': (bytes(priv['value']), priv['format'].name)}


def secret_for(tname, mat, alg=None):
    """A secret of the stored type; `alg` = the key's OWN Cryptographic Algorithm (any member: Register stores any)."""
    K = enums.KeyFormatType
    ot = TYPES[tname]
    if alg is not None and tname == 'SymmetricKey':
        return kdrv.symmetric_key_secret(b'\x0f' * 16, ALG[alg], 128)
    if alg is not None and tname == 'SplitKey':
        return kdrv.core_secret(ot, cryptographic_algorithm=ALG[alg], cryptographic_length=128, key_format_type=K.RAW,
                                key_value=b'\x33' * 16, key_wrapping_data=None, split_key_parts=3, key_part_identifier=1,
                                split_key_threshold=2, split_key_method=enums.SplitKeyMethod.XOR, prime_field_size=None)
    if tname == 'PublicKey':
        return kdrv.core_secret(ot, cryptographic_algorithm=(ALG[alg] if alg else ALG.RSA), cryptographic_length=1024,
                                key_format_type=K[mat['pub'][1]], key_value=mat['pub'][0], key_wrapping_data=None)
    if tname == 'PrivateKey':
        return kdrv.core_secret(ot, cryptographic_algorithm=(ALG[alg] if alg else ALG.RSA), cryptographic_length=1024,
                                key_format_type=K[mat['priv'][1]], key_value=mat['priv'][0], key_wrapping_data=None)
    if tname == 'Certificate':      # 24 bytes: a length the RFC 3394 key wrap accepts
        return kdrv.secret_for(ot, b'\x30\x82\x01' + b'\x44' * 21)
    if tname == 'SecretData':
        return kdrv.secret_for(ot, b'\x55' * 16)
    if tname == 'OpaqueData':
        return kdrv.secret_for(ot, b'\x66' * 16)
    return kdrv.secret_for(ot)


def derive_length(op):
    """Cryptographic Length (bits) of a DeriveKey template: ('DeriveKey', bases, mask, own algorithm or None, length)."""
    return int(op[4]) if len(op) > 4 and op[4] is not None else 128


def refs(op):
    """Offsets of the objects an operation addresses."""
    k = op[0]
    if k == 'Foreign':
        return refs(op[1])
    if k in ('Create', 'CreateKeyPair', 'Register'):
        return []
    if k == 'RegisterWrapped':
        return [op[1]]
    if k == 'CreateLA':
        return []
    if k == 'DeriveKey':
        return list(op[1])
    if k == 'GetWrap':
        return [op[1], op[2]]
    return [op[1]]


# ---------------------------------------------------------------------------------------- the implementation driver
class Runner:
    def __init__(self, workdir, material):
        self.workdir = str(workdir)
        self.mat = material
        self.eng = None
        self.base = 1
        self.histories = 0
        self.crypto = None
        self.sql = None
        self.in_batch = False
        self.item_index = -1
        self.crypto_by_item = {}
        self.sent_wrapped = None

    def fresh(self):
        if self.eng is not None:
            try:
                self.eng.close()
            except Exception:
                pass
        self.eng = kdrv.Engine(workdir=self.workdir)
        self.base = 1
        self.histories = 0
        if self.sql is not None:
            self.sql.close()
        self.sql = sqlite3.connect(self.eng.path, isolation_level=None)
        self.version = (1, 2)
        self.instrument()

    def instrument(self):
        """Attach the recorders to the current KmipEngine object (again after a restart)."""
        ce = self.eng.engine._cryptography_engine
        runner = self
        mat = self.mat
        K = enums.KeyFormatType

        def fixed_pair(algorithm, length):
            return ({'value': mat['pub'][0], 'format': K[mat['pub'][1]]},
                    {'value': mat['priv'][0], 'format': K[mat['priv'][1]]})
        ce.create_asymmetric_key_pair = fixed_pair
        for name in GATED:
            orig = getattr(ce, name)

            def wrapped(*a, _orig=orig, _name=name, **kw):
                rec = {'called': _name, 'raised': None}
                runner.crypto = rec
                if runner.in_batch:
                    runner.crypto_by_item[runner.item_index] = rec
                try:
                    return _orig(*a, **kw)
                except BaseException as e:
                    rec['raised'] = type(e).__name__
                    raise
            setattr(ce, name, wrapped)
        # position of the batch item being processed (for attributing crypto calls inside a batch)
        orig_po = type(self.eng.engine)._process_operation
        eng_obj = self.eng.engine

        def process_operation(operation, payload):
            runner.item_index += 1
            return orig_po(eng_obj, operation, payload)
        eng_obj._process_operation = process_operation

    def close(self):
        if self.sql is not None:
            self.sql.close()
            self.sql = None
        if self.eng is not None:
            self.eng.close()
            self.eng = None

    # ---- building real requests
    def uid(self, k):
        if k == 'P':
            return None             # the request omits the identifier: the engine uses its ID placeholder
        return '0' if k < 0 else str(self.base + k)

    def build(self, op, via_placeholder=False):
        kind = op[0]
        u = self.uid
        if kind == 'Foreign':       # the inner operation, sent by another identity (see run_single)
            return self.build(tuple(op[1]))
        if kind == 'Create':        # optional own algorithm (one the crypto engine can generate a key for) and length
            a, n = CREATABLE[op[2]] if len(op) > 2 and op[2] else (ALG.AES, 128)
            return kdrv.create(a, n, mask_list(op[1]))
        if kind == 'CreateKeyPair':
            return kdrv.create_key_pair(ALG.RSA, 1024, public_mask=mask_list(op[1]), private_mask=mask_list(op[2]))
        if kind == 'Register':
            t = op[1]
            return kdrv.register(TYPES[t], secret=secret_for(t, self.mat, op[3] if len(op) > 3 else None),
                                 mask=(mask_list(op[2]) if t != 'OpaqueData' else None))
        if kind in ('AttrWrite', 'CreateLA'):
            # ('AttrWrite', k, how, attribute name, value) / ('CreateLA', 'Create' | stored type, attribute name, value, mask)
            name, val = (op[3], op[4]) if kind == 'AttrWrite' else (op[2], op[3])
            tag = name.upper().replace(' ', '_')
            value = enums.State[val] if name == 'State' else int(self.eng.clock.t + val)      # dates relative to the engine's clock
            if kind == 'CreateLA':
                a = kdrv.attr(tag, value)
                if op[1] == 'Create':
                    return kdrv.create(ALG.AES, 128, mask_list(op[4]), extra=[a])
                t = op[1]
                attrs = ([kdrv.attr('CRYPTOGRAPHIC_USAGE_MASK', mask_list(op[4]))] if t != 'OpaqueData' else []) + [a]
                return kdrv.register(TYPES[t], secret=secret_for(t, self.mat), attrs=attrs)
            how = op[2]
            if how == 'modify1':
                return kdrv.modify_attribute_v1(u(op[1]), kdrv.attr(tag, value))
            if how == 'delete1':
                return kdrv.delete_attribute_v1(u(op[1]), name)
            if how == 'set2':
                return kdrv.set_attribute(u(op[1]), kdrv.attr_value(tag, value))
            if how == 'modify2':
                return kdrv.modify_attribute_v2(u(op[1]), kdrv.attr_value(tag, value))
            raise ValueError(op)
        if kind == 'RegisterWrapped':
            # a symmetric key in WRAPPED form whose Key Wrapping Data names object op[1] of this server as the wrapping
            # key (NIST key wrap, really wrapped under that key's value when it is an AES-sized key we can Get)
            kek = None
            if isinstance(op[1], int) and op[1] >= 0:
                g = self.eng.request([kdrv.get(u(op[1]))], version=self.version)
                it = g['items'][0] if g['items'] else None
                if it is not None and kdrv.ok(it):
                    kb = getattr(it['raw'].response_payload.secret, 'key_block', None)
                    km = getattr(getattr(kb, 'key_value', None), 'key_material', None)
                    if km is not None and getattr(kb, 'key_wrapping_data', None) is None and len(bytes(km.value)) in (16, 24, 32):
                        kek = bytes(km.value)
            if kek is not None:
                from cryptography.hazmat.primitives import keywrap
                from cryptography.hazmat.backends import default_backend
                blob = keywrap.aes_key_wrap(kek, b'\x42' * 16, default_backend())
            else:
                blob = b'\x5a' * 24
            self.sent_wrapped = blob
            kwd = dict(wrapping_method=enums.WrappingMethod.ENCRYPT,
                       encryption_key_information=cobjects.EncryptionKeyInformation(
                           unique_identifier=u(op[1]),
                           cryptographic_parameters=kdrv.crypto_params(block_cipher_mode=enums.BlockCipherMode.NIST_KEY_WRAP)),
                       encoding_option=enums.EncodingOption.NO_ENCODING)
            return kdrv.register(OT.SYMMETRIC_KEY, secret=kdrv.symmetric_key_secret(blob, ALG.AES, 128, wrapping=kwd), mask=mask_list(op[2]))
        if kind == 'Activate':
            return kdrv.activate(u(op[1]))
        if kind == 'Revoke':
            extra = op[3] if len(op) > 3 else None      # optional (compromise occurrence date, message): ignored by the code
            return kdrv.revoke(u(op[1]), CODES[op[2]], message=(extra[1] if extra else None), date=(extra[0] if extra else None))
        if kind == 'Destroy':
            return kdrv.destroy(u(op[1]))
        flavour = op[3] if len(op) > 3 and kind in ('Encrypt', 'Decrypt', 'Sign', 'SignatureVerify') else 'good'
        # flavours: 'good' / 'bad' (parameters the crypto engine refuses) and the ones that fill the OPTIONAL request
        # fields: 'aead' (GCM: IV, additional authenticated data, tag), 'noiv' (no IV/counter/nonce), 'digested'
        # (Digested Data in place of Data), 'allopt' (Data and Digested Data, correlation value, init / final indicator)
        if kind == 'Encrypt':
            if flavour == 'aead':
                p = kdrv.crypto_params(cryptographic_algorithm=ALG.AES, block_cipher_mode=enums.BlockCipherMode.GCM, tag_length=16)
                return kdrv.encrypt(u(op[1]), p if op[2] else None, b'attack at dawn!!', iv=b'\x02' * 12, aad=b'header')
            p = kdrv.crypto_params(cryptographic_algorithm=ALG.AES, block_cipher_mode=enums.BlockCipherMode.CBC,
                                   padding_method=(None if flavour == 'bad' else enums.PaddingMethod.PKCS5)) if op[2] else None
            return kdrv.encrypt(u(op[1]), p, b'attack at dawn!!', iv=(None if flavour == 'noiv' else b'\x01' * 16))
        if kind == 'Decrypt':
            if flavour == 'aead':
                p = kdrv.crypto_params(cryptographic_algorithm=ALG.AES, block_cipher_mode=enums.BlockCipherMode.GCM)
                return kdrv.decrypt(u(op[1]), p if op[2] else None, b'\x07' * 16, iv=b'\x02' * 12, aad=b'header', tag=b'\x09' * 16)
            if flavour in ('good', 'noiv'):     # CTR: any data decrypts
                p = kdrv.crypto_params(cryptographic_algorithm=ALG.AES, block_cipher_mode=enums.BlockCipherMode.CTR)
            else:                     # CBC + padding on garbage: the unpadding fails inside the crypto engine
                p = kdrv.crypto_params(cryptographic_algorithm=ALG.AES, block_cipher_mode=enums.BlockCipherMode.CBC,
                                       padding_method=enums.PaddingMethod.PKCS5)
            return kdrv.decrypt(u(op[1]), p if op[2] else None, b'\x07' * 16, iv=(None if flavour == 'noiv' else b'\x01' * 16))
        if kind in ('Sign', 'SignatureVerify'):
            p = kdrv.crypto_params(cryptographic_algorithm=ALG.RSA, hashing_algorithm=enums.HashingAlgorithm.SHA_256,
                                   padding_method=(None if flavour == 'bad' else enums.PaddingMethod.PKCS1v15)) if op[2] else None
            if kind == 'Sign':
                return kdrv.sign(u(op[1]), p, b'message')
            import hashlib
            digest = hashlib.sha256(b'message').digest()
            if flavour == 'digested':
                return (OP.SIGNATURE_VERIFY, payloads.SignatureVerifyRequestPayload(
                    unique_identifier=u(op[1]), cryptographic_parameters=p, data=None, digested_data=digest, signature_data=b'\x05' * 128))
            if flavour == 'allopt':
                return (OP.SIGNATURE_VERIFY, payloads.SignatureVerifyRequestPayload(
                    unique_identifier=u(op[1]), cryptographic_parameters=p, data=b'message', digested_data=digest,
                    signature_data=b'\x05' * 128, correlation_value=b'\x01\x02', init_indicator=True, final_indicator=True))
            return kdrv.signature_verify(u(op[1]), p, b'message', b'\x05' * 128)
        if kind == 'MAC':
            p = kdrv.crypto_params(cryptographic_algorithm=ALG.HMAC_SHA256) if op[2] else None
            return (OP.MAC, payloads.MACRequestPayload(
                unique_identifier=(cattrs.UniqueIdentifier(u(op[1])) if u(op[1]) is not None else None), cryptographic_parameters=p,
                data=(cobjects.Data(b'data to mac') if op[3] else None)))
        if kind == 'DeriveKey':
            dp = cattrs.DerivationParameters(
                cryptographic_parameters=kdrv.crypto_params(hashing_algorithm=enums.HashingAlgorithm.SHA_256))
            return kdrv.derive_key([u(k) for k in op[1]], enums.DerivationMethod.HASH, dp,
                                   kdrv.sym_attrs(ALG[op[3]] if len(op) > 3 and op[3] else ALG.AES, derive_length(op), mask_list(op[2])))
        if kind == 'GetWrap':
            spec = cobjects.KeyWrappingSpecification(
                wrapping_method=enums.WrappingMethod.ENCRYPT,
                encryption_key_information=cobjects.EncryptionKeyInformation(
                    unique_identifier=u(op[2]),
                    cryptographic_parameters=kdrv.crypto_params(block_cipher_mode=enums.BlockCipherMode.NIST_KEY_WRAP)),
                encoding_option=enums.EncodingOption.NO_ENCODING)
            return kdrv.get(u(op[1]), wrap=spec)
        raise ValueError(op)

    # ---- observation
    def ga_view(self, uids):
        """{uid: None (absent) | (Object Type, State or None, mask)} read with GetAttributes."""
        out = {}
        uids = sorted(set(uids))
        if not uids:
            return out
        req = self.eng.build([kdrv.get_attributes(str(x), ATTRS) for x in uids], version=self.version,
                             batch_option=enums.BatchErrorContinuationOption.CONTINUE, ids=True)
        resp, _, _ = self.eng.engine.process_request(req, ('alice', None))
        items = resp.batch_items
        if len(items) != len(uids):
            raise RuntimeError('GetAttributes batch answered %d of %d items' % (len(items), len(uids)))
        for x, bi in zip(uids, items):
            out[x] = self.read_ga_item(x, bi)
        return out

    @staticmethod
    def read_ga_item(x, bi):
        if bi.result_status.value != enums.ResultStatus.SUCCESS:
            if bi.result_reason.value == enums.ResultReason.ITEM_NOT_FOUND:
                return None
            raise RuntimeError('GetAttributes on %d failed: %s' % (x, bi.result_reason.value.name))
        d = {}
        for a in bi.response_payload.attributes:
            d[a.attribute_name.value] = a.attribute_value.value
        st = d.get('State')
        return (d['Object Type'].name, st.name if st is not None else None, int(d.get('Cryptographic Usage Mask', 0)))

    def sql_view(self, last):
        """The same triple for every object of the window, read from the tables (managed_objects left join crypto_objects)."""
        out = {x: None for x in range(self.base, last + 1)}
        if not out:
            return out
        for u, t, st, m in self.sql.execute(
                'select m.uid, m.object_type, c.state, c.cryptographic_usage_mask from managed_objects m '
                'left join crypto_objects c on c.uid = m.uid where m.uid between ? and ?', (self.base, last)):
            out[u] = (enums.ObjectType(t).name, enums.State(st).name if st is not None else None, int(m or 0))
        return out

    def view(self, last, addressed, full=False):
        """Attributes of every object of the window after a step.  The objects the step addressed (and, at the end
        of a history, all objects) are read with GetAttributes; the others from the tables, which is where
        GetAttributes reads them from.  Where both were read they must agree."""
        v = self.sql_view(last)
        ga = self.ga_view(list(v) if full else [x for x in addressed if x in v])
        for x, a in ga.items():
            if v[x] != a:
                if v[x] is not None and a is not None and v[x][:2] == a[:2]:
                    # round 8 (C04O): only the usage mask differs.  The gates are judged against the mask the STORE holds
                    # (the integer the client supplied); the difference itself is reported as a broken correspondence
                    self.mask_mismatch.append((x, a[2], v[x][2]))
                    continue
                raise RuntimeError('GetAttributes and the tables differ for %d: %r vs %r' % (x, a, v[x]))
        return v

    def classify(self, item, crypto, op=None):
        if kdrv.ok(item):
            return ('OK',)
        if op is not None and op[0] in ('AttrWrite', 'CreateLA') and crypto is None and item['reason'] in ATTR_REASONS \
                and 'Could not locate object' not in (item['message'] or ''):
            return ('Refused', 'RParams', 'AttrRule')       # refused by the attribute rules (unsupported / not set / read-only / required)
        if crypto is not None and crypto['raised'] is not None:
            return ('CryptoFail',)
        if item['reason'] == 'GENERAL_FAILURE':
            return ('CrashAfter',) if crypto is not None else ('CrashBefore',)
        if crypto is None and item['reason'] in REASONS:
            for frag, cls in MESSAGES:
                if frag in (item['message'] or ''):
                    return ('Refused', cls, REASONS[item['reason']])
        return ('Other',)

    def run(self, ops):
        """Run one history.  -> {'base', 'steps': [...]}; each step has before/after views for the oracle.
        Pseudo-operations: ('Version', v), ('Restart',), ('Batch', n): the next n operations travel in ONE request
        (batch error continuation option Continue); inside a batch an operation may address 'P', the ID placeholder
        (the object the preceding creating operation of the same request made)."""
        if self.eng is None or self.histories >= 400:
            self.fresh()
        self.histories += 1
        base = self.base
        self.last = base - 1
        self.steps = []
        self.before = {}
        self.mask_mismatch = []
        self.version = (1, 2)
        real = [i for i, op in enumerate(ops) if op[0] not in PSEUDO]
        n = 0
        while n < len(ops):
            op = ops[n]
            if op[0] == 'Version':          # protocol version of the following requests
                self.version = tuple(op[1])
                n += 1
            elif op[0] == 'Restart':        # a new KmipEngine object on the same database
                self.eng.restart()
                self.instrument()
                n += 1
            elif op[0] == 'Clock':          # the engine's clock moves on
                self.eng.clock.t += int(op[1])
                n += 1
            elif op[0] == 'Batch':
                group = ops[n + 1:n + 1 + op[1]]
                if any(g[0] in PSEUDO for g in group) or not group:
                    raise ValueError('malformed batch in history: %r' % (ops,))
                self.run_batch(base, group)
                n += 1 + len(group)
            else:
                self.run_single(base, op, full=(n == real[-1]))
                n += 1
            for st in self.steps:
                st.setdefault('src_end', n)
        self.base = self.last + 1
        return {'base': base, 'steps': self.steps, 'mask_mismatch': self.mask_mismatch[:5]}

    def new_uids(self, op, item):
        if not kdrv.ok(item):
            return []
        p = item['payload'] or {}
        if op[0] == 'CreateKeyPair':
            return [int(p['public_key_unique_identifier']), int(p['private_key_unique_identifier'])]
        if op[0] in ('Create', 'Register', 'RegisterWrapped', 'DeriveKey', 'CreateLA'):
            return [int(p['unique_identifier'])]
        return []

    def run_single(self, base, op, full=False):
        self.crypto = None
        if op[0] == 'Foreign' and op[1][0] not in ('Activate', 'Revoke', 'Destroy'):
            raise ValueError('Foreign wraps Activate / Revoke / Destroy only: %r' % (op,))
        version = self.version
        if op[0] == 'AttrWrite':        # the KMIP 1.x and 2.0 forms of the attribute operations
            version = (2, 0) if op[2] in ('set2', 'modify2') else ((1, 2) if self.version == (2, 0) else self.version)
        r = self.eng.request([self.build(op)], version=version, user=('bob' if op[0] == 'Foreign' else 'alice'))
        if r['error'] is not None:
            raise RuntimeError('request-level error for %r: %r' % (op, r['error']))
        item = r['items'][0]
        crypto = self.crypto
        new = self.new_uids(op, item)
        self.last = max([self.last] + new)
        after = self.view(self.last, new + [base + k for k in refs(op) if k >= 0], full=full)
        self.steps.append({'op': op, 'cok': not (crypto and crypto['raised']), 'out': self.classify(item, crypto, op),
                           'called': crypto is not None, 'status': item['status'], 'reason': item['reason'],
                           'message': item['message'], 'before': self.before, 'after': after, 'crypto': crypto})
        if op[0] == 'RegisterWrapped' and new:
            # what did the server store?  (Get of the new object: still wrapped, with the bytes that were sent?)
            g = self.eng.request([kdrv.get(str(new[0]))], version=self.version)
            it = g['items'][0] if g['items'] else None
            if it is None or not kdrv.ok(it):
                raise RuntimeError('Get of the key just registered failed: %r' % (it and (it['reason'], it['message']),))
            kb = it['raw'].response_payload.secret.key_block
            self.steps[-1]['stored'] = {'wrapped': kb.key_wrapping_data is not None,
                                        'same_bytes': bytes(kb.key_value.key_material.value) == self.sent_wrapped}
        self.before = after

    def run_batch(self, base, group):
        """One request: op1, GetAttributes of the whole window, op2, GetAttributes..., with Continue."""
        # identifiers are predictable (autoincrement); the prediction is checked against the responses below
        predicted_last = self.last
        window_end = self.last + sum(2 if g[0] == 'CreateKeyPair' else 1 for g in group if g[0] in ('Create', 'CreateKeyPair', 'Register', 'RegisterWrapped', 'DeriveKey'))
        window = list(range(base, window_end + 1))
        items, layout, resolved = [], [], []
        placeholder = None
        for g in group:
            g2 = g
            if any(k == 'P' for k in refs(g) if not isinstance(k, list)):
                if placeholder is None:
                    raise ValueError('placeholder used before a creating operation in the batch: %r' % (group,))
                g2 = tuple((placeholder - base) if (i > 0 and x == 'P') else x for i, x in enumerate(g))
            resolved.append(g2)
            items.append(self.build(g, via_placeholder=(g is not g2)))
            layout.append(('op', len(resolved) - 1))
            if g[0] in ('Create', 'Register', 'RegisterWrapped'):
                predicted_last += 1
                placeholder = predicted_last
            elif g[0] == 'CreateKeyPair':
                predicted_last += 2
                placeholder = predicted_last          # the private key
            elif g[0] == 'DeriveKey':
                placeholder = None                    # may fail; the generator does not use the placeholder after it
            for x in window:
                items.append(kdrv.get_attributes(str(x), ATTRS))
                layout.append(('ga', x))
        self.crypto_by_item = {}
        self.item_index = -1
        self.in_batch = True
        try:
            req = self.eng.build(items, version=self.version, batch_option=enums.BatchErrorContinuationOption.CONTINUE, ids=True)
            resp, _, _ = self.eng.engine.process_request(req, ('alice', None))
        finally:
            self.in_batch = False
        if len(resp.batch_items) != len(items):
            raise RuntimeError('batch answered %d of %d items' % (len(resp.batch_items), len(items)))
        views, cur = [], None
        for idx, ((kind, arg), bi) in enumerate(zip(layout, resp.batch_items)):
            if kind == 'op':
                cur = {'k': arg, 'item': kdrv.project_item(bi), 'crypto': self.crypto_by_item.get(idx), 'view': {}}
                views.append(cur)
            else:
                cur['view'][arg] = self.read_ga_item(arg, bi)
        for v in views:
            op = resolved[v['k']]
            item, crypto = v['item'], v['crypto']
            new = self.new_uids(op, item)
            if new and new[0] != self.last + 1:
                raise RuntimeError('identifier %r issued where %d was predicted' % (new, self.last + 1))
            self.last = max([self.last] + new)
            after = {x: a for x, a in v['view'].items() if x <= self.last or a is not None}
            self.steps.append({'op': op, 'cok': not (crypto and crypto['raised']), 'out': self.classify(item, crypto, op),
                               'called': crypto is not None, 'status': item['status'], 'reason': item['reason'],
                               'message': item['message'], 'before': self.before, 'after': after, 'crypto': crypto,
                               'in_batch': True})
            self.before = after


# ---------------------------------------------------------------------------------------- direct oracle (property text)
def oracle_step(base, st):
    """Violations of the property statement visible in one observed step.  -> [(signature, what)]"""
    out = []
    op = st['op']
    if op[0] == 'Foreign':      # the property is about the operation, whoever sends it
        op = tuple(op[1])
    kind = op[0]
    okay = st['status'] == 'SUCCESS'
    before, after = st['before'], st['after']

    def ref(k):
        return None if k < 0 else base + k
    addressed = ref(op[1]) if kind in ('Activate', 'Revoke', 'Destroy') else None
    # 1. lifecycle: monotone, allowed moves only, only Activate / Revoke change the state
    for x, b in before.items():
        a = after.get(x)
        if b is None or a is None or b[1] == a[1]:
            continue
        sb, sa = b[1], a[1]
        sig = {'clause': 'lifecycle', 'op': kind, 'from': sb, 'to': sa, 'stored_type': b[0]}
        if sb is None or sa is None:
            out.append((dict(sig, why='state-attribute-appeared-or-vanished'), 'State attribute of %d went %s -> %s' % (x, sb, sa)))
            continue
        if RANK[sa] < RANK[sb]:
            out.append((dict(sig, why='returned-to-earlier-state'), 'object %d returned from %s to %s by %s' % (x, sb, sa, kind)))
        if kind not in ('Activate', 'Revoke') or addressed != x or not okay:
            out.append((dict(sig, why='changed-by-other-than-activate-revoke'),
                        'state of %d changed %s -> %s by %s%s' % (x, sb, sa, kind, '' if okay else ' (which reported failure)')))
        allowed = ((sb, sa) == ('PRE_ACTIVE', 'ACTIVE') or (sb, sa) == ('ACTIVE', 'DEACTIVATED')
                   or (sa == 'COMPROMISED' and kind == 'Revoke' and op[2] in COMPROMISE_CODES))
        if not allowed:
            out.append((dict(sig, why='move-not-allowed', code=(op[2] if kind == 'Revoke' else None)),
                        'object %d moved %s -> %s by %s %s' % (x, sb, sa, kind, op[2] if kind == 'Revoke' else '')))
    # 1b. the lifecycle starts in Pre-Active: an object that appears is Pre-Active (or has no State)
    for x, a in after.items():
        if a is not None and before.get(x) is None:
            if a[1] not in (None, 'PRE_ACTIVE'):
                out.append(({'clause': 'lifecycle', 'op': kind, 'why': 'not-born-pre-active', 'to': a[1], 'stored_type': a[0]},
                            'object %d came into being in state %s (by %s) without Activate / Revoke' % (x, a[1], kind)))
    # 2. Destroy is refused for an Active object
    if kind == 'Destroy' and addressed is not None:
        b = before.get(addressed)
        if b is not None and b[1] == 'ACTIVE' and (okay or after.get(addressed) is None):
            out.append(({'clause': 'destroy-active', 'op': 'Destroy', 'stored_type': b[0]},
                        'Destroy of ACTIVE object %d %s' % (addressed, 'succeeded' if okay else 'removed the object')))
    # 3. cryptographic use is gated by kind, state, mask
    if okay and kind in ('Encrypt', 'Decrypt', 'Sign', 'SignatureVerify', 'MAC', 'GetWrap'):
        key = ref(op[2]) if kind == 'GetWrap' else ref(op[1])
        b = before.get(key) if key is not None else None
        role = 'wrapping key' if kind == 'GetWrap' else 'key'
        if b is None:
            out.append(({'clause': 'gate', 'op': kind, 'why': 'no-such-key'}, '%s succeeded with a %s that does not exist' % (kind, role)))
        else:
            if b[1] != 'ACTIVE':
                out.append(({'clause': 'gate', 'op': kind, 'why': 'not-active', 'state': b[1], 'stored_type': b[0]},
                            '%s succeeded while the %s %d was %s' % (kind, role, key, b[1])))
            if not (b[2] & BIT[NEEDED_BIT[kind]]):
                out.append(({'clause': 'gate', 'op': kind, 'why': 'mask-bit-missing', 'stored_type': b[0]},
                            '%s succeeded although the usage mask %#x of %d lacks %s' % (kind, b[2], key, NEEDED_BIT[kind])))
            if b[0] not in RIGHT_KIND[kind]:
                out.append(({'clause': 'gate', 'op': kind, 'why': 'wrong-kind', 'stored_type': b[0]},
                            '%s succeeded with a %s of type %s' % (kind, role, b[0])))
    if okay and kind == 'RegisterWrapped' and st.get('stored') and not (st['stored']['wrapped'] and st['stored']['same_bytes']):
        # the server unwrapped what was registered: it USED the named key as a wrapping key
        key = ref(op[1])
        b = before.get(key) if key is not None else None
        if b is None:
            out.append(({'clause': 'gate', 'op': kind, 'why': 'no-such-key'}, 'a registered wrapped key was unwrapped with a wrapping key that does not exist'))
        else:
            if b[1] != 'ACTIVE':
                out.append(({'clause': 'gate', 'op': kind, 'why': 'not-active', 'state': b[1], 'stored_type': b[0]},
                            'Register unwrapped the key with wrapping key %d while that key was %s' % (key, b[1])))
            if not (b[2] & M.UNWRAP_KEY.value):
                out.append(({'clause': 'gate', 'op': kind, 'why': 'mask-bit-missing', 'stored_type': b[0]},
                            'Register unwrapped the key although the usage mask %#x of wrapping key %d lacks UNWRAP_KEY' % (b[2], key)))
            if b[0] != 'SYMMETRIC_KEY':
                out.append(({'clause': 'gate', 'op': kind, 'why': 'wrong-kind', 'stored_type': b[0]},
                            'Register unwrapped the key with a wrapping key of type %s' % b[0]))
    if okay and kind == 'DeriveKey':
        if not op[1]:
            out.append(({'clause': 'gate', 'op': kind, 'why': 'no-base-object'}, 'DeriveKey succeeded without a base object'))
        for k in op[1]:
            key = ref(k)
            b = before.get(key) if key is not None else None
            if b is None:
                out.append(({'clause': 'gate', 'op': kind, 'why': 'no-such-key'}, 'DeriveKey succeeded with a base object that does not exist'))
            elif not (b[2] & BIT['DERIVE_KEY']):
                out.append(({'clause': 'gate', 'op': kind, 'why': 'mask-bit-missing', 'stored_type': b[0]},
                            'DeriveKey succeeded although the usage mask %#x of base %d lacks DERIVE_KEY' % (b[2], key)))
    return out


def oracle_history(res):
    hits = []
    for i, st in enumerate(res['steps']):
        for sig, what in oracle_step(res['base'], st):
            hits.append((i, sig, what))
    return hits


# ---------------------------------------------------------------------------------------- printing a case for Coq
def coq_op(op, base):
    def u(k):
        return cp.z(0 if k < 0 else base + k)
    k = op[0]
    if k == 'Foreign':
        return '(ForeignUse %s)' % u(refs(op)[0])
    if k == 'AttrWrite':
        return '(AttrWrite %s)' % u(op[1])
    if k == 'CreateLA':
        return 'CreateRejected'
    if k == 'Create':
        return '(Create %s)' % cp.z(op[1])
    if k == 'CreateKeyPair':
        return '(CreateKeyPair %s %s)' % (cp.z(op[1]), cp.z(op[2]))
    if k == 'Register':
        return '(Register %s %s)' % (op[1], cp.z(op[2]))
    if k == 'RegisterWrapped':      # the code as it is never consults the named wrapping key: a plain Register for the model
        return '(Register SymmetricKey %s)' % cp.z(op[2])
    if k in ('Activate', 'Destroy'):
        return '(%s %s)' % (k, u(op[1]))
    if k == 'Revoke':
        return '(Revoke %s %s)' % (u(op[1]), op[2])
    if k in ('Encrypt', 'Decrypt', 'Sign', 'SignatureVerify'):
        return '(%s %s %s)' % (k, u(op[1]), cp.boolean(op[2]))
    if k == 'MAC':
        return '(MAC %s %s %s)' % (u(op[1]), cp.boolean(op[2]), cp.boolean(op[3]))
    if k == 'DeriveKey':
        return '(DeriveKey %s %s %s)' % (cp.lst(op[1], u), cp.z(op[2]), cp.z(derive_length(op)))
    if k == 'GetWrap':
        return '(GetWrap %s %s)' % (u(op[1]), u(op[2]))
    raise ValueError(op)


def coq_out(o):
    if o[0] == 'Other':
        return 'IOther'
    if o[0] == 'Refused':
        return '(IOut (Refused %s %s))' % (o[1], o[2])
    return '(IOut %s)' % o[0]


def coq_views(after):
    vs = []
    for x in sorted(after):
        v = after[x]
        if v is None:
            continue
        vs.append('(%s, %s, %s, %s)' % (cp.z(x), TYPE_OF_ENUM[v[0]], 'None' if v[1] is None else '(Some %s)' % STATES[v[1]], cp.z(v[2])))
    return '[' + '; '.join(vs) + ']'


def coq_case(res):
    steps = ['mkstep %s %s %s %s %s' % (coq_op(s['op'], res['base']), cp.boolean(s['cok']), coq_out(s['out']),
                                          cp.boolean(s['called']), coq_views(s['after'])) for s in res['steps']]
    return 'mkcase %s [%s]' % (cp.z(res['base']), ';\n    '.join(steps))


# ---------------------------------------------------------------------------------------- generators
KC, CA, CESS, UNSP, SUP = 'KeyCompromise', 'CACompromise', 'CessationOfOperation', 'Unspecified', 'Superseded'
T = True


def scenarios(tier):
    """(name, setup, alphabet, depth): every sequence of exactly `depth` letters after the setup (every prefix is compared)."""
    thorough = tier == 'thorough'
    out = []
    # one or two symmetric keys from nothing: the state machine itself, with operations on missing objects
    out.append(('sym-from-empty', [], [
        ('Create', FULL), ('Create', FULL & ~BIT['ENCRYPT'] & ~BIT['MAC_GENERATE']),
        ('Activate', 0), ('Activate', 1), ('Revoke', 0, KC), ('Revoke', 0, CESS), ('Revoke', 1, CA), ('Destroy', 0), ('Destroy', 1),
        ('Encrypt', 0, T), ('Decrypt', 0, T), ('MAC', 0, T, T), ('DeriveKey', [0], FULL), ('GetWrap', 1, 0)],
        4 if thorough else 3))
    # two symmetric keys, the first active
    out.append(('sym-two-objects', [('Create', FULL), ('Create', FULL), ('Activate', 0)], [
        ('Activate', 1), ('Revoke', 0, KC), ('Revoke', 0, UNSP), ('Revoke', 1, KC), ('Revoke', 1, CA), ('Destroy', 0), ('Destroy', 1),
        ('Encrypt', 0, T), ('Decrypt', 1, T), ('MAC', 0, T, T), ('MAC', 1, False, T), ('DeriveKey', [0, 1], FULL),
        ('GetWrap', 1, 0), ('GetWrap', 0, 1)],
        3 if thorough else 2))
    # an RSA pair (0 = public, 1 = private)
    kp = [('Activate', 0), ('Activate', 1), ('Revoke', 0, KC), ('Revoke', 1, SUP), ('Destroy', 1),
          ('Sign', 1, T), ('Sign', 0, T), ('SignatureVerify', 0, T), ('SignatureVerify', 1, T), ('MAC', 1, T, T), ('DeriveKey', [1], FULL)]
    if thorough:
        kp += [('Revoke', 1, KC), ('Destroy', 0), ('Encrypt', 1, T)]
    out.append(('key-pair', [('CreateKeyPair', FULL, FULL)], kp, 3))
    # one registered object of each stored type next to an active symmetric key
    for t in TYPES:
        reg = [('Activate', 0), ('Revoke', 0, KC), ('Revoke', 0, CA), ('Destroy', 0),
               ('Encrypt', 0, T), ('Sign', 0, T), ('SignatureVerify', 0, T),
               ('MAC', 0, T, T), ('MAC', 0, False, T), ('DeriveKey', [0], FULL), ('GetWrap', 0, 1), ('GetWrap', 1, 0)]
        if thorough:
            reg += [('Decrypt', 0, T), ('DeriveKey', [1, 0], FULL)]
        out.append(('registered-' + t, [('Register', t, FULL), ('Create', FULL), ('Activate', 1)], reg,
                    2))
    return out


def reach(state):
    """Operations that bring object 0 from Pre-Active into `state` (several routes where they exist)."""
    return {'PRE_ACTIVE': [[]],
            'ACTIVE': [[('Activate', 0)]],
            'DEACTIVATED': [[('Activate', 0), ('Revoke', 0, CESS)], [('Activate', 0), ('Revoke', 0, CA)]],
            'COMPROMISED': [[('Revoke', 0, KC)], [('Activate', 0), ('Revoke', 0, KC)],
                            [('Activate', 0), ('Revoke', 0, UNSP), ('Revoke', 0, KC)]]}[state]


def grid():
    """type x state x mask class x operation, one operation after a fixed route (DESIGN 5.5.3 (i))."""
    out = []
    uses = {'Encrypt': 'ENCRYPT', 'Decrypt': 'DECRYPT', 'Sign': 'SIGN', 'SignatureVerify': 'VERIFY', 'MAC': 'MAC_GENERATE',
            'DeriveKey': 'DERIVE_KEY', 'GetWrap': 'WRAP_KEY'}
    for t in TYPES:
        for state in ('PRE_ACTIVE', 'ACTIVE', 'DEACTIVATED', 'COMPROMISED'):
            if t == 'OpaqueData' and state != 'PRE_ACTIVE':
                continue
            for ri, route in enumerate(reach(state)):
                for opname, bitname in uses.items():
                    for mclass in (('full', 'only', 'lacking', 'zero', 'allbits', 'others') if ri == 0 else ('full',)):
                        m = {'full': FULL, 'only': BIT[bitname], 'lacking': FULL & ~BIT[bitname], 'zero': 0, 'allbits': ALLBITS,
                             'others': ALLBITS & ~BIT[bitname]}[mclass]
                        # object 0: the object under test; object 1: an active fully-masked symmetric key
                        setup = [('Register', t, m), ('Create', FULL), ('Activate', 1)] + route
                        if opname in ('Encrypt', 'Decrypt', 'Sign', 'SignatureVerify'):
                            tests = [(opname, 0, T), (opname, 0, False)] if mclass == 'full' else [(opname, 0, T)]
                            if ri == 0 and mclass in ('full', 'lacking'):      # every optional request field filled
                                tests += [(opname, 0, T, fl) for fl in OPTIONAL_FLAVOURS[opname]]
                        elif opname == 'MAC':
                            tests = [('MAC', 0, T, T), ('MAC', 0, False, T), ('MAC', 0, T, False)] if mclass == 'full' else [('MAC', 0, T, T)]
                        elif opname == 'DeriveKey':
                            tests = [('DeriveKey', [0], FULL), ('DeriveKey', [1, 0], 0), ('DeriveKey', [0, -1], FULL)]
                            if ri == 0 and mclass in ('full', 'lacking'):      # lengths: negative, zero, not whole bytes, 256
                                tests += [('DeriveKey', [0], FULL, None, n) for n in (-8, -1, 0, 12, 256)]
                            if mclass == 'full' and state == 'PRE_ACTIVE':
                                tests.append(('DeriveKey', [], FULL))
                        else:
                            tests = [('GetWrap', 1, 0), ('GetWrap', 0, 0)]
                            if mclass == 'full':
                                tests += [('GetWrap', 0, 1), ('GetWrap', 1, -1), ('GetWrap', -1, 0)]
                        if ri > 0 or mclass in ('only', 'zero', 'allbits', 'others'):
                            tests = tests[:1]
                        for tst in tests:
                            ver = VERSIONS[len(out) % len(VERSIONS)]
                            out.append(('grid', [('Version', ver)] + setup + [tst]))
                # lifecycle operations after every route
                for tst in ([('Activate', 0), ('Destroy', 0)] + [('Revoke', 0, c) for c in CODES]
                            + [('Revoke', 0, c, (d, 'm')) for c in (KC, CA, CESS) for d in (0, 4000000000)]):
                    out.append(('grid', [('Register', t, FULL)] + route + [('Foreign', tst), tst, ('Foreign', ('Destroy', 0)), ('Activate', 0), ('Destroy', 0)]))
    return out


def algorithm_family(tier):
    """Every CryptographicAlgorithm member as the OWN algorithm of the key used in every cryptographic operation, with a
    mask that lacks exactly the bit the operation needs (and, thorough, one that has only that bit / everything)."""
    out = []
    uses = [('SymmetricKey', ('Encrypt', 0, T), 'ENCRYPT'), ('SymmetricKey', ('Decrypt', 0, T), 'DECRYPT'),
            ('SymmetricKey', ('MAC', 0, T, T), 'MAC_GENERATE'), ('SymmetricKey', ('MAC', 0, False, T), 'MAC_GENERATE'),
            ('SymmetricKey', ('GetWrap', 1, 0), 'WRAP_KEY'), ('SymmetricKey', ('DeriveKey', [0], FULL), 'DERIVE_KEY'),
            ('PrivateKey', ('Sign', 0, T), 'SIGN'), ('PublicKey', ('SignatureVerify', 0, T), 'VERIFY'),
            ('PrivateKey', ('DeriveKey', [0], FULL), 'DERIVE_KEY'), ('SplitKey', ('MAC', 0, False, T), 'MAC_GENERATE')]
    for a in ALGS:
        for t, use, bit in uses:
            classes = [ALLBITS & ~BIT[bit]] + ([BIT[bit], FULL] if tier == 'thorough' else [])
            for m in classes:
                out.append(('algorithms', [('Register', t, m, a), ('Create', FULL), ('Activate', 1), ('Activate', 0), use]))
        # a key derived with this algorithm attribute, then used without the bits
        out.append(('algorithms', [('Create', FULL), ('DeriveKey', [0], ALLBITS & ~BIT['MAC_GENERATE'] & ~BIT['ENCRYPT'], a),
                                   ('Activate', 1), ('MAC', 1, False, T), ('MAC', 1, T, T), ('Encrypt', 1, T)]))
    for c in CREATABLE:
        out.append(('algorithms', [('Create', ALLBITS & ~BIT['MAC_GENERATE'] & ~BIT['ENCRYPT'], c), ('Activate', 0),
                                   ('MAC', 0, False, T), ('Encrypt', 0, T), ('Decrypt', 0, T)]))
    return out


def wrapped_family():
    """Register of a key in wrapped form whose Key Wrapping Data names a server-held key in every state / kind / mask
    class; the stored object is read back with Get (it must be what was sent: the code never unwraps on Register)."""
    out = []
    UW = M.UNWRAP_KEY.value
    for state in ('PRE_ACTIVE', 'ACTIVE', 'DEACTIVATED', 'COMPROMISED'):
        for route in reach(state):
            for m in (ALLBITS, UW, UW | BIT['WRAP_KEY'], ALLBITS & ~UW, FULL, 0):
                for first in (('Create', m), ('Register', 'SymmetricKey', m)):
                    out.append(('wrapped', [first] + route + [('RegisterWrapped', 0, FULL), ('Activate', 1), ('Encrypt', 1, T), ('Destroy', 0)]))
    for t in TYPES:                  # wrong kinds of wrapping key, active and with every bit
        if t != 'SymmetricKey':
            out.append(('wrapped', [('Register', t, ALLBITS), ('Activate', 0), ('RegisterWrapped', 0, FULL), ('Activate', 1)]))
    out.append(('wrapped', [('RegisterWrapped', -1, FULL), ('RegisterWrapped', 0, FULL), ('RegisterWrapped', 5, FULL), ('Activate', 0), ('Activate', 1)]))
    out.append(('wrapped', [('Create', ALLBITS), ('Activate', 0), ('Batch', 3), ('RegisterWrapped', 0, ALLBITS), ('Activate', 'P'), ('Encrypt', 'P', T)]))
    return out


def lifecycle_attribute_family():
    """Every other way a State could be written: SetAttribute / ModifyAttribute (1.x and 2.0 forms) / DeleteAttribute of the
    lifecycle attributes on an object in every state (by every route), and Create / Register whose template carries one."""
    out = []
    vals = {'State': ['ACTIVE', 'PRE_ACTIVE']}
    for state in ('PRE_ACTIVE', 'ACTIVE', 'DEACTIVATED', 'COMPROMISED'):
        for route in reach(state):
            for name in LIFECYCLE_ATTRS:
                for val in vals.get(name, [-10, 86400 * 365]):      # a date in the past / in the future of the engine's clock
                    out.append(('lifecycle-attrs', [('Create', FULL)] + route + [('AttrWrite', 0, how, name, val) for how in ATTR_HOW]
                                + [('Encrypt', 0, T), ('AttrWrite', 1, 'modify1', name, val), ('AttrWrite', -1, 'set2', name, val)]))
    for name in LIFECYCLE_ATTRS:
        for val in vals.get(name, [-10, 86400 * 365]):
            for kind in ('Create', 'SymmetricKey', 'Certificate', 'SecretData', 'PrivateKey'):
                out.append(('lifecycle-attrs', [('CreateLA', kind, name, val, FULL), ('Activate', 0), ('Encrypt', 0, T), ('Create', FULL), ('Activate', 0)]))
    return out


def batch_family():
    """Create/Register/CreateKeyPair and lifecycle + use of the new object through the ID placeholder in ONE request."""
    out = []
    firsts = [('Create', FULL), ('CreateKeyPair', FULL, FULL)] + [('Register', t, FULL) for t in TYPES]
    uses = [('Encrypt', 'P', T), ('Decrypt', 'P', T), ('Sign', 'P', T), ('SignatureVerify', 'P', T), ('MAC', 'P', T, T)]
    for f in firsts:
        off = 1 if f[0] == 'CreateKeyPair' else 0        # the placeholder after CreateKeyPair is the private key
        for use in uses:
            use0 = use[:1] + (off,) + use[2:]
            out.append(('batch', [('Batch', 3), f, use, ('Activate', 'P'), use0]))                     # use before activation, then alone
            out.append(('batch', [('Batch', 5), f, ('Activate', 'P'), use, ('Destroy', 'P'), use]))
            out.append(('batch', [('Batch', 5), f, ('Activate', 'P'), ('Revoke', 'P', CA), use, ('Activate', 'P')]))
            out.append(('batch', [f, ('Batch', 4), ('Activate', off), use0, ('Revoke', off, KC), use0]))
        out.append(('batch', [('Batch', 4), f, ('Revoke', 'P', KC), ('Activate', 'P'), ('Destroy', 'P')]))
        out.append(('batch', [('Batch', 3), f, ('Activate', 'P'), ('Destroy', 'P'), ('Revoke', off, CESS), ('Destroy', off)]))
    return out


def random_history(rng, length):
    """Seeded history biased towards applicable operations (DESIGN 5.5.3 (ii)); tracks a rough picture of its own objects."""
    ops = []
    objs = []          # [type name] per offset; may be destroyed - the generator does not care much
    masks = ([FULL] * 6 + [0, BIT['ENCRYPT'] | BIT['DECRYPT'], BIT['SIGN'] | BIT['VERIFY'], BIT['MAC_GENERATE'] | BIT['WRAP_KEY']]
             + [b for b in BIT.values()] + [FULL & ~b for b in BIT.values()])

    def rmask():
        if rng.random() < 0.3:          # any subset of the 22 defined bits
            return sum(e.value for e in M if rng.random() < 0.5)
        return rng.choice(masks)
    if rng.random() < 0.6:
        ops.append(('Version', rng.choice(VERSIONS)))
    length += len(ops)

    def pick():
        if not objs or rng.random() < 0.04:
            return -1 if rng.random() < 0.5 else len(objs)      # never existed / not created yet
        return rng.randrange(len(objs))

    def pick_type(names):
        c = [i for i, t in enumerate(objs) if t in names]
        return rng.choice(c) if c and rng.random() < 0.8 else pick()
    def foreign_some(start):
        """Now and then the operation just generated (outside a batch) is sent by an identity that owns nothing."""
        if len(ops) == start + 1 and rng.random() < 0.2:
            o = ops[-1]
            if o[0] in ('Activate', 'Revoke', 'Destroy'):
                ops[-1] = ('Foreign', o)
    mark = None
    while len(ops) < length:
        if mark is not None:
            foreign_some(mark)
        mark = len(ops)
        r = rng.random()
        if objs and rng.random() < 0.05:
            ops.append(rng.choice([('Restart',), ('Version', rng.choice(VERSIONS)), ('Clock', rng.choice([1, 3600, 86400 * 400, 86400 * 4000]))]))
            length += 1
            continue
        if len(objs) < 2 or (r < 0.12 and len(objs) < 7):
            q = rng.random()
            if rng.random() < 0.25 and len(objs) < 6:
                # a creating operation followed, in the same request, by operations on the ID placeholder / other objects
                t = rng.choice(list(TYPES))
                first = rng.choice([('Create', rmask()), ('Register', t, rmask()), ('CreateKeyPair', rmask(), rmask())])
                tail = []
                for _ in range(rng.randint(1, 3)):
                    who = 'P' if rng.random() < 0.7 else pick()
                    tail.append(rng.choice([('Activate', who), ('Revoke', who, rng.choice(list(CODES))), ('Destroy', who),
                                            ('Encrypt', who, True), ('Decrypt', who, True), ('Sign', who, True),
                                            ('SignatureVerify', who, True), ('MAC', who, True, True)]))
                ops.append(('Batch', 1 + len(tail)))
                ops.append(first)
                ops += tail
                objs += (['PublicKey', 'PrivateKey'] if first[0] == 'CreateKeyPair' else ['SymmetricKey' if first[0] == 'Create' else t])
                length += 1
                continue
            if q < 0.4:
                ops.append(('Create', rmask(), rng.choice(list(CREATABLE))) if rng.random() < 0.3 else ('Create', rmask()))
                objs.append('SymmetricKey')
            elif q < 0.55 and len(objs) < 6:
                ops.append(('CreateKeyPair', rmask(), rmask()))
                objs += ['PublicKey', 'PrivateKey']
            else:
                t = rng.choice(list(TYPES))
                if objs and rng.random() < 0.2:        # a wrapped key naming one of the history's objects as its wrapping key
                    ops.append(('RegisterWrapped', pick_type(['SymmetricKey']), rmask()))
                    objs.append('SymmetricKey')
                    continue
                if t in ('SymmetricKey', 'PublicKey', 'PrivateKey', 'SplitKey') and rng.random() < 0.5:
                    ops.append(('Register', t, rmask(), rng.choice(ALGS)))      # any own algorithm
                else:
                    ops.append(('Register', t, rmask()))
                objs.append(t)
        elif r < 0.04 + 0.12 and len(objs) >= 2:
            # several operations on existing objects in one request
            k = rng.randint(2, 4)
            ops.append(('Batch', k))
            for _ in range(k):
                who = pick()
                ops.append(rng.choice([('Activate', who), ('Revoke', who, rng.choice(list(CODES))), ('Destroy', who),
                                       ('Encrypt', who, True), ('Decrypt', who, True), ('Sign', who, True),
                                       ('SignatureVerify', who, True), ('MAC', who, True, True), ('GetWrap', who, pick())]))
            length += 1
        elif r < 0.185:
            name = rng.choice(LIFECYCLE_ATTRS)
            val = rng.choice(['ACTIVE', 'PRE_ACTIVE', 'DEACTIVATED']) if name == 'State' else rng.choice([-10, -86400, 0, 86400 * 365])
            if rng.random() < 0.7 or len(objs) >= 7:
                ops.append(('AttrWrite', pick(), rng.choice(ATTR_HOW), name, val))
            else:
                ops.append(('CreateLA', rng.choice(['Create', 'SymmetricKey', 'PublicKey', 'SecretData']), name, val, rmask()))
        elif r < 0.30:
            ops.append(('Activate', pick()))
        elif r < 0.44:
            if rng.random() < 0.3:      # with a compromise occurrence date (past or future of the engine's clock) and a message
                ops.append(('Revoke', pick(), rng.choice(list(CODES)), (rng.choice([0, 1500000000, 1600000000, 4000000000]), 'reason text')))
            else:
                ops.append(('Revoke', pick(), rng.choice(list(CODES))))
        elif r < 0.50:
            ops.append(('Destroy', pick()))
        elif r < 0.58:
            ops.append(('Encrypt', pick_type(['SymmetricKey']), rng.random() < 0.9, rng.choice(['good', 'good', 'bad', 'aead', 'noiv'])))
        elif r < 0.65:
            ops.append(('Decrypt', pick_type(['SymmetricKey']), rng.random() < 0.9, rng.choice(['good', 'good', 'bad', 'aead', 'noiv'])))
        elif r < 0.72:
            ops.append(('Sign', pick_type(['PrivateKey']), rng.random() < 0.9, rng.choice(['good', 'good', 'bad'])))
        elif r < 0.79:
            ops.append(('SignatureVerify', pick_type(['PublicKey']), rng.random() < 0.9, rng.choice(['good', 'good', 'bad', 'digested', 'allopt'])))
        elif r < 0.87:
            ops.append(('MAC', pick(), rng.random() < 0.7, rng.random() < 0.9))
        elif r < 0.93 and len(objs) < 7:
            n = rng.choice([1, 1, 1, 2, 2, 3, 0]) if rng.random() < 0.5 else 1
            ops.append(('DeriveKey', [pick_type(['SymmetricKey', 'SecretData', 'PrivateKey', 'PublicKey']) for _ in range(n)], rmask(), rng.choice(ALGS) if rng.random() < 0.4 else None, rng.choice([128, 128, 128, 256, 64, 8, 0, 0, -8, -128, 12, 7])))
            objs.append('SymmetricKey')      # if it succeeds; otherwise the offsets of the generator drift, which is harmless
        else:
            ops.append(('GetWrap', pick(), pick_type(['SymmetricKey'])))
    return ops


def all_histories(ctx):
    hs = []
    # corpus first: minimised histories of past disagreements / mutation survivors
    for h in CORPUS:
        hs.append(('corpus', h))
    for name, setup, alphabet, depth in scenarios(ctx.tier):
        for seq in itertools.product(alphabet, repeat=depth):
            hs.append((name, list(setup) + list(seq)))
    hs += grid()
    hs += batch_family()
    hs += lifecycle_attribute_family()
    hs += wrapped_family()
    hs += algorithm_family(ctx.tier)
    rng = ctx.subrng('histories')
    n = 800 if ctx.tier == 'thorough' else 130
    for i in range(n):
        hs.append(('random', random_history(rng, rng.randint(5, 40))))
    return hs


CORPUS = [
    # a derived key of length 0 has an empty value: it can be activated, MAC refuses it for want of a key value, the crypto engine refuses it elsewhere
    [('Create', ALLBITS), ('DeriveKey', [0], ALLBITS, None, 0), ('DeriveKey', [0], ALLBITS, 'HMAC_SHA256', 0), ('Activate', 1), ('Activate', 2),
     ('MAC', 1, T, T), ('MAC', 2, False, T), ('Encrypt', 1, T), ('Activate', 0), ('GetWrap', 1, 0), ('GetWrap', 0, 1), ('DeriveKey', [1], FULL),
     ('DeriveKey', [0], FULL, None, -8), ('DeriveKey', [-1], FULL, None, -8), ('DeriveKey', [], FULL, None, -8), ('Revoke', 1, KC), ('Destroy', 1)],
    # every revocation code from every state, then an attempt to go back
    [('Create', FULL), ('Activate', 0), ('Revoke', 0, CA), ('Activate', 0), ('Revoke', 0, KC), ('Revoke', 0, CESS), ('Activate', 0), ('Destroy', 0), ('Activate', 0)],
    [('Create', FULL), ('Revoke', 0, CA), ('Revoke', 0, KC), ('Activate', 0), ('Encrypt', 0, T), ('Destroy', 0)],
    # use after each lifecycle step
    [('Create', FULL), ('Encrypt', 0, T), ('Activate', 0), ('Encrypt', 0, T), ('Decrypt', 0, T), ('MAC', 0, T, T), ('MAC', 0, False, T),
     ('DeriveKey', [0], FULL), ('GetWrap', 0, 0), ('Destroy', 0), ('Revoke', 0, SUP), ('Encrypt', 0, T), ('Decrypt', 0, T), ('MAC', 0, T, T),
     ('GetWrap', 0, 0), ('DeriveKey', [0], FULL), ('Destroy', 0), ('Encrypt', 0, T)],
    [('CreateKeyPair', FULL, FULL), ('Sign', 1, T), ('SignatureVerify', 0, T), ('Activate', 0), ('Activate', 1), ('Sign', 1, T), ('SignatureVerify', 0, T),
     ('Sign', 0, T), ('SignatureVerify', 1, T), ('Revoke', 1, KC), ('Sign', 1, T), ('Revoke', 0, UNSP), ('SignatureVerify', 0, T)],
    # wrapping a certificate / opaque object, MAC with an opaque object (general failures before the fix: commits)
    [('Register', 'Certificate', FULL), ('Register', 'OpaqueData', 0), ('Create', FULL), ('Activate', 2), ('GetWrap', 0, 2), ('GetWrap', 1, 2),
     ('MAC', 1, T, T), ('MAC', 1, False, T), ('Activate', 1), ('Revoke', 1, KC), ('Destroy', 1)],
]


# ---------------------------------------------------------------------------------------- running histories in worker processes
_RUNNER = None
_MATERIAL = None
_WORKDIR = None


def _init_worker():
    global _RUNNER
    _RUNNER = Runner(Path(_WORKDIR) / ('w%d' % os.getpid()), _MATERIAL)


def _strip(res):
    for s in res['steps']:
        s.pop('crypto', None)
    return res


def _run_chunk(chunk):
    out = []
    for h in chunk:
        res = None
        for attempt in (0, 1, 2):
            try:
                res = _strip(_RUNNER.run(h))
                err = None
            except Exception as e:
                res, err = None, '%s: %s' % (type(e).__name__, e)
            # the scratch database vanished under the engine (work/C04 wiped by a concurrent run of this check):
            # nothing the code under test can cause; run the history again on a fresh engine
            if _RUNNER.eng is not None and not os.path.exists(_RUNNER.eng.path):
                _RUNNER.fresh()
                res = None
                continue
            break
        if res is None:      # reported by the parent as a broken correspondence
            res = {'error': err or 'scratch database kept vanishing', 'history': h}
            _RUNNER.fresh()
        out.append(res)
    return out


def run_histories(ctx, histories, procs=4, chunk=40):
    global _MATERIAL, _WORKDIR
    _WORKDIR = str(ctx.work)
    if _MATERIAL is None:
        _MATERIAL = make_material()
    chunks = [histories[i:i + chunk] for i in range(0, len(histories), chunk)]
    if procs <= 1 or len(chunks) < 2:
        _init_worker()
        res = [_run_chunk(c) for c in chunks]
        _RUNNER.close()
    else:
        mp = multiprocessing.get_context('fork')
        with mp.Pool(procs, initializer=_init_worker) as pool:
            res = pool.map(_run_chunk, chunks)
    # remove the scratch databases of the workers
    for d in Path(_WORKDIR).glob('w*'):
        if d.is_dir():
            for f in d.iterdir():
                try:
                    f.unlink()
                except OSError:
                    pass
            try:
                d.rmdir()
            except OSError:
                pass
    return [r for c in res for r in c]


# ---------------------------------------------------------------------------------------- finder: shrink a failing history
def shrink(ctx, ops, sig):
    """Greedy: drop single operations (never a creating one, so offsets keep their meaning) while the same
    signature still reproduces."""
    def fails(h):
        res = run_histories(ctx, [h], procs=1)[0]
        if 'error' in res:
            return False
        return any(s == sig for _, s, _ in oracle_history(res))
    def removable(h):
        """Indices whose removal leaves a well-formed history with the same meaning of offsets."""
        inside, out = set(), []
        for i, o in enumerate(h):
            if o[0] == 'Batch':
                inside.update(range(i + 1, i + 1 + o[1]))
        for i, o in enumerate(h):
            if o[0] == 'Batch':
                group = h[i + 1:i + 1 + o[1]]
                if not any('P' in [x for x in g[1:] if not isinstance(x, list)] for g in group):
                    out.append(i)           # dissolving a batch: its operations become single requests
            elif i in inside or o[0] in ('Create', 'CreateKeyPair', 'Register', 'RegisterWrapped', 'DeriveKey', 'CreateLA'):
                continue
            else:
                out.append(i)
        return out
    cur = list(ops)
    changed = True
    while changed and len(cur) > 1:
        changed = False
        for i in sorted(removable(cur), reverse=True):
            if i >= len(cur) or i not in removable(cur):
                continue
            cand = cur[:i] + cur[i + 1:]
            if cand and fails(cand):
                cur = cand
                changed = True
    return cur


def jsonable(res, upto=None):
    steps = res['steps'] if upto is None else res['steps'][:upto + 1]
    return [{'op': list(s['op']), 'status': s['status'], 'reason': s['reason'], 'message': s['message'],
             'classified': list(s['out']), 'crypto_engine_entered': s['called'],
             'attributes_after': {str(k): v for k, v in s['after'].items()},
             **({'stored_by_register': s['stored']} if s.get('stored') else {})} for s in steps]


# ---------------------------------------------------------------------------------------- the check
def check_constants(ctx):
    """The model's bit positions, state and reason-code constructors against kmip.core.enums of the tree under test."""
    want_bits = {'SIGN': 0, 'VERIFY': 1, 'ENCRYPT': 2, 'DECRYPT': 3, 'WRAP_KEY': 4, 'MAC_GENERATE': 7, 'DERIVE_KEY': 9}   # Model.v b*
    problems = [n for n, b in want_bits.items() if BIT[n] != 1 << b]
    problems += [n for n in STATES if n not in enums.State.__members__] + [n.name for n in enums.State if n.name not in STATES]
    problems += [c.name for c in RC if c not in CODES.values()]
    if problems:
        ctx.broken.append({'kind': 'translation', 'name': 'kmip.core.enums vs Lifecycle/Model.v constants',
                           'detail': 'differ: %r' % problems, 'candidates': []})


def load_own_findings(ctx):
    """findings.d/C04.json is the source bin/mkmanifest merges into known_findings.json; read it directly as well so
    that the check does not depend on the merge having been run."""
    p = Path(__file__).resolve().parents[1] / 'findings.d' / 'C04.json'
    if p.exists():
        have = {f.get('id') for f in ctx.findings}
        for f in json.loads(p.read_text()):
            if f.get('property') == 'C04' and f.get('id') not in have:
                ctx.findings.append(f)


def run(ctx):
    ctx.cov['rule'] = (
        'histories on the real KmipEngine: (a) for each scenario (two symmetric keys from nothing; two keys, one active; an RSA pair; '
        'one registered object of each of the 7 stored types beside an active key) ALL sequences of depth 2-3 (quick) / 3-4 (thorough) over an '
        '11-14-letter alphabet of Create/Activate/Revoke(reason codes)/Destroy/Encrypt/Decrypt/Sign/SignatureVerify/MAC/DeriveKey/Get-with-wrapping; '
        '(b) grid: stored type x state (each route into it) x usage-mask class (full / only the needed bit / lacking it / empty / all 22 bits / '
        'all but the needed one) x operation x parameter variants x KMIP 1.2-2.0, with the same lifecycle operation first sent by a non-owner; '
        '(c) one-request batches: create + lifecycle + use through the ID placeholder; (d) seeded random histories of length 5-40 on up to 7 '
        'objects with batches, placeholder addressing, non-owner requests, dated revocations, clock jumps, engine restarts, version changes; '
        '(e) a corpus of directed histories. A history is distinct by its operation sequence and non-trivial when at least one operation on an '
        'existing object succeeded.')
    ctx.cov['trusted_extra'] = [
        'harness/c04.py: request builders, GetAttributes reader, classification of failures by result reason + message text',
        'the model covers one identity owning every object under the default policy; creation requests are well formed',
    ]
    load_own_findings(ctx)
    check_constants(ctx)
    ctx.regen(only=['lifecycle'])       # tie T: guard skeleton of engine.py -> gen/LifecycleGuards.v
    ctx.prove('props/C04.v')
    histories = all_histories(ctx)
    ctx.log('%d histories, %d operations' % (len(histories), sum(len(h) for _, h in histories)))
    results = run_histories(ctx, [h for _, h in histories])
    cases, index = [], []
    first_violation = {}
    for i, ((name, h), res) in enumerate(zip(histories, results)):
        if 'error' in res:
            ctx.disagreement('histories', {'history': [list(o) for o in h], 'harness_error': res['error']})
            continue
        if res.get('mask_mismatch'):
            ctx.disagreement('histories', {'history': [list(o) for o in h],
                                           'getattributes_vs_store': ['object %d: GetAttributes reports usage mask %#x, the store holds %#x' % tuple(m)
                                                                      for m in res['mask_mismatch']]})
        cases.append(coq_case(res))
        index.append(i)
        nontrivial = False
        for s in res['steps']:
            k = s['op'][0]
            ctx.count('op.%s.%s' % (k, s['out'][1] if s['out'][0] == 'Refused' else s['out'][0]))
            if s['status'] == 'SUCCESS' and k not in ('Create', 'CreateKeyPair', 'Register', 'RegisterWrapped', 'CreateLA'):
                nontrivial = True
            for x, b in s['before'].items():
                a = s['after'].get(x)
                if b is not None and a is not None and a[1] != b[1]:
                    ctx.count('transition.%s->%s' % (b[1], a[1]))
            if k in ('Encrypt', 'Decrypt', 'Sign', 'SignatureVerify', 'MAC') and isinstance(s['op'][1], int) and s['op'][1] >= 0:
                b = s['before'].get(res['base'] + s['op'][1])
                if b is not None:
                    ctx.count('use.%s.%s.%s.%s' % (k, b[0], b[1], 'ok' if s['status'] == 'SUCCESS' else 'no'))
        for s in res['steps']:
            if s.get('stored') and not (s['stored']['wrapped'] and s['stored']['same_bytes']):
                # the code as modelled stores a wrapped key as it was sent (Model: Register consults no other object)
                ctx.disagreement('stored-as-registered', {'history': [list(o) for o in h], 'observed': jsonable(res)},
                                 model_says='Register stores the key block as sent, with its key wrapping data', impl_says=s['stored'])
        ctx.count('histories.' + name)
        ctx.case_seen(repr(h), nontrivial=nontrivial)
        # direct oracle on every case
        for step, sig, what in oracle_history(res):
            key = json.dumps(sig, sort_keys=True)
            if key in first_violation:
                continue
            first_violation[key] = (i, step, sig, what)
    # report oracle hits (shrunk when new)
    shrunk = 0
    for key, (i, step, sig, what) in sorted(first_violation.items()):
        res = results[i]
        ops = list(histories[i][1][:res['steps'][step]['src_end']])
        witness = {'history': [list(o) for o in ops], 'failing_step': step, 'observed': jsonable(res, step),
                   'expected': 'the property statement: ' + what + ' must not happen'}
        known = any(f.get('status') == 'known' and all(sig.get(k) == v for k, v in f['signature'].items()) for f in ctx.findings)
        if not known and shrunk < 5:        # shrinking is a few dozen engine runs per signature: the first five are enough
            shrunk += 1
            small = shrink(ctx, ops, sig)
            r2 = run_histories(ctx, [small], procs=1)[0]
            witness = {'history': [list(o) for o in small], 'observed': jsonable(r2),
                       'found_in': [list(o) for o in ops], 'expected': 'the property statement: ' + what + ' must not happen'}
        ctx.violation(sig, witness, what)
    bad = ctx.run_cases('histories', HEADER, cases, 'check_hcase',
                        what='Lifecycle.Model.step vs KmipEngine._process_* : outcome class, crypto engine entered, Object Type/State/mask of every object after every step')
    for j in bad[:20]:
        i = index[j]
        res = results[i]
        model = ctx.model_output(HEADER, 'explain (%s)' % cases[j]) if j in bad[:3] else None
        ctx.disagreement('histories', {'history': [list(o) for o in histories[i][1]], 'generator': histories[i][0],
                                       'observed': jsonable(res)}, model_says=model)
    # a disagreeing history is the most useful thing to name in a replay file: put it before broken obligations
    ctx.broken.sort(key=lambda b: 0 if (b['kind'] == 'correspondence' and b['candidates']) else 1)
    if results:
        good = [r for r in results if 'error' not in r]
        ctx.sample({'history': [list(o) for o in histories[0][1]], 'observed': jsonable(good[0])[:4]})
        ctx.sample({'coq_case': cases[len(cases) // 2][:600]})


def replay(ctx, data):
    """bin/check C04 --replay file : run the recorded history again and evaluate the direct oracle."""
    w = data.get('input') or {}
    hist = w.get('history')
    if hist is None:
        cands = data.get('first_disagreeing_cases') or []
        hist = cands[0]['case']['history'] if cands else None
    if hist is None:
        print('replay file names no history')
        return 2
    ops = [tuple(o) for o in hist]
    res = run_histories(ctx, [ops], procs=1)[0]
    if 'error' in res:
        print('harness error:', res['error'])
        return 2
    print(json.dumps(jsonable(res), indent=1))
    hits = oracle_history(res)
    for step, sig, what in hits:
        print('ORACLE step %d: %s  %s' % (step, what, json.dumps(sig, sort_keys=True)))
    ok, out, err = ctx.coq_eval('replay', HEADER + '\nEval vm_compute in (check_hcase (%s)).\nEval vm_compute in (explain (%s)).\n'
                                % (coq_case(res), coq_case(res)))
    flat = ' '.join(out.split())
    agrees = ok and flat.startswith('= true')
    print('model agrees with the implementation on this history:', agrees)
    if not agrees:
        print('first disagreement (step index, model outcome, model objects):', flat if ok else err[-500:])
    return 1 if hits or not agrees else 0
