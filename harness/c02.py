"""C02 - emitted bytes are spec-conformant TTLV; responses follow the envelope."""
import prims

HEADER = 'From PK Require Import Base.PrimCases.\nFrom Coq Require Import List ZArith.\nImport ListNotations.\nOpen Scope Z_scope.\n'


def prim_cases(ctx, n_random, n_corrupt_per_kind):
    rng = ctx.subrng('prims')
    cases, meta = [], []
    for kind in prims.PT:
        goods = []
        for v in prims.values_for(kind, rng, n_random):
            cs, r = prims.case_enc(kind, v)
            for c in cs:
                cases.append(c)
                meta.append(('enc', kind, repr(v)[:80], r[0]))
            ctx.count('prim.enc.%s.%s' % (kind, r[0]))
            new = ctx.case_seen(('enc', kind, v), nontrivial=True)
            if r[0] == 'ok' and not (kind == 'PEnum' and v not in prims.ENUM_MEMBERS):
                goods.append(r[1])
                # the implementation must decode its own output to the same value
                d = prims.impl_decode(kind, r[1] + b'\x42\x00\x08')
                if d is None or d[0] != v or d[1] != b'\x42\x00\x08':
                    ctx.violation({'class': kind, 'what': 'roundtrip'}, {'kind': kind, 'value': repr(v), 'decoded': repr(d)},
                                  'primitive %s does not decode its own encoding of %r' % (kind, v))
        picks = goods if len(goods) <= n_corrupt_per_kind else rng.sample(goods, n_corrupt_per_kind)
        for g in picks:
            for bad in prims.corruptions(g, rng):
                c, r = prims.case_dec(kind, bad)
                cases.append(c)
                meta.append(('dec', kind, bad.hex(), 'accept' if r else 'reject'))
                ctx.count('prim.dec.%s.%s' % (kind, 'accept' if r else 'reject'))
                ctx.case_seen(('dec', kind, bad), nontrivial=True)
            c, r = prims.case_dec(kind, g)
            cases.append(c)
            meta.append(('dec', kind, g.hex(), 'accept' if r else 'reject'))
    return cases, meta


def run(ctx):
    ctx.cov['rule'] = ('primitives: every boundary value (2^k, 2^k+-1 for k in 7..192, 0, +-1), all string/byte lengths 0..40, '
                       'seeded random values; decoders on valid encodings with every truncation and single-field corruption. '
                       'A case is non-trivial when distinct after canonicalisation (kind, value or byte string).')
    ctx.regen(only=['enums'])
    ctx.prove('props/C02.v')
    quick = ctx.tier == 'quick'
    cases, meta = prim_cases(ctx, 40 if quick else 400, 6 if quick else 40)
    bad = ctx.run_cases('prims', HEADER, cases, 'check_pcase', what='enc_prim/dec_prim/validate_prim vs kmip.core.primitives')
    for i in bad[:20]:
        ctx.disagreement('prims', {'case': meta[i], 'coq': cases[i][:400]})
    ctx.sample({'primitive_case': cases[0]})
    ctx.sample({'primitive_case': cases[len(cases) // 2][:300]})
